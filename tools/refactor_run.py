#!/usr/bin/env python3
"""refactor_run.py [--jobs N] [--only id,...]
False-alarm probe: run EVERY registered check against each behaviour-preserving
refactoring kept under seeded/refactors/<id>/patch.diff (scratch copy of /repo,
tools/mutant_run.py) and record which checks turned red (ideally none) in
seeded/refactors/<id>/result.json."""
import argparse, json, os, re, subprocess, sys
from concurrent.futures import ThreadPoolExecutor
sys.path.insert(0, os.path.dirname(os.path.abspath(__file__)))
from common import VERIF
ALL = ["C%02d" % i for i in range(1, 21)]

def one(rid):
    d = os.path.join(VERIF, "seeded", "refactors", rid)
    r = subprocess.run([sys.executable, os.path.join(VERIF, "tools", "mutant_run.py"), os.path.join(d, "patch.diff")] + ALL,
                       stdout=subprocess.PIPE, stderr=subprocess.STDOUT, text=True, cwd=VERIF)
    res = {}
    lines = r.stdout.split("\n")
    for i, l in enumerate(lines):
        m = re.match(r"^(C\d\d) (CAUGHT|MISSED)", l)
        if m:
            detail = ""
            if m.group(2) == "CAUGHT":
                detail = " | ".join(x.strip() for x in lines[i + 1:i + 3])[:300]
            res[m.group(1)] = {"verdict": "red" if m.group(2) == "CAUGHT" else "green", "detail": detail}
    head = subprocess.run(["git", "-C", VERIF, "rev-parse", "--short", "HEAD"], stdout=subprocess.PIPE, text=True).stdout.strip()
    json.dump({"verif_commit": head, "checks": res, "raw_tail": lines[-5:] if not res else []},
              open(os.path.join(d, "result.json"), "w"), indent=1)
    # replay copies written next to the patch by mutant_run are not interesting here
    for f in os.listdir(d):
        if f.startswith("replay_"):
            os.remove(os.path.join(d, f))
    red = [k for k, v in res.items() if v["verdict"] == "red"]
    return rid, red, len(res)

def main():
    ap = argparse.ArgumentParser(); ap.add_argument("--jobs", type=int, default=3); ap.add_argument("--only", default="")
    a = ap.parse_args()
    ids = sorted(os.listdir(os.path.join(VERIF, "seeded", "refactors")))
    if a.only:
        ids = [i for i in ids if i in a.only.split(",")]
    with ThreadPoolExecutor(a.jobs) as ex:
        for rid, red, n in ex.map(one, ids):
            print("%-12s checks=%d red=%s" % (rid, n, ",".join(red) or "-"), flush=True)

if __name__ == "__main__":
    main()
