#!/usr/bin/env python3
"""refactor_run.py [--jobs N] [--only id,...]
False-alarm probe: run EVERY registered check against each behaviour-preserving
refactoring kept under seeded/refactors/<id>/patch.diff (scratch copy of /repo,
tools/mutant_run.py) and record which checks turned red (ideally none) in
seeded/refactors/<id>/result.json."""
import argparse, json, os, re, subprocess, sys
from concurrent.futures import ThreadPoolExecutor
sys.path.insert(0, os.path.dirname(os.path.abspath(__file__)))
from common import VERIF
ALL = ["C%02d" % i for i in range(1, 21)]

CLONES = []   # independent copies of this verif tree (own lean/.lake and build/), one per parallel job

def make_clones(n):
    """Parallel mutant runs must not share lean/.lake (regenerated Gen files, the driver binary)."""
    import shutil
    for i in range(n):
        c = "/root/wt/probe-%d" % i
        if not os.path.isdir(c):
            subprocess.run(["git", "-C", VERIF, "worktree", "add", "--detach", "-f", c, "HEAD"], check=True,
                           stdout=subprocess.DEVNULL, stderr=subprocess.DEVNULL)
            os.makedirs(os.path.join(c, "build"), exist_ok=True)
            for sub in ("obj", "cache", "geninc", "djv", "djv.sig"):
                src = os.path.join(VERIF, "build", sub)
                if os.path.isdir(src):
                    shutil.copytree(src, os.path.join(c, "build", sub))
                elif os.path.exists(src):
                    shutil.copy(src, os.path.join(c, "build", sub))
            shutil.copytree(os.path.join(VERIF, "lean", ".lake"), os.path.join(c, "lean", ".lake"))
        else:
            subprocess.run(["git", "-C", c, "checkout", "-q", "--detach", subprocess.run(
                ["git", "-C", VERIF, "rev-parse", "HEAD"], stdout=subprocess.PIPE, text=True).stdout.strip()])
        CLONES.append(c)

import threading
_free = threading.Semaphore(0)
_pool = []
_plock = threading.Lock()

def one(rid):
    d = os.path.join(VERIF, "seeded", "refactors", rid)
    with _plock:
        clone = _pool.pop()
    try:
        r = subprocess.run([sys.executable, os.path.join(clone, "tools", "mutant_run.py"), os.path.join(d, "patch.diff")] + ALL,
                           stdout=subprocess.PIPE, stderr=subprocess.STDOUT, text=True, cwd=clone)
    finally:
        with _plock:
            _pool.append(clone)
    res = {}
    lines = r.stdout.split("\n")
    for i, l in enumerate(lines):
        m = re.match(r"^(C\d\d) (CAUGHT|MISSED)", l)
        if m:
            detail = ""
            if m.group(2) == "CAUGHT":
                detail = " | ".join(x.strip() for x in lines[i + 1:i + 3])[:300]
            res[m.group(1)] = {"verdict": "red" if m.group(2) == "CAUGHT" else "green", "detail": detail}
    head = subprocess.run(["git", "-C", VERIF, "rev-parse", "--short", "HEAD"], stdout=subprocess.PIPE, text=True).stdout.strip()
    json.dump({"verif_commit": head, "checks": res, "raw_tail": lines[-5:] if not res else []},
              open(os.path.join(d, "result.json"), "w"), indent=1)
    # replay copies written next to the patch by mutant_run are not interesting here
    for f in os.listdir(d):
        if f.startswith("replay_"):
            os.remove(os.path.join(d, f))
    red = [k for k, v in res.items() if v["verdict"] == "red"]
    return rid, red, len(res)

def main():
    ap = argparse.ArgumentParser(); ap.add_argument("--jobs", type=int, default=3); ap.add_argument("--only", default="")
    a = ap.parse_args()
    ids = sorted(os.listdir(os.path.join(VERIF, "seeded", "refactors")))
    if a.only:
        ids = [i for i in ids if i in a.only.split(",")]
    make_clones(a.jobs)
    _pool.extend(CLONES)
    with ThreadPoolExecutor(a.jobs) as ex:
        for rid, red, n in ex.map(one, ids):
            print("%-12s checks=%d red=%s" % (rid, n, ",".join(red) or "-"), flush=True)

if __name__ == "__main__":
    main()
