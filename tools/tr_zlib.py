#!/usr/bin/env python3
"""Regenerate the zlib framing helpers `zlib_uncompress` / `zlib_compress`
(src/djinterop/engine/encode_decode_utils.cpp) from clang's typed JSON AST into
lean/EngineModel/Gen/ZlibGen.lean (design/zlibgen.md).

Every parameter and local becomes a field of one state record (positional names `p<i>` / `l<i>` in
declaration order, so that renaming a local does not change the output); statements become a plain
expression over the state `v` and the shared loop fuel `fuel`, ending in `ok (norm | brk | ret e, v, fuel)`,
`throw <class>` or `ub <kind>`; the meaning of each construct is in lean/EngineModel/Impl/ZlibCxx.lean.

Fragment (anything else raises `Unsupported`; the function then keeps its previous block):
  locals            automatic storage only; vector<byte>, int / int32_t, unsigned / uInt, size_t, pointers
                    to byte (an index into ONE vector or array, tracked statically), `std::byte[N]`, z_stream
  z_stream          assignments to next_in / avail_in / next_out / avail_out (zalloc / zfree / opaque ignored);
                    inflateInit / inflateEnd / deflateInit / deflateEnd; `ret = inflate(&strm, Z_NO_FLUSH)`;
                    `deflate(&strm, <int local>)`
  vectors           empty(), size(), data(), clear(), reserve(n), resize(n), insert(v.end(), a + i, a + j),
                    `&v[i]`, `decode_int32_be(p).first`, `encode_int32_be(x, p)`
  arithmetic        literals, unary minus on literals, integral casts, pointer + n, pointer - pointer,
                    unsigned - unsigned (wrapping), comparisons, `!`, `&&`, `||`, `c ? a : b`
  control           `do … while (c)`, `if` whose then-branch ends in throw / break / return, `if`/`else` of plain
                    assignments, `switch` on an int whose cases run into a throw / return, `break`, `throw
                    std::<class>`, `return <vector local>`
"""
import os, re, sys
sys.path.insert(0, os.path.dirname(os.path.abspath(__file__)))
from common import *
import tr_blobs as T
from tr_blobs import Unsupported, kids, unwrap, qtype, callee_name, int_literal

SRC = "src/djinterop/engine/encode_decode_utils.cpp"
TARGET = os.path.join(LEAN, "EngineModel", "Gen", "ZlibGen.lean")
FUNCS = [dict(cname="zlib_uncompress", lean="uncompress"), dict(cname="zlib_compress", lean="compress")]
EXN = dict(T.EXN)
EXN.update({"std::system_error": ".system_error", "std::length_error": ".length_or_alloc"})
ZFIELDS = {"next_in": "ptr", "next_out": "ptr", "avail_in": "u32", "avail_out": "u32"}
ZIGNORED = ("zalloc", "zfree", "opaque")
LEAN_TY = {"bytes": "Bytes", "int": "Int", "long": "Int", "u32": "Nat", "u64": "Nat", "ptr": "Nat", "arr": "Bytes"}


def kind_of_type(q):
    """C++ type -> value kind of the state field."""
    q0 = re.sub(r"\bconst\b|&", " ", q)
    q0 = re.sub(r"\s+", " ", q0).strip()
    if re.fullmatch(r"std::vector<(enum )?std::byte(, std::allocator<(enum )?std::byte> ?)?>", q0):
        return "bytes", None
    if q0 in ("int", "int32_t"):
        return "int", None
    if q0 in ("long", "ptrdiff_t", "std::ptrdiff_t"):
        return "long", None
    if q0 in ("unsigned int", "uInt"):
        return "u32", None
    if q0 in ("unsigned long", "size_t", "std::size_t", "std::vector::size_type", "uLong"):
        return "u64", None
    if re.fullmatch(r"(enum )?(std::byte|unsigned char|Bytef|Byte) ?\*", q0) or \
            re.fullmatch(r"__gnu_cxx::__alloc_traits<std::allocator<(enum )?std::byte>, (enum )?std::byte>::value_type ?\*", q0):
        return "ptr", None
    m = re.fullmatch(r"(enum )?std::byte ?\[(\d+)\]", q0)
    if m:
        return "arr", int(m.group(2))
    if q0 in ("z_stream", "z_stream_s", "struct z_stream_s"):
        return "zs", None
    if q0 == "bool":
        return "bool", None
    return None, q0


class Fn:
    def __init__(self, fn):
        self.fn = fn
        self.vars = {}          # decl id -> dict(field, kind, cname, n)
        self.order = []
        self.base = {}          # field of a pointer local -> field it points into
        self.in_base = None     # vector next_in points into
        self.out_base = None    # array next_out points into
        self.zs = None          # field of the z_stream local
        self.family = None      # inflate | deflate
        self.flush_vars = set()
        self.nbody = 0
        self.bodies = []        # hoisted loop bodies (name, text)

    # ------------------------------------------------------------ declarations
    def collect(self, decl):
        np = nl = 0
        seen = []

        def walk(n, top):
            nonlocal np, nl
            if not isinstance(n, dict):
                return
            k = n.get("kind")
            if k in ("ParmVarDecl", "VarDecl"):
                if k == "VarDecl" and (n.get("storageClass") or n.get("tls")):
                    raise Unsupported("local with static / thread storage `%s` (its state outlives the call)"
                                      % n.get("name"), n)
                kind, aux = kind_of_type(qtype(n))
                if kind is None:
                    raise Unsupported("local of type " + aux, n)
                if k == "ParmVarDecl":
                    field = "p%d" % np
                    np += 1
                else:
                    field = "l%d" % nl
                    nl += 1
                self.vars[n["id"]] = dict(field=field, kind=kind, cname=n.get("name"), n=aux, parm=(k == "ParmVarDecl"),
                                          byref=("&" in n.get("type", {}).get("qualType", "")))
                self.order.append(n["id"])
                if kind == "zs":
                    if self.zs:
                        raise Unsupported("second z_stream", n)
                    self.zs = field
                if k == "ParmVarDecl":
                    return          # default arguments are the caller's business
            if k in ("LambdaExpr", "CXXTryStmt", "GotoStmt", "LabelStmt", "WhileStmt", "ForStmt", "CXXForRangeStmt",
                     "ContinueStmt"):
                raise Unsupported(k, n)
            for c in n.get("inner", []) or []:
                walk(c, False)
        walk(decl, True)
        if not self.zs:
            raise Unsupported("no z_stream local", decl)

    def var(self, n):
        r = n.get("referencedDecl", {})
        v = self.vars.get(r.get("id"))
        if v is None:
            raise Unsupported("reference to non-local `%s`" % r.get("name"), n)
        return v

    # ------------------------------------------------------------ expressions: (text, kind, base)
    def ex(self, n):
        n = unwrap(n)
        k = n.get("kind")
        if k == "IntegerLiteral":
            kd, _ = kind_of_type(qtype(n))
            return (n["value"], kd or "int", None)
        if k == "UnaryOperator" and n.get("opcode") == "-":
            v = int_literal(n)
            if v is None:
                raise Unsupported("unary minus on a non-literal", n)
            return ("(%d)" % v, "int", None)
        if k == "UnaryOperator" and n.get("opcode") == "!":
            t, kd, _ = self.ex(kids(n)[0])
            if kd != "bool":
                raise Unsupported("! on " + kd, n)
            return ("(!%s)" % t, "bool", None)
        if k == "DeclRefExpr":
            v = self.var(n)
            if v["kind"] == "zs":
                raise Unsupported("z_stream used as a value", n)
            return ("v." + v["field"], v["kind"], self.base.get(v["field"]) if v["kind"] == "ptr" else None)
        if k == "MemberExpr":
            inner = unwrap(kids(n)[0])
            if inner.get("kind") == "DeclRefExpr" and self.var(inner)["kind"] == "zs" and n.get("name") in ZFIELDS:
                f = n["name"]
                b = {"next_in": self.in_base, "next_out": self.out_base}.get(f)
                return ("v.%s.%s" % (self.zs, f), ZFIELDS[f], b)
            raise Unsupported("member `%s`" % n.get("name"), n)
        if k in ("ImplicitCastExpr", "CXXStaticCastExpr", "CStyleCastExpr", "CXXReinterpretCastExpr",
                 "CXXFunctionalCastExpr"):
            ck = n.get("castKind")
            c = kids(n)[0]
            if ck in ("LValueToRValue", "NoOp"):
                return self.ex(c)
            if ck == "BitCast":
                t, kd, b = self.ex(c)
                if kd != "ptr":
                    raise Unsupported("bit cast of " + kd, n)
                return (t, kd, b)
            if ck == "ArrayToPointerDecay":
                cc = unwrap(c)
                if cc.get("kind") == "DeclRefExpr" and self.var(cc)["kind"] == "arr":
                    return ("0", "ptr", self.var(cc)["field"])
                raise Unsupported("array decay", n)
            if ck == "NullToPointer":
                return ("0", "ptr", "null")
            if ck == "IntegralCast":
                to, aux = kind_of_type(qtype(n))
                if to is None:
                    raise Unsupported("cast to " + aux, n)
                lit = int_literal(c)
                if lit is not None and 0 <= lit < (1 << 31):
                    return (str(lit), to, None)
                t, frm, _ = self.ex(c)
                if frm == to or (frm, to) in (("u32", "u64"),):
                    return (t, to, None)
                if frm in ("int", "long") and to == "u32":
                    return ("(ZlibCxx.toU32 %s)" % t, to, None)
                if frm in ("int", "long") and to == "u64":
                    return ("(ZlibCxx.toU64 %s)" % t, to, None)
                if frm == "u64" and to == "int":
                    return ("(ZlibCxx.i32OfNat %s)" % t, to, None)
                if frm == "int" and to == "long":
                    return (t, to, None)
                raise Unsupported("integral cast %s -> %s" % (frm, to), n)
            raise Unsupported("cast " + str(ck), n)
        if k == "BinaryOperator":
            op = n.get("opcode")
            a, b = kids(n)
            if op in ("&&", "||"):
                (ta, ka, _), (tb, kb, _) = self.ex(a), self.ex(b)
                if ka != "bool" or kb != "bool":
                    raise Unsupported(op + " on non-bool", n)
                return ("(%s %s %s)" % (ta, op, tb), "bool", None)
            (ta, ka, ba), (tb, kb, bb) = self.ex(a), self.ex(b)
            if op in ("<", ">", "<=", ">=", "==", "!="):
                dom = lambda kd: "Z" if kd in ("int", "long") else "N"
                if dom(ka) != dom(kb) or (ka == "ptr") != (kb == "ptr"):
                    raise Unsupported("comparison %s %s %s" % (ka, op, kb), n)
                if ka == "ptr" and ba != bb:
                    raise Unsupported("comparison of pointers into different objects", n)
                lop = {"<": "<", ">": ">", "<=": "≤", ">=": "≥", "==": "=", "!=": "≠"}[op]
                return ("decide (%s %s %s)" % (ta, lop, tb), "bool", None)
            if op == "+" and ka == "ptr" and kb in ("u32", "u64"):
                return ("(%s + %s)" % (ta, tb), "ptr", ba)
            if op == "+" and ka == "ptr" and kb == "int" and (int_literal(b) or -1) >= 0:
                return ("(%s + %d)" % (ta, int_literal(b)), "ptr", ba)
            if op == "+" and ka == "ptr" and kb in ("int", "long"):
                return ("(Int.toNat ((%s : Int) + %s))" % (ta, tb), "ptr", ba)
            if op == "-" and ka == "ptr" and kb == "ptr":
                if ba != bb:
                    raise Unsupported("difference of pointers into different objects", n)
                return ("((%s : Int) - (%s : Int))" % (ta, tb), "long", None)
            if op == "-" and ka == "u32" and kb == "u32":
                return ("(ZlibCxx.u32sub %s %s)" % (ta, tb), "u32", None)
            raise Unsupported("operator %s on %s, %s" % (op, ka, kb), n)
        if k == "ConditionalOperator":
            c, a, b = kids(n)
            (tc, kc, _), (ta, ka, ba), (tb, kb, bb) = self.ex(c), self.ex(a), self.ex(b)
            if kc != "bool" or ka != kb or ba != bb:
                raise Unsupported("?: on %s / %s" % (ka, kb), n)
            return ("(if %s then %s else %s)" % (tc, ta, tb), ka, ba)
        if k == "CXXMemberCallExpr":
            name = callee_name(n)
            obj = unwrap(kids(unwrap(kids(n)[0]))[0])
            if obj.get("kind") == "DeclRefExpr" and self.var(obj)["kind"] == "bytes" and len(kids(n)) == 1:
                f = self.var(obj)["field"]
                if name == "empty":
                    return ("v.%s.isEmpty" % f, "bool", None)
                if name == "size":
                    return ("v.%s.length" % f, "u64", None)
                if name == "data":
                    return ("0", "ptr", f)
            raise Unsupported("call of member `%s`" % name, n)
        raise Unsupported("expression " + str(k), n)

    def fallible(self, n):
        """Res-valued initialisers: (text, kind, base) or None."""
        n = unwrap(n)
        k = n.get("kind")
        if k == "ImplicitCastExpr" and n.get("castKind") in ("LValueToRValue",):
            return self.fallible(kids(n)[0])
        if k == "MemberExpr" and n.get("name") == "first":
            call = unwrap(kids(n)[0])
            if call.get("kind") == "CallExpr" and callee_name(call) == "decode_int32_be":
                t, kd, b = self.ex(kids(call)[1])
                if kd != "ptr" or b is None or b == "null":
                    raise Unsupported("decode_int32_be of " + kd, n)
                return ("ZlibCxx.decodeI32BEAt v.%s %s" % (b, t), "int", None)
        if k == "ConditionalOperator":
            c, a, b = kids(n)
            fa, fb = self.fallible(a), self.fallible(b)
            if fa is None and fb is None:
                return None
            tc, kc, _ = self.ex(c)
            ra = fa or (lambda e: (".ok " + e[0], e[1], e[2]))(self.ex(a))
            rb = fb or (lambda e: (".ok " + e[0], e[1], e[2]))(self.ex(b))
            if ra[1] != rb[1]:
                raise Unsupported("?: on %s / %s" % (ra[1], rb[1]), n)
            return ("(if %s then %s else %s)" % (tc, ra[0], rb[0]), ra[1], ra[2])
        if k == "UnaryOperator" and n.get("opcode") == "&":
            c = unwrap(kids(n)[0])
            if c.get("kind") == "CXXOperatorCallExpr" and callee_name(c) == "operator[]":
                obj, idx = kids(c)[1], kids(c)[2]
                obj = unwrap(obj)
                if obj.get("kind") == "DeclRefExpr" and self.var(obj)["kind"] == "bytes":
                    f = self.var(obj)["field"]
                    ti, ki, _ = self.ex(idx)
                    if ki not in ("u64", "u32"):
                        raise Unsupported("index of kind " + ki, n)
                    return ("(if v.%s.length ≤ %s then .ub .oob_index else .ok %s)" % (f, ti, ti), "ptr", f)
            raise Unsupported("address-of", n)
        return None

    # ------------------------------------------------------------ statements
    def set_field(self, field, text):
        return "let v := { v with %s := %s }\n" % (field, text)

    def set_z(self, f, text):
        return "let v := { v with %s := { v.%s with %s := %s } }\n" % (self.zs, self.zs, f, text)

    def assign_var(self, v, rhs, node, k):
        fal = self.fallible(rhs)
        if fal is not None:
            t, kd, b = fal
        else:
            t, kd, b = self.ex(rhs)
        want = v["kind"]
        if kd != want and not (kd == "int" and want == "int"):
            raise Unsupported("assignment of %s to %s" % (kd, want), node)
        if want == "ptr":
            if b in (None, "null"):
                raise Unsupported("pointer of unknown provenance", node)
            if self.base.setdefault(v["field"], b) != b:
                raise Unsupported("pointer re-seated into another object", node)
        if fal is not None:
            return "Res.bind %s fun t =>\n%s%s" % (t, self.set_field(v["field"], "t"), k())
        return self.set_field(v["field"], t) + k()

    def zcall(self, call):
        """(name, is &strm first arg)"""
        name = callee_name(call)
        args = kids(call)[1:]
        if name in ("inflateInit_", "inflateEnd", "inflate", "deflateInit_", "deflateEnd", "deflate"):
            a0 = unwrap(args[0])
            if not (a0.get("kind") == "UnaryOperator" and a0.get("opcode") == "&" and
                    unwrap(kids(a0)[0]).get("kind") == "DeclRefExpr" and self.var(unwrap(kids(a0)[0]))["kind"] == "zs"):
                raise Unsupported("zlib call on something else than the local z_stream", call)
            fam = "inflate" if name.startswith("inflate") else "deflate"
            if self.family not in (None, fam):
                raise Unsupported("inflate and deflate on one stream", call)
            self.family = fam
            return name, args
        return None, args

    def zstep(self, call, retvar, k):
        name, args = self.zcall(call)
        if self.in_base is None or self.out_base is None:
            raise Unsupported("inflate/deflate before next_in / next_out were set", call)
        if name == "inflate":
            if int_literal(args[1]) != 0:
                raise Unsupported("inflate with a flush other than Z_NO_FLUSH", call)
            callt = "ZlibCxx.inflate o v.%s v.%s v.%s" % (self.in_base, self.out_base, self.zs)
        else:
            a1 = unwrap(args[1])
            while a1.get("kind") == "ImplicitCastExpr":
                a1 = unwrap(kids(a1)[0])
            if a1.get("kind") != "DeclRefExpr" or self.var(a1)["kind"] != "int":
                raise Unsupported("deflate flush argument", call)
            self.flush_vars.add(self.var(a1)["field"])
            callt = "ZlibCxx.deflate o v.%s v.%s v.%s v.%s" % (self.in_base, self.out_base, self.zs, self.var(a1)["field"])
        upd = "%s := r.2.1, %s := r.2.2" % (self.zs, self.out_base)
        if retvar:
            upd = "%s := r.1, " % retvar["field"] + upd
        return "Res.bind (%s) fun r =>\nlet v := { v with %s }\n%s" % (callt, upd, k)

    def throw_class(self, s):
        s = unwrap(s)
        if s.get("kind") != "CXXThrowExpr" or not kids(s):
            return None
        q = T.norm_type(qtype(kids(s)[0]))
        if q not in EXN:
            raise Unsupported("throw of " + q, s)
        return EXN[q]

    def flat(self, stmts):
        out = []
        for s in stmts:
            if s.get("kind") == "CompoundStmt":
                out += self.flat(kids(s))
            elif s.get("kind") == "NullStmt":
                pass
            else:
                out.append(s)
        return out

    def transfers(self, stmts):
        stmts = self.flat(stmts)
        if not stmts:
            return False
        s = stmts[-1]
        if s.get("kind") in ("BreakStmt", "ReturnStmt"):
            return True
        if unwrap(s).get("kind") == "CXXThrowExpr":
            return True
        if s.get("kind") == "IfStmt" and len(kids(s)) == 3:
            return self.transfers([kids(s)[1]]) and self.transfers([kids(s)[2]])
        return False

    def pure_block(self, stmts, node):
        t = self.st(stmts, "v", in_switch=False)
        if re.search(r"Res\.bind|doWhile|\.throw|\.ub|\.ok", t):
            raise Unsupported("`if` with effects on both paths", node)
        return "(" + t.replace("\n", " ; ").replace("} ; ", "}; ") + ")"

    def st(self, stmts, k, in_switch=False):
        stmts = self.flat(stmts)
        if not stmts:
            return k
        s, rest = stmts[0], stmts[1:]
        kd = s.get("kind")
        K = lambda: self.st(rest, k, in_switch)
        su = unwrap(s)
        ku = su.get("kind")
        tc = self.throw_class(s)
        if tc:
            return ".throw %s" % tc
        if kd == "BreakStmt":
            if in_switch:
                raise Unsupported("break inside switch", s)
            return ".ok (.brk, v, fuel)"
        if kd == "ReturnStmt":
            e = unwrap(kids(s)[0]) if kids(s) else None
            while e is not None and e.get("kind") in ("CXXConstructExpr", "ImplicitCastExpr") and len(kids(e)) == 1:
                e = unwrap(kids(e)[0])
            if e is None or e.get("kind") != "DeclRefExpr" or self.var(e)["kind"] != "bytes":
                raise Unsupported("return of something else than a vector local", s)
            return ".ok (.ret v.%s, v, fuel)" % self.var(e)["field"]
        if kd == "DeclStmt":
            decls = [d for d in kids(s) if d.get("kind") == "VarDecl"]
            if len(decls) != len(kids(s)):
                raise Unsupported("declaration", s)
            txt = None

            def chain(ds):
                if not ds:
                    return K()
                d = ds[0]
                v = self.vars[d["id"]]
                init = [c for c in kids(d)]
                if v["kind"] in ("zs", "arr") or not init:
                    if v["kind"] == "zs" and init and unwrap(init[0]).get("kind") != "CXXConstructExpr":
                        raise Unsupported("z_stream initialiser", d)
                    return chain(ds[1:])
                return self.assign_var(v, init[0], d, lambda: chain(ds[1:]))
            return chain(decls)
        if ku == "BinaryOperator" and su.get("opcode") == "=":
            lhs, rhs = kids(su)
            lu = unwrap(lhs)
            if lu.get("kind") == "MemberExpr":
                obj = unwrap(kids(lu)[0])
                if obj.get("kind") == "DeclRefExpr" and self.var(obj)["kind"] == "zs":
                    f = lu.get("name")
                    if f in ZIGNORED:
                        return K()
                    if f in ("next_in", "next_out"):
                        t, kk, b = self.ex(rhs)
                        if kk != "ptr" or b is None:
                            raise Unsupported(f + " from " + kk, s)
                        if b != "null":
                            want = "bytes" if f == "next_in" else "arr"
                            owner = [x for x in self.vars.values() if x["field"] == b]
                            if not owner or owner[0]["kind"] != want:
                                raise Unsupported("%s pointing into a %s" % (f, owner[0]["kind"] if owner else "?"), s)
                            attr = "in_base" if f == "next_in" else "out_base"
                            if getattr(self, attr) not in (None, b):
                                raise Unsupported(f + " re-seated into another object", s)
                            setattr(self, attr, b)
                        return self.set_z(f, t) + K()
                    if f in ("avail_in", "avail_out"):
                        t, kk, _ = self.ex(rhs)
                        if kk != "u32":
                            raise Unsupported(f + " from " + kk, s)
                        return self.set_z(f, t) + K()
                raise Unsupported("assignment to member `%s`" % lu.get("name"), s)
            if lu.get("kind") == "DeclRefExpr":
                v = self.var(lu)
                ru = unwrap(rhs)
                if ru.get("kind") == "CallExpr":
                    name, args = self.zcall(ru)
                    if name in ("inflateInit_", "deflateInit_"):
                        if v["kind"] != "int":
                            raise Unsupported("result of " + name, s)
                        fn = "ZlibCxx." + name[:-1]
                        return ("let v := { v with %s := (%s s0 v.%s).1, %s := (%s s0 v.%s).2 }\n"
                                % (v["field"], fn, self.zs, self.zs, fn, self.zs)) + K()
                    if name in ("inflate", "deflate"):
                        if v["kind"] != "int":
                            raise Unsupported("result of " + name, s)
                        return self.zstep(ru, v, K())
                    raise Unsupported("call of `%s`" % callee_name(ru), s)
                if v["kind"] in ("zs", "arr", "bytes"):
                    raise Unsupported("assignment to a %s" % v["kind"], s)
                if v["field"] in self.flush_vars or True:
                    self.note_assign(v, rhs)
                return self.assign_var(v, rhs, s, K)
            raise Unsupported("assignment target", s)
        if ku == "CompoundAssignOperator" and su.get("opcode") == "+=":
            lhs, rhs = kids(su)
            lu = unwrap(lhs)
            if lu.get("kind") == "DeclRefExpr" and self.var(lu)["kind"] == "ptr":
                v = self.var(lu)
                t, kk, _ = self.ex(rhs)
                b = self.base.get(v["field"])
                if kk not in ("u32", "u64") or b is None:
                    raise Unsupported("pointer += " + kk, s)
                return "Res.bind (ZlibCxx.ptrAdvance v.%s.length v.%s %s) fun t =>\n%s%s" % (
                    b, v["field"], t, self.set_field(v["field"], "t"), K())
            raise Unsupported("compound assignment", s)
        if ku == "CallExpr":
            name, args = self.zcall(su)
            if name in ("inflateEnd", "deflateEnd"):
                return self.set_field(self.zs, "ZlibCxx.%s v.%s" % (name, self.zs)) + K()
            if name == "deflate":
                return self.zstep(su, None, K())
            if callee_name(su) == "encode_int32_be":
                tx, kx, _ = self.ex(args[0])
                tp, kp, bp = self.ex(args[1])
                if kx != "int" or kp != "ptr" or bp in (None, "null"):
                    raise Unsupported("encode_int32_be arguments", s)
                owner = [x for x in self.vars.values() if x["field"] == bp][0]
                if owner["kind"] != "bytes" or owner["byref"]:
                    raise Unsupported("encode_int32_be into a non-local vector", s)
                return "Res.bind (ZlibCxx.encodeI32BEAt %s v.%s %s) fun t =>\n%s%s" % (
                    tx, bp, tp, self.set_field(bp, "t"), K())
            raise Unsupported("call of `%s`" % callee_name(su), s)
        if ku == "CXXMemberCallExpr":
            name = callee_name(su)
            obj = unwrap(kids(unwrap(kids(su)[0]))[0])
            args = kids(su)[1:]
            if obj.get("kind") != "DeclRefExpr" or self.var(obj)["kind"] != "bytes" or self.var(obj)["byref"]:
                raise Unsupported("member call `%s` on something else than a local vector" % name, s)
            f = self.var(obj)["field"]
            if name == "clear" and not args:
                return self.set_field(f, "[]") + K()
            if name in ("reserve", "resize") and len(args) == 1:
                t, kk, _ = self.ex(args[0])
                if kk != "u64":
                    raise Unsupported(name + " of " + kk, s)
                body = K() if name == "reserve" else self.set_field(f, "ZlibCxx.resize v.%s %s" % (f, t)) + K()
                return "if ZlibCxx.tooLong %s then .throw .length_or_alloc else\n%s" % (t, body)
            if name == "insert" and len(args) == 3:
                pos = args[0]
                while pos.get("kind") in T.WRAPPERS + ("ImplicitCastExpr", "CXXConstructExpr") and len(kids(pos)) == 1:
                    pos = kids(pos)[0]
                ok = (pos.get("kind") == "CXXMemberCallExpr" and callee_name(pos) == "end" and
                      unwrap(kids(unwrap(kids(pos)[0]))[0]).get("referencedDecl", {}).get("id") ==
                      obj["referencedDecl"]["id"])
                if not ok:
                    raise Unsupported("insert at a position other than end()", s)
                (ta, ka, ba), (tb, kb, bb) = self.ex(args[1]), self.ex(args[2])
                if ka != "ptr" or kb != "ptr" or ba != bb or ba in (None, "null"):
                    raise Unsupported("insert range", s)
                return "Res.bind (ZlibCxx.insertRange v.%s v.%s %s %s) fun t =>\n%s%s" % (
                    f, ba, ta, tb, self.set_field(f, "t"), K())
            raise Unsupported("member call `%s`" % name, s)
        if kd == "IfStmt":
            parts = kids(s)
            if len(parts) not in (2, 3) or s.get("hasInit") or s.get("hasVar"):
                raise Unsupported("if with initialiser", s)
            c, kc, _ = self.ex(parts[0])
            if kc != "bool":
                raise Unsupported("condition of kind " + kc, s)
            th = [parts[1]]
            el = [parts[2]] if len(parts) == 3 else []
            if self.transfers(th):
                return "if %s then (\n%s) else\n%s" % (c, self.st(th, "<unreachable>", in_switch),
                                                     self.st(el + rest, k, in_switch))
            if self.transfers(el):
                raise Unsupported("`if` whose else-branch leaves and then-branch does not", s)
            return "let v := if %s then %s else %s\n%s" % (c, self.pure_block(th, s), self.pure_block(el, s), K())
        if kd == "SwitchStmt":
            parts = kids(s)
            x, kx, _ = self.ex(parts[0])
            if kx != "int" or parts[1].get("kind") != "CompoundStmt":
                raise Unsupported("switch on " + kx, s)
            items = []

            def flatten(n):
                if n.get("kind") == "CaseStmt":
                    cs = kids(n)
                    v = int_literal(cs[0])
                    if v is None:
                        raise Unsupported("case label", n)
                    items.append(("case", v))
                    flatten(cs[1])
                elif n.get("kind") == "DefaultStmt":
                    raise Unsupported("default label", n)
                else:
                    items.append(("stmt", n))
            for c in kids(parts[1]):
                flatten(c)
            if not items or items[0][0] != "case":
                raise Unsupported("statement before the first case", s)
            out = ""
            for i, it in enumerate(items):
                if it[0] != "case":
                    continue
                chain = [n for (t, n) in items[i + 1:] if t == "stmt"]
                if not self.transfers(chain):
                    raise Unsupported("switch case that falls out of the switch", s)
                lit = str(it[1]) if it[1] >= 0 else "(%d)" % it[1]
                out += "if %s = %s then (\n%s) else\n" % (x, lit, self.st(chain, "<unreachable>", True))
            return out + K()
        if kd == "DoStmt":
            body, cond = kids(s)
            self.nbody += 1
            idx = self.nbody
            name = "%s_body%d" % (self.fn["lean"], idx)
            btxt = self.st([body], ".ok (.norm, v, fuel)", False)
            c, kc, _ = self.ex(cond)
            if kc != "bool":
                raise Unsupported("loop condition of kind " + kc, s)
            self.bodies.append((idx, name, btxt, c))
            return ("ZlibCxx.andThen (ZlibCxx.doWhile (%s o s0) %s_cond%d fuel v fuel) fun v fuel =>\n%s"
                    % (name, self.fn["lean"], idx, K()))
        raise Unsupported("statement " + str(ku or kd), s)

    def note_assign(self, v, rhs):
        v.setdefault("assigned", []).append(int_literal(rhs))

    # ------------------------------------------------------------ the function
    def function(self, decl):
        self.collect(decl)
        body = [c for c in kids(decl) if c.get("kind") == "CompoundStmt"][0]
        if not self.transfers(kids(body)):
            raise Unsupported("function body not ending in return / throw", decl)
        main = self.st(kids(body), "<unreachable>")
        if "<unreachable>" in main or any("<unreachable>" in b[2] for b in self.bodies):
            raise Unsupported("control flow the translator lost track of", decl)
        fam = self.family
        if fam is None:
            raise Unsupported("no inflate / deflate call", decl)
        for f in self.flush_vars:
            v = [x for x in self.vars.values() if x["field"] == f][0]
            if not v.get("assigned") or any(a not in (0, 4) for a in v["assigned"]):
                raise Unsupported("flush value other than Z_NO_FLUSH / Z_FINISH", decl)
        L = self.fn["lean"]
        S = L.capitalize() + "Vars"
        orac = "Oracle" if fam == "inflate" else "DOracle"
        zty = "ZlibCxx.IStream σ" if fam == "inflate" else "ZlibCxx.DStream σ"
        out = ["/-- the parameters and locals of `%s`, in declaration order -/" % self.fn["cname"],
               "structure %s (σ : Type) where" % S]
        inits = []
        params = []
        for i in self.order:
            v = self.vars[i]
            ty = zty if v["kind"] == "zs" else LEAN_TY.get(v["kind"])
            if ty is None:
                raise Unsupported("local of kind " + v["kind"], decl)
            out.append("  %s : %s" % (v["field"], ty))
            if v["parm"]:
                params.append(v)
                inits.append("%s := %s" % (v["field"], v["field"]))
            elif v["kind"] == "zs":
                inits.append("%s := {}" % v["field"])
            elif v["kind"] == "arr":
                inits.append("%s := List.replicate %d 0" % (v["field"], v["n"]))
            elif v["kind"] == "bytes":
                inits.append("%s := []" % v["field"])
            else:
                inits.append("%s := 0" % v["field"])
        out.append("")
        sig = "{σ : Type} (o : %s σ) (s0 : σ)" % orac
        for idx, name, btxt, c in sorted(self.bodies, reverse=True):
            out.append("def %s_cond%d {σ : Type} (v : %s σ) : Bool := %s" % (L, idx, S, c))
            out.append("def %s %s (v : %s σ) (fuel : Nat) : ZlibCxx.Out (%s σ) Bytes :=" % (name, sig, S, S))
            out += ["  " + l for l in btxt.split("\n")]
            out.append("")
        out.append("def %s_fn %s (v : %s σ) (fuel : Nat) : ZlibCxx.Out (%s σ) Bytes :=" % (L, sig, S, S))
        out += ["  " + l for l in main.split("\n")]
        out.append("")
        ps = " ".join("(%s : Bytes)" % v["field"] for v in params)
        out.append("def %s_init {σ : Type} %s : %s σ :=" % (L, ps, S))
        out.append("  { " + ", ".join(inits) + " }")
        out.append("")
        args = " ".join(v["field"] for v in params)
        if fam == "inflate":
            out.append("def %s %s (fuel : Nat) %s : Res Bytes :=" % (L, sig, ps))
            out.append("  (ZlibCxx.result (%s_fn o s0 (%s_init %s) fuel)).bind fun r => .ok r.1" % (L, L, args))
        else:
            out.append("def %s %s (fuel : Nat) %s : Res (Bytes × List DCall) :=" % (L, sig, ps))
            out.append("  (ZlibCxx.result (%s_fn o s0 (%s_init %s) fuel)).bind fun r => .ok (r.1, r.2.%s.log.reverse)"
                       % (L, L, args, self.zs))
        names = ", ".join("%s=%s" % (self.vars[i]["field"], self.vars[i]["cname"]) for i in self.order)
        return ["-- " + names] + out


def translate_one(fn):
    src = os.path.join(REPO, SRC)
    docs = T.clang_ast(src, fn["cname"])
    defs = []
    for d in docs:
        T.annotate(d, SRC)
        if d.get("kind") == "FunctionDecl" and d.get("name") == fn["cname"] and \
                any(c.get("kind") == "CompoundStmt" for c in kids(d)):
            defs.append(d)
    if len(defs) != 1:
        raise Unsupported("definition of %s not found (%d candidates)" % (fn["cname"], len(defs)), where=SRC)
    return Fn(fn).function(defs[0])


HEADER = """/- GENERATED by tools/tr_zlib.py from src/djinterop/engine/encode_decode_utils.cpp — do not edit.
   One block per translated C++ function; a function outside the translator's fragment keeps
   its previous block (see the translator's status line in the evidence). -/
import EngineModel.Impl.ZlibCxx
set_option linter.unusedVariables false

namespace EngineModel.Gen.Zlib
open EngineModel EngineModel.Impl EngineModel.Impl.Zlib
"""
FOOTER = "end EngineModel.Gen.Zlib\n"


def old_blocks():
    try:
        txt = open(TARGET).read()
    except OSError:
        return {}
    return {m.group(1): m.group(2) for m in re.finditer(r"-- BEGIN (\w+)[^\n]*\n(.*?)-- END \1\n", txt, re.S)}


def main():
    old = old_blocks()
    parts, problems, kept = [HEADER], [], []
    for fn in FUNCS:
        try:
            block = "\n".join(translate_one(fn)) + "\n"
        except Unsupported as e:
            block, err = None, e
        except (KeyError, IndexError, TypeError, ValueError) as e:
            block, err = None, Unsupported("ast-shape %r" % (e,), where=SRC)
        if block is None:
            problems.append("unsupported-node: %s [%s]" % (err, fn["lean"]))
            block = old.get(fn["lean"])
            if block is None:
                continue
            kept.append(fn["lean"])
        parts.append("-- BEGIN %s  (%s)\n%s-- END %s\n" % (fn["lean"], SRC, block, fn["lean"]))
    parts.append(FOOTER)
    txt = "\n".join(parts)
    prev = open(TARGET).read() if os.path.exists(TARGET) else None
    if prev != txt:
        open(TARGET, "w").write(txt)
    status = "translator: regenerated (%s)" % ("identical" if prev == txt else "changed")
    if problems:
        status += "; " + "; ".join(problems) + ("; kept previous translation of: " + ", ".join(kept) if kept else "")
    print(status)
    return 2 if problems else 0


if __name__ == "__main__":
    sys.exit(main())
