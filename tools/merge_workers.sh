#!/bin/sh
# merge the worker branches given as arguments into main; generated files are regenerated afterwards
cd /verif || exit 1
git checkout -- seeded 2>/dev/null
if [ -n "$(git status --porcelain --untracked-files=no)" ]; then echo "STOP: working tree not clean"; exit 1; fi
for b in "$@"; do
  echo "=== merging $b"
  git merge --no-edit "$b" 2>&1 | grep -E "CONFLICT|Merge made|Already|error|fatal"
  for f in $(git diff --name-only --diff-filter=U); do
    case $f in
      MANIFEST.json|known_findings.json|evidence/*|lean/Properties/locks/*) git checkout --theirs -- "$f" 2>/dev/null || git checkout --ours -- "$f"; git add "$f";;
      *) echo "UNRESOLVED $f";;
    esac
  done
  if [ -n "$(git diff --name-only --diff-filter=U)" ]; then echo "STOP: unresolved conflicts"; exit 1; fi
  git commit --no-edit -q 2>/dev/null
done
python3 tools/fix_main_lean.py > /dev/null
python3 tools/gen_findings.py
python3 tools/gen_manifest.py
for d in Proofs Properties; do for f in lean/$d/*.lean; do m=$d.$(basename $f .lean); grep -q "^import $m\$" lean/$d.lean || echo "NOTE not imported in $d.lean: $m"; done; done
git branch --no-merged main
