"""Proof audit: lake build, forbidden-token grep, #print axioms, statement lock."""
import hashlib, json, os, re, subprocess, sys, time
from common import *

ALLOWED_AXIOMS = {"propext", "Classical.choice", "Quot.sound"}
FORBIDDEN = [r"\bsorry\b", r"\badmit\b", r"^\s*axiom\s", r"\bnative_decide\b", r"\bbv_decide\b",
             r"\bimplemented_by\b", r"\bunsafe\s", r"maxHeartbeats\s+0\b", r"\bextern\b"]
LOCKDIR = os.path.join(LEAN, "Properties", "locks")


def strip_comments(src: str) -> str:
    # block comments (nested) and line comments
    out = []
    i, depth, n = 0, 0, len(src)
    while i < n:
        if src.startswith("/-", i):
            depth += 1
            i += 2
        elif depth and src.startswith("-/", i):
            depth -= 1
            i += 2
        elif depth:
            if src[i] == "\n":
                out.append("\n")
            i += 1
        elif src.startswith("--", i):
            while i < n and src[i] != "\n":
                i += 1
        else:
            out.append(src[i])
            i += 1
    return "".join(out)


def grep_forbidden():
    hits = []
    for root, _, files in os.walk(LEAN):
        if ".lake" in root:
            continue
        for f in files:
            if not f.endswith(".lean"):
                continue
            p = os.path.join(root, f)
            txt = strip_comments(open(p).read())
            # string literals may legitimately mention words; drop them
            txt = re.sub(r'"(?:[^"\\]|\\.)*"', '""', txt)
            for ln, line in enumerate(txt.split("\n"), 1):
                for pat in FORBIDDEN:
                    if re.search(pat, line):
                        hits.append("%s:%d: %s" % (os.path.relpath(p, LEAN), ln, line.strip()[:120]))
    return hits


def lake_build(targets=("EngineModel", "Proofs", "Properties", "modeldrv")):
    t0 = time.time()
    with locked("lake"):
        r = run(["lake", "build"] + list(targets), cwd=LEAN)
    errs = [l for l in (r.stdout + r.stderr).split("\n") if "error" in l.lower()]
    return {"ok": r.returncode == 0, "wall_s": time.time() - t0, "errors": errs[:40],
            "log": (r.stdout + r.stderr)[-6000:]}


def axioms_and_statements(theorems, imports=("Properties",)):
    """Returns {name: {"axioms": [...], "stmt_sha": str, "stmt": str}}; missing names -> error entry."""
    src = "".join("import %s\n" % i for i in imports)
    src += "set_option pp.universes false\nset_option pp.fullNames true\n"
    for t in theorems:
        src += '#eval IO.println "@@BEGIN %s"\n#check @%s\n#eval IO.println "@@AXIOMS"\n#print axioms %s\n#eval IO.println "@@END"\n' % (t, t, t)
    os.makedirs(os.path.join(BUILD, "audit"), exist_ok=True)
    path = os.path.join(BUILD, "audit", "audit_%d.lean" % os.getpid())
    open(path, "w").write(src)
    r = run(["lake", "env", "lean", path], cwd=LEAN)
    out = r.stdout + "\n" + r.stderr
    res = {}
    for t in theorems:
        m = re.search(r"@@BEGIN %s\n(.*?)@@AXIOMS\n(.*?)@@END" % re.escape(t), out, re.S)
        if not m:
            res[t] = {"error": "not found / does not elaborate", "axioms": None}
            continue
        stmt = " ".join(m.group(1).split())
        axtxt = m.group(2)
        if "unknown" in stmt.lower() and "error" in stmt.lower():
            res[t] = {"error": stmt[:300], "axioms": None}
            continue
        if "does not depend on any axioms" in axtxt:
            ax = []
        else:
            mm = re.search(r"depends on axioms: \[(.*?)\]", axtxt, re.S)
            ax = [a.strip() for a in mm.group(1).split(",")] if mm else None
        res[t] = {"stmt": stmt, "stmt_sha": hashlib.sha1(stmt.encode()).hexdigest()[:16], "axioms": ax}
    # error lines for names that failed to resolve
    for t in theorems:
        if re.search(r"error:.*%s" % re.escape(t.split(".")[-1]), out) and res[t].get("axioms") is None:
            res[t]["error"] = "elaboration error"
    try:
        os.remove(path)
    except OSError:
        pass
    return res


def lock_path(pid):
    return os.path.join(LOCKDIR, pid + ".json")


def load_lock(pid=None):
    """Statement locks are kept one file per property (lean/Properties/locks/<id>.json)
    so that independent work on different properties never touches the same file."""
    lock = {}
    try:
        names = sorted(os.listdir(LOCKDIR))
    except OSError:
        names = []
    for n in names:
        if n.endswith(".json") and (pid is None or n == pid + ".json"):
            try:
                lock.update(json.load(open(os.path.join(LOCKDIR, n))))
            except (OSError, ValueError):
                pass
    return lock


def audit(theorems, gen_dependent=(), imports=("Properties",)):
    """Full proof audit for a property.  `gen_dependent` theorems may change
    statement hash only through regenerated definitions; they are still
    lock-checked (their statements mention the Gen names, not their bodies)."""
    rep = {"forbidden": grep_forbidden(), "theorems": {}, "ok": True, "failed": []}
    if rep["forbidden"]:
        rep["ok"] = False
        rep["failed"].append("forbidden-token")
    info = axioms_and_statements(theorems, imports=imports)
    lock = load_lock()
    for t in theorems:
        e = dict(info[t])
        if e.get("axioms") is None:
            e["status"] = "not-proved"
            rep["ok"] = False
            rep["failed"].append(t)
        else:
            bad = [a for a in e["axioms"] if a not in ALLOWED_AXIOMS]
            if bad:
                e["status"] = "bad-axioms"
                rep["ok"] = False
                rep["failed"].append(t)
            elif t in lock and lock[t] != e["stmt_sha"]:
                e["status"] = "statement-changed"
                rep["ok"] = False
                rep["failed"].append(t)
            elif t not in lock:
                e["status"] = "unlocked"
                rep["ok"] = False
                rep["failed"].append(t)
            else:
                e["status"] = "ok"
        rep["theorems"][t] = e
    return rep


def write_lock(pid, theorems, imports=("Properties",)):
    """(Re)write lean/Properties/locks/<pid>.json from the statements as they elaborate now.
    Statements are printed with only the property's own modules imported, so the
    hash does not depend on what other property files import (e.g. Mathlib notation)."""
    info = axioms_and_statements(theorems, imports=imports)
    lock = {}
    for t in theorems:
        if info[t].get("axioms") is None:
            raise SystemExit("cannot lock %s: %s" % (t, info[t].get("error")))
        lock[t] = info[t]["stmt_sha"]
    os.makedirs(LOCKDIR, exist_ok=True)
    json.dump(dict(sorted(lock.items())), open(lock_path(pid), "w"), indent=1)
    return lock


def leanchecker(modules):
    res = {}
    for m in modules:
        r = run(["lake", "env", "leanchecker", m], cwd=LEAN)
        res[m] = r.returncode == 0
    return res


if __name__ == "__main__":
    # python3 tools/audit.py lock <Cxx>   -> rewrite the statement lock of one property
    # python3 tools/audit.py show <Cxx>   -> print statements + axioms
    import importlib
    sys.path.insert(0, os.path.dirname(os.path.abspath(__file__)))
    cmd, pid = sys.argv[1], sys.argv[2]
    prop = importlib.import_module("props." + pid)
    imps = tuple(getattr(prop, "LEAN_MODULES", ["Properties"]))
    if cmd == "lock":
        lb = lake_build()
        if not lb["ok"]:
            raise SystemExit("lake build failed:\n" + lb["log"])
        l = write_lock(pid, prop.THEOREMS, imports=imps)
        print("locked %d statements for %s" % (len(l), pid))
    else:
        for t, e in axioms_and_statements(prop.THEOREMS, imports=imps).items():
            print(t, e.get("axioms"), "\n   ", e.get("stmt", e.get("error")))
