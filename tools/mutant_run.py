#!/usr/bin/env python3
"""mutant_run.py <patch.diff> <Cxx> [<Cxx> ...] [--tier quick|thorough] [--seed N]

Run registered checks against a scratch copy of /repo with a (seeded, breaking)
patch applied — without touching /repo itself (other work may be using it).
  1. `git -C /repo worktree add --detach /tmp/mutwt.<pid> HEAD`, apply the patch;
  2. run tools/check.py for each property with VERIF_REPO=<scratch>,
     VERIF_BUILD=/tmp/mutbuild.<pid> (own object cache) from THIS verif tree
     (translator output under lean/EngineModel/Gen is restored afterwards);
  3. print one line per property: CAUGHT (exit 1 + VIOLATION line) or MISSED;
  4. remove the scratch worktree and build directory.
The final confirmation against /repo itself (git apply; run; git checkout) is
done separately when nothing else is using /repo.
"""
import argparse, os, shutil, subprocess, sys
sys.path.insert(0, os.path.dirname(os.path.abspath(__file__)))
from common import VERIF


def sh(cmd, **kw):
    return subprocess.run(cmd, shell=True, stdout=subprocess.PIPE, stderr=subprocess.STDOUT, text=True, **kw)


def main():
    ap = argparse.ArgumentParser()
    ap.add_argument("patch")
    ap.add_argument("pids", nargs="+")
    ap.add_argument("--tier", default="quick")
    ap.add_argument("--seed", default="1")
    ap.add_argument("--keep", action="store_true")
    ap.add_argument("--reuse", metavar="DIR", help="keep ONE scratch worktree (DIR/wt, reset to /repo's HEAD before and "
                    "after the patch) and ONE build directory (DIR/build) across calls: only the translation units a "
                    "patch touches are recompiled.  Remove with: git -C /repo worktree remove --force DIR/wt; rm -rf DIR")
    a = ap.parse_args()
    if a.reuse:
        a.keep = True
        base = os.path.abspath(a.reuse)
        wt, bd = os.path.join(base, "wt"), os.path.join(base, "build")
        if not os.path.isdir(wt):
            os.makedirs(base, exist_ok=True)
            r = sh("git -C /repo worktree add --detach %s HEAD" % wt)
            if r.returncode != 0:
                raise SystemExit(r.stdout)
        head = sh("git -C /repo rev-parse HEAD").stdout.strip()
        r = sh("git -C %s checkout -q -- . && git -C %s clean -fdq && git -C %s checkout -q --detach %s" % (wt, wt, wt, head))
        if r.returncode != 0:
            raise SystemExit(r.stdout)
    else:
        wt = "/tmp/mutwt.%d" % os.getpid()
        bd = "/tmp/mutbuild.%d" % os.getpid()
        r = sh("git -C /repo worktree add --detach %s HEAD" % wt)
        if r.returncode != 0:
            raise SystemExit(r.stdout)
    results = {}
    try:
        r = sh("git -C %s apply %s" % (wt, os.path.abspath(a.patch)))
        if r.returncode != 0:
            raise SystemExit("patch does not apply to /repo HEAD:\n" + r.stdout)
        env = dict(os.environ, VERIF_REPO=wt, VERIF_BUILD=bd, VERIF_SEED=a.seed)
        for pid in a.pids:
            r = subprocess.run([sys.executable, os.path.join(VERIF, "tools", "check.py"), pid, "--tier", a.tier],
                               stdout=subprocess.PIPE, stderr=subprocess.STDOUT, text=True, env=env, cwd=VERIF)
            viol = [l for l in r.stdout.split("\n") if l.startswith("VIOLATION")]
            caught = r.returncode != 0 and bool(viol)
            results[pid] = caught
            print("%s %s rc=%d" % (pid, "CAUGHT" if caught else "MISSED", r.returncode))
            for l in viol[:3]:
                print("   " + l)
                # keep a copy of the replay next to the patch
                if "replay=" in l:
                    rp = l.split("replay=")[1].split()[0]
                    if os.path.exists(rp):
                        dst = os.path.join(os.path.dirname(os.path.abspath(a.patch)), "replay_%s.txt" % pid)
                        shutil.copy(rp, dst)
            print("   " + r.stdout.strip().split("\n")[-1])
    finally:
        # restore translator outputs and evidence that the mutant run rewrote
        sh("git -C %s checkout -- lean/EngineModel/Gen evidence" % VERIF)
        if a.reuse:
            sh("git -C %s checkout -q -- . && git -C %s clean -fdq" % (wt, wt))
        if not a.keep:
            sh("git -C /repo worktree remove --force %s" % wt)
            shutil.rmtree(bd, ignore_errors=True)
    return 0 if all(results.values()) else 2


if __name__ == "__main__":
    sys.exit(main())
