#!/usr/bin/env python3
"""reconfirm_seeds.py [--jobs N] [--only Cxx-n,...] [--all]
Re-run the registered check(s) of every kept seeded change against a scratch copy
of /repo with the patch applied (tools/mutant_run.py) and record the verdict of
THIS /verif commit in seeded/<id>/meta.json under "recheck".  Default: the
independently seeded changes (ids Cxx-n); --all also the workers' self-validation ones."""
import argparse, json, os, re, subprocess, sys
from concurrent.futures import ThreadPoolExecutor
sys.path.insert(0, os.path.dirname(os.path.abspath(__file__)))
from common import VERIF


def one(sid):
    d = os.path.join(VERIF, "seeded", sid)
    patch = os.path.join(d, "patch.diff")
    if not os.path.exists(patch):
        return sid, None, "no patch.diff"
    try:
        meta = json.load(open(os.path.join(d, "meta.json")))
    except (OSError, ValueError):
        meta = {}
    pid = meta.get("breaks_property") or meta.get("property") or sid.split("-")[0]
    m = re.match(r"C\d\d", str(pid))
    if not m:
        return sid, None, "no property"
    pid = m.group(0)
    r = subprocess.run([sys.executable, os.path.join(VERIF, "tools", "mutant_run.py"), patch, pid],
                       stdout=subprocess.PIPE, stderr=subprocess.STDOUT, text=True, cwd=VERIF)
    verdict = "CAUGHT" if re.search(r"^%s CAUGHT" % pid, r.stdout, re.M) else \
              ("MISSED" if re.search(r"^%s MISSED" % pid, r.stdout, re.M) else "ERROR")
    head = subprocess.run(["git", "-C", VERIF, "rev-parse", "--short", "HEAD"], stdout=subprocess.PIPE, text=True).stdout.strip()
    rhead = subprocess.run(["git", "-C", "/repo", "rev-parse", "--short", "HEAD"], stdout=subprocess.PIPE, text=True).stdout.strip()
    meta["recheck"] = {"verif_commit": head, "repo_head": rhead, "checks": {pid: verdict},
                       "last_lines": r.stdout.strip().split("\n")[-3:]}
    json.dump(meta, open(os.path.join(d, "meta.json"), "w"), indent=1)
    return sid, verdict, r.stdout.strip().split("\n")[-1][:160]


def main():
    ap = argparse.ArgumentParser()
    ap.add_argument("--jobs", type=int, default=3)
    ap.add_argument("--only", default="")
    ap.add_argument("--all", action="store_true")
    a = ap.parse_args()
    ids = sorted(os.listdir(os.path.join(VERIF, "seeded")))
    ids = [i for i in ids if os.path.isdir(os.path.join(VERIF, "seeded", i))]
    if a.only:
        ids = [i for i in ids if i in a.only.split(",")]
    elif not a.all:
        ids = [i for i in ids if re.match(r"^C\d\d-\d+$", i)]
    with ThreadPoolExecutor(a.jobs) as ex:
        for sid, v, last in ex.map(one, ids):
            print("%-12s %-7s %s" % (sid, v, last), flush=True)


if __name__ == "__main__":
    main()
