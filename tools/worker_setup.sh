#!/bin/sh
# worker_setup.sh <name>: a git worktree of /verif at /root/wt/<name> on branch w6-<name>, with a copy of the
# build cache and of lean/.lake so that the worker's first build is incremental
set -e
n=$1
d=/root/wt/$n
mkdir -p /root/wt
git -C /verif worktree add -q -b w6-$n $d HEAD
mkdir -p $d/build
for s in obj cache geninc djv djv.sig; do
  [ -e /verif/build/$s ] && cp -a /verif/build/$s $d/build/ || true
done
cp -a /verif/lean/.lake $d/lean/.lake
echo $d
