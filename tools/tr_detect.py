#!/usr/bin/env python3
"""Translator: detect_schema (src/djinterop/engine/schema/schema.cpp) and the
`schema_version{a, b, c}` constants of every schema creator  ->  Lean
(Gen/DetectGen.lean): the decision tree over (major, minor, patch, variant
marker) and the version stamp per schema.  Fails closed on anything outside
the fragment (nested switch / if-throw / return / conditional return)."""
import json, os, re, subprocess, sys
sys.path.insert(0, os.path.dirname(os.path.abspath(__file__)))
from common import *
from tr_trackutils import Unsupported


def clang_ast(src, filt):
    cmd = ["clang++-14", "-std=gnu++17", "-fsyntax-only", "-I" + GENINC, "-I" + REPO + "/include",
           "-I" + REPO + "/src", "-I" + REPO + "/ext/sqlite_modern_cpp", "-I" + REPO + "/ext/date",
           "-Xclang", "-ast-dump=json", "-Xclang", "-ast-dump-filter=" + filt, src]
    r = subprocess.run(cmd, stdout=subprocess.PIPE, stderr=subprocess.PIPE, text=True)
    txt = r.stdout
    dec = json.JSONDecoder()
    i, docs = 0, []
    while i < len(txt):
        while i < len(txt) and txt[i].isspace():
            i += 1
        if i >= len(txt):
            break
        o, j = dec.raw_decode(txt, i)
        docs.append(o)
        i = j
    return docs


def strip(n):
    while n["kind"] in ("ImplicitCastExpr", "ParenExpr", "ConstantExpr", "ExprWithCleanups",
                        "MaterializeTemporaryExpr", "CXXBindTemporaryExpr", "CXXConstructExpr",
                        "CXXFunctionalCastExpr") and len(n.get("inner", [])) == 1:
        n = n["inner"][0]
    return n


def subtree_has(n, pred):
    if pred(n):
        return True
    return any(subtree_has(c, pred) for c in n.get("inner", []))


FIELDS = {"maj": "maj", "min": "min", "pat": "pat"}


def field_of(n):
    n = strip(n)
    if n["kind"] == "MemberExpr" and n.get("name") in FIELDS:
        return FIELDS[n["name"]]
    raise Unsupported("switch/if operand " + n["kind"])


def int_of(n):
    n = strip(n)
    if n["kind"] == "IntegerLiteral":
        return int(n["value"])
    if n["kind"] == "UnaryOperator" and n.get("opcode") == "-":
        return -int_of(n["inner"][0])
    raise Unsupported("integer " + n["kind"])


class Tr:
    def __init__(self):
        self.marker_vars = set()

    def throw(self, n):
        ok = subtree_has(n, lambda x: "unsupported_database" in json.dumps(x.get("type", {})))
        if not ok:
            raise Unsupported("throw of something other than unsupported_database")
        return ".unsupported"

    def ret(self, n):
        e = strip(n["inner"][0])
        if e["kind"] == "DeclRefExpr":
            return ".schema .%s" % e["referencedDecl"]["name"]
        if e["kind"] == "ConditionalOperator":
            c, a, b = [strip(x) for x in e["inner"]]
            if c["kind"] != "DeclRefExpr" or c["referencedDecl"]["name"] not in self.marker_vars:
                raise Unsupported("conditional on unknown variable")
            return "(if numeric then .schema .%s else .schema .%s)" % (
                a["referencedDecl"]["name"], b["referencedDecl"]["name"])
        raise Unsupported("return " + e["kind"])

    def seq(self, stmts):
        """Lean term for executing `stmts` in order; None if control falls off the end."""
        if not stmts:
            return None
        s, rest = stmts[0], stmts[1:]
        k = s["kind"]
        if k == "NullStmt":
            return self.seq(rest)
        if k == "CompoundStmt":
            return self.seq(s.get("inner", []) + rest)
        if k in ("CaseStmt", "DefaultStmt"):  # label reached by fallthrough
            body = s["inner"][-1:]
            return self.seq(body + rest)
        if k == "ReturnStmt":
            return self.ret(s)
        if k in ("CXXThrowExpr", "ExprWithCleanups"):
            if subtree_has(s, lambda x: x["kind"] == "CXXThrowExpr"):
                return self.throw(s)
            raise Unsupported("expression statement")
        if k == "IfStmt":
            if len(s["inner"]) != 2:
                raise Unsupported("if/else")
            cond = strip(s["inner"][0])
            if cond["kind"] != "BinaryOperator" or cond["opcode"] not in ("!=", "=="):
                raise Unsupported("if condition")
            f = field_of(cond["inner"][0])
            v = int_of(cond["inner"][1])
            then = self.seq([s["inner"][1]])
            els = self.seq(rest)
            if then is None or els is None:
                raise Unsupported("if falls through")
            op = "≠" if cond["opcode"] == "!=" else "="
            return "(if %s %s %d then %s else %s)" % (f, op, v, then, els)
        if k == "DeclStmt":
            for v in s["inner"]:
                if v["kind"] != "VarDecl":
                    raise Unsupported("decl")
                strs = []

                def collect(x):
                    if x["kind"] == "StringLiteral":
                        strs.append(x.get("value", ""))
                    for c in x.get("inner", []):
                        collect(c)
                collect(v)
                called = subtree_has(v, lambda x: x["kind"] == "DeclRefExpr" and
                                     x.get("referencedDecl", {}).get("name") == "get_column_type")
                if called and '"Track"' in strs and '"isExternalTrack"' in strs and '"NUMERIC"' in strs:
                    self.marker_vars.add(v["name"])
                else:
                    raise Unsupported("unknown local " + v["name"])
            return self.seq(rest)
        if k == "SwitchStmt":
            f = field_of(s["inner"][0])
            body = s["inner"][-1]
            items = body.get("inner", []) if body["kind"] == "CompoundStmt" else [body]
            cases, default = [], None
            for i, it in enumerate(items):
                if it["kind"] == "CaseStmt":
                    v = int_of(it["inner"][0])
                    t = self.seq(items[i:])
                    if t is None:
                        t = self.seq(rest)
                    cases.append((v, t))
                elif it["kind"] == "DefaultStmt":
                    default = self.seq(items[i:])
            if default is None:
                default = self.seq(rest)
            if default is None or any(t is None for _, t in cases):
                raise Unsupported("switch falls through the function")
            out = default
            for v, t in reversed(cases):
                out = "(if %s = %d then %s else %s)" % (f, v, t, out)
            return out
        raise Unsupported("stmt " + k)


def translate():
    docs = clang_ast(REPO + "/src/djinterop/engine/schema/schema.cpp", "detect_schema")
    fd = [d for d in docs if d.get("kind") == "FunctionDecl" and
          any(c.get("kind") == "CompoundStmt" for c in d.get("inner", []))]
    if len(fd) != 1:
        raise Unsupported("detect_schema definition not found")
    body = [c for c in fd[0]["inner"] if c["kind"] == "CompoundStmt"][0]
    stmts = body["inner"]
    # everything before the version switch must be the Information lookup; we
    # translate from the first switch on `version.maj`
    idx = [i for i, s in enumerate(stmts) if s["kind"] == "SwitchStmt"]
    if len(idx) != 1:
        raise Unsupported("expected exactly one top-level switch")
    tr = Tr()
    tree = tr.seq(stmts[idx[0]:])
    if tree is None:
        raise Unsupported("function falls off the end")
    # the statements before the switch (Information lookup, 64-bit read, fits_int guard, narrowing)
    import tr_detect_full as F
    pre_defs, pre_term, version = F.translate_detect_prefix(stmts[:idx[0]])
    layout = F.translate_layout(clang_ast)
    header = F.translate_header()
    # version stamps of the creators
    stamps = {}
    sdir = REPO + "/src/djinterop/engine/schema"
    for f in sorted(os.listdir(sdir)):
        m = re.match(r"(schema_\d+_\d+_\d+(?:_[a-z]+)?)\.hpp$", f)
        if not m:
            continue
        txt = open(os.path.join(sdir, f)).read()
        mm = re.search(r"semantic_version\s+schema_version\s*\{\s*(-?\d+)\s*,\s*(-?\d+)\s*,\s*(-?\d+)\s*\}", txt)
        if not mm:
            raise Unsupported("no schema_version in " + f)
        stamps[m.group(1)] = tuple(int(x) for x in mm.groups())
    out = ["/- GENERATED by tools/tr_detect.py from src/djinterop/engine/schema/schema.cpp and schema_*.hpp — do not edit. -/",
           "import EngineModel.Pure.Detect", "", "namespace EngineModel.Gen.Detect",
           "open EngineModel.Pure.Detect", "",
           "def detectGen (maj min pat : Int) (numeric : Bool) : Detected :=", "  " + tree, "",
           "def stampGen : Schema → Int × Int × Int"]
    for name, (a, b, c) in sorted(stamps.items()):
        out.append("  | .%s => (%d, %d, %d)" % (name, a, b, c))
    out += ["", "/-! ### detect_schema, whole function (stored 64-bit numbers, Information lookup) -/"] + pre_defs
    out += ["def detectPrefixGen (w : World) : Except LoadErr Unit := do " + pre_term, "",
            "def detectSchemaGen (w : World) : Except LoadErr Schema := do",
            "  detectPrefixGen w",
            "  (detectGen %s %s %s w.numeric).toExcept" % tuple(version), "",
            "/-! ### layout dispatch (engine_library_dir_utils.cpp, v1/engine_storage.cpp, engine.cpp) -/"]
    out += layout
    out += ["/-! ### the public version table (include/djinterop/engine/engine_schema.hpp) -/"] + header
    out += ["end EngineModel.Gen.Detect", ""]
    return "\n".join(out)


def main():
    target = os.path.join(LEAN, "EngineModel", "Gen", "DetectGen.lean")
    try:
        txt = translate()
    except Unsupported as e:
        print("translator: unsupported-node: %s" % e)
        return 2
    old = open(target).read() if os.path.exists(target) else None
    if old != txt:
        open(target, "w").write(txt)
        print("translator: regenerated (changed)")
    else:
        print("translator: regenerated (identical)")
    return 0


if __name__ == "__main__":
    sys.exit(main())
