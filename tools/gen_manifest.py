#!/usr/bin/env python3
"""Regenerates /verif/MANIFEST.json from the `MANIFEST` dict of every plugin in
tools/props/ (text, note, technique, ref) and the NOT_APPLICABLE table below, so
that the manifest is always valid and in step with the checks that exist.
A plugin without a MANIFEST dict (or with REGISTERED = False) is not claimed."""
import importlib, json, os, sys
sys.path.insert(0, os.path.dirname(os.path.abspath(__file__)))
from common import *

ALL = ["C%02d" % i for i in range(1, 21)]

# Reasons for properties that are not claimed (kept current by hand).
NOT_APPLICABLE = {}
PENDING_REASON = ("not claimed at this commit: the Lean model, theorems and correspondence tie for this property are "
                  "not yet registered (see DESIGN.md section 6 for the intended check)")


def plugin(pid):
    try:
        m = importlib.import_module("props." + pid)
    except ImportError:
        return None
    if not hasattr(m, "MANIFEST") or getattr(m, "REGISTERED", True) is False:
        return None
    return m


def main():
    checks = []
    for pid in ALL:
        m = plugin(pid)
        if m is None:
            continue
        c = m.MANIFEST
        checks.append({
            "property_id": pid,
            "quick_cmd": "python3 tools/check.py %s --tier quick" % pid,
            "thorough_cmd": "python3 tools/check.py %s --tier thorough" % pid,
            "evidence_file": "/verif/evidence/%s.json" % pid,
            "replay_cmd_template": "python3 tools/check.py %s --replay {path}" % pid,
            "engine": "lean-model+djv-harness",
            "level_claimed": {"category": c.get("category", "proof"), "text": c["text"],
                              "design_ref": "DESIGN.md " + c["ref"]},
            "level_note": c["note"],
            "technique": c["technique"],
        })
    claimed = [c["property_id"] for c in checks]
    m = {
        "version": 1,
        "setup_cmd": "python3 tools/setup.py",
        "hooks": {
            "guard": "DJINTEROP_VERIF",
            "enable": "no in-source hooks: instrumentation is link-time (-Wl,--wrap=sqlite3_step,sqlite3_open_v2,"
                      "sqlite3_prepare_v2,inflate,deflate) applied by tools/build.py to objects compiled from /repo's "
                      "working tree with -DDJINTEROP_VERIF (the define guards nothing in the source)",
            "baseline_off_cmd": "cmake --build /repo/_build && ctest --test-dir /repo/_build -j8 --timeout 900",
            "source_commits": [],
            "add_only": True,
        },
        "engines": [{
            "name": "lean-model+djv-harness", "path": "/verif/lean + /verif/harness + /verif/tools",
            "serves_properties": claimed,
            "kind_free_text": "Lean 4 models and theorems (lake project), compiled Lean driver, C++ sanitizer harness "
                              "linked from the library's own objects, Python orchestration (tools/check.py)",
        }],
        "checks": checks,
        "notes": "See DESIGN.md. known_findings.json lists fix: commits made to /repo (fixed entries suppress nothing).",
        "not_applicable": [{"property_id": p, "reason": NOT_APPLICABLE.get(p, PENDING_REASON)}
                           for p in ALL if p not in claimed],
    }
    json.dump(m, open(os.path.join(VERIF, "MANIFEST.json"), "w"), indent=1)
    print("MANIFEST.json: %d checks, %d not_applicable" % (len(checks), len(m["not_applicable"])))


if __name__ == "__main__":
    main()
