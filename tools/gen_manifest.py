#!/usr/bin/env python3
"""Regenerates /verif/MANIFEST.json from the table below (kept in one place so
that the manifest is always valid and in step with the checks that exist)."""
import json, os, sys
sys.path.insert(0, os.path.dirname(os.path.abspath(__file__)))
from common import *

ALL = ["C%02d" % i for i in range(1, 21)]

CHECKS = {
    "C13": dict(
        text="Theorem C13_exact: the decision tree regenerated from schema.cpp on every run equals the public version "
             "table on all integer triples and both marker values (unbounded Int), with C13_no_misidentification, "
             "C13_unsupported_iff, C13_reload, C13_layout, C13_create_or_load; tied to the code by the clang-AST "
             "translator and by loading real directories with planted version triples (both layouts, four presence "
             "combinations) against both the generated tree and the Spec table.",
        note="Trusted: Lean kernel; translator tools/tr_detect.py; SQLite's reading of the Information row and of PRAGMA "
             "table_info (correspondence only). (3,0,0) is in the Spec table (see DESIGN.md C13).",
        technique="Lean 4 theorem over a model regenerated from source (translator) + differential loading of planted directories",
        ref="6/C13"),
    "C19": dict(
        text="Theorems over the naturals for all sample counts and rates: minimal cover with less than one entry of "
             "slack (C19_hi_cover, C19_hi_minimal), overview size 1024 spanning the count rounded down to the "
             "quantisation number (C19_ov_size, C19_ov_rounded), emptiness iff no audio or rate < 210 (C19_empty_iff), "
             "monotonicity (C19_mono); C19_gen_hi / C19_gen_ov re-prove on every run that the Lean code regenerated "
             "from track_utils.hpp computes this model without undefined behaviour for n <= 2^62, 0 <= rate <= 2^31.",
        note="Trusted: Lean kernel; translator tools/tr_trackutils.py (clang typed AST -> Lean, every implicit conversion "
             "explicit); doubles only through FloatOps (tie compares C++ vs hardware Float bit for bit).",
        technique="Lean 4 theorems (omega / Nat.div lemmas) over a model regenerated from source + bit-exact differential run",
        ref="6/C19"),
    "C20": dict(
        text="Theorems over exact rationals about the Model of normalize_beatgrid (the same generic Lean code the driver "
             "runs over hardware floats): first index -4, last marker in [n, n + beat), first/last tempo kept, interior "
             "markers unchanged, result strictly increasing, idempotent, exact rejection set — for all strictly "
             "increasing grids of any length. The C++ is tied bit-for-bit to the Float instance on generated grids, "
             "applied twice, and a direct oracle states the property on the implementation's own answers.",
        note="Trusted: Lean kernel (+ Mathlib's rationals / Int.ceil); floating-point rounding itself is not bounded by a "
             "theorem (tie tolerance 1e-9 relative); int32 index arithmetic is a checked operation of the Model.",
        technique="Lean 4 theorems over Q about a generic executable model + bit-exact differential run over Float",
        ref="6/C20"),
}

HOLD = set()  # registered once Properties/C20.lean is in the tree

PENDING_REASON = "check under construction in this round (model and tie not yet registered); see DESIGN.md section 6"


def main():
    checks = []
    for pid in ALL:
        if pid not in CHECKS or pid in HOLD:
            continue
        c = CHECKS[pid]
        checks.append({
            "property_id": pid,
            "quick_cmd": "python3 tools/check.py %s --tier quick" % pid,
            "thorough_cmd": "python3 tools/check.py %s --tier thorough" % pid,
            "evidence_file": "/verif/evidence/%s.json" % pid,
            "replay_cmd_template": "python3 tools/check.py %s --replay {path}" % pid,
            "engine": "lean-model+djv-harness",
            "level_claimed": {"category": "proof", "text": c["text"], "design_ref": "DESIGN.md " + c["ref"]},
            "level_note": c["note"],
            "technique": c["technique"],
        })
    m = {
        "version": 1,
        "setup_cmd": "python3 tools/setup.py",
        "hooks": {
            "guard": "DJINTEROP_VERIF",
            "enable": "no in-source hooks: instrumentation is link-time (-Wl,--wrap=sqlite3_step,sqlite3_open_v2,"
                      "sqlite3_prepare_v2,inflate,deflate) applied by tools/build.py to objects compiled from /repo's "
                      "working tree with -DDJINTEROP_VERIF (the define guards nothing in the source)",
            "baseline_off_cmd": "cmake --build /repo/_build && ctest --test-dir /repo/_build -j8 --timeout 900",
            "source_commits": [],
            "add_only": True,
        },
        "engines": [{
            "name": "lean-model+djv-harness", "path": "/verif/lean + /verif/harness + /verif/tools",
            "serves_properties": [c["property_id"] for c in checks],
            "kind_free_text": "Lean 4 models and theorems (lake project), compiled Lean driver, C++ sanitizer harness "
                              "linked from the library's own objects, Python orchestration (tools/check.py)",
        }],
        "checks": checks,
        "notes": "See DESIGN.md. known_findings.json lists fix: commits made to /repo (fixed entries suppress nothing).",
        "not_applicable": [{"property_id": p, "reason": PENDING_REASON} for p in ALL if p not in CHECKS or p in HOLD],
    }
    json.dump(m, open(os.path.join(VERIF, "MANIFEST.json"), "w"), indent=1)
    print("MANIFEST.json: %d checks, %d not_applicable" % (len(checks), len(m["not_applicable"])))


if __name__ == "__main__":
    main()
