"""Run line-protocol scripts on the C++ harness (real library objects, sanitizers)
and on the Lean driver (Model / Spec), in parallel shards."""
import os, re, subprocess, sys, time
from concurrent.futures import ThreadPoolExecutor
from common import *

ASAN_ENV = {
    "ASAN_OPTIONS": "allocator_may_return_null=1:detect_leaks=0:abort_on_error=0:exitcode=66:"
                    "max_allocation_size_mb=4096:malloc_context_size=3",
    "UBSAN_OPTIONS": "print_stacktrace=0:halt_on_error=1:exitcode=66",
    # the real library runs in a time zone that is not UTC, has a half-hour offset and half-hour daylight saving: every
    # stored and returned time is UTC by the property's text, so nothing may depend on this (a localtime()/mktime()
    # slipped into a conversion would); the Model has no notion of a time zone
    "TZ": "Australia/Lord_Howe",
}


def classify_crash(stderr: str, rc: int) -> str:
    s = stderr
    if "heap-buffer-overflow" in s or "stack-buffer-overflow" in s or "global-buffer-overflow" in s \
            or "container-overflow" in s:
        if re.search(r"\bWRITE of size", s):
            return "ub oob_write"
        return "ub oob_read"
    if "signed integer overflow" in s:
        return "ub signed_overflow"
    if "outside the range of representable values" in s:
        return "ub float_cast_range"
    if "division by zero" in s:
        return "ub div_zero"
    if "Assertion" in s and ("__n < this->size()" in s or "operator[]" in s):
        return "ub oob_index"
    if "_M_is_engaged()" in s or "optional" in s and "Assertion" in s:
        return "ub empty_optional"
    if "null pointer" in s or "SEGV" in s:
        return "ub null_deref"
    if "stack-overflow" in s:
        return "ub nontermination"
    if "index" in s and "out of bounds" in s:
        return "ub oob_index"
    if "heap-use-after-free" in s:
        return "ub use_after_free"
    if "terminate called" in s:
        return "ub terminate"
    if "runtime error" in s:
        return "ub other"
    if rc == 97:
        return "ub nontermination"
    return "ub crash_rc%d" % rc


# `reopen` (harness) also observes EVERY per-field getter of every track through the handles it holds before closing
# and through the handles it re-obtains after loading; a difference is appended to its answer as
# " GETTERS-DIFFER <text>".  The suffix is taken off here (the model's `reopen` answers without it) and kept for the
# C10 plugin, which owns the oracle "what a getter said before closing it says after reopening".
GETTER_DIFFS = []          # (script prefix up to the reopen line, text)
GETTER_MARK = " GETTERS-DIFFER "


def _take_getter_diffs(lines, outputs):
    for i, o in enumerate(outputs):
        if GETTER_MARK in o:
            head, text = o.split(GETTER_MARK, 1)
            outputs[i] = head
            GETTER_DIFFS.append((list(lines[:i + 1]), text))
    return outputs


def run_harness_script(lines, watchdog=10, env_extra=None, cwd=None, stateless=False, timeout=None):
    outputs, reports = _run_harness_script(lines, watchdog, env_extra, cwd, stateless, timeout)
    return _take_getter_diffs(lines, outputs), reports


def _run_harness_script(lines, watchdog=10, env_extra=None, cwd=None, stateless=False, timeout=None):
    """Run one script.  Returns (outputs, crash_reports).  A crashed line yields
    'ub <kind>'; for stateless scripts execution resumes after it, otherwise
    the remaining lines get 'skipped-after-crash'."""
    outputs = []
    reports = []
    i = 0
    env = dict(os.environ)
    env.update(ASAN_ENV)
    env["DJV_WATCHDOG"] = str(watchdog)
    if env_extra:
        env.update(env_extra)
    while i < len(lines):
        chunk = lines[i:]
        try:
            p = subprocess.run([HARNESS_BIN], input="\n".join(chunk) + "\n", stdout=subprocess.PIPE,
                               stderr=subprocess.PIPE, text=True, env=env, cwd=cwd,
                               timeout=timeout or (watchdog * 4 + 60 + len(chunk) * 0.5))
            out = p.stdout.split("\n")
            if out and out[-1] == "":
                out.pop()
            rc = p.returncode
            err = p.stderr
        except subprocess.TimeoutExpired as e:
            out = (e.stdout or b"").decode(errors="replace").split("\n") if isinstance(e.stdout, bytes) else (e.stdout or "").split("\n")
            if out and out[-1] == "":
                out.pop()
            rc = 97
            err = "harness timeout"
        if rc == 0 and len(out) == len(chunk):
            outputs.extend(out)
            break
        # crashed (or watchdog) at line len(out) (0-based within chunk)
        complete = out
        if rc == 97 and complete and complete[-1] == "ub nontermination":
            # watchdog printed its own line for the hanging command
            outputs.extend(complete)
            k = len(complete)
        else:
            k = len(complete)
            outputs.extend(complete)
            if k < len(chunk):
                outputs.append(classify_crash(err, rc))
                k += 1
        reports.append({"line": chunk[min(k, len(chunk)) - 1] if chunk else "", "rc": rc,
                        "stderr": err[-3000:]})
        i += k
        if not stateless:
            outputs.extend(["skipped-after-crash"] * (len(lines) - len(outputs)))
            break
    outputs = outputs[:len(lines)]
    while len(outputs) < len(lines):
        outputs.append("missing-output")
    return outputs, reports


def run_harness(scripts, watchdog=10, stateless=False, env_extra=None, jobs=None):
    """scripts: list of lists of lines -> list of (outputs, reports)"""
    jobs = jobs or NCPU
    with ThreadPoolExecutor(jobs) as ex:
        return list(ex.map(lambda s: run_harness_script(s, watchdog, env_extra, None, stateless), scripts))


def strip_alias(l):
    """`+alias` is a harness-only marker (two handle objects per script variable, see harness/djv_state.hpp): the
    model's handles are stateless, so the model runs the same line without it."""
    return l.replace(" +alias", "").replace(" +sameref", "")


def run_model_script(lines, timeout=600):
    lines = [strip_alias(l) for l in lines]
    p = subprocess.run([MODELDRV], input="\n".join(lines) + "\n", stdout=subprocess.PIPE,
                       stderr=subprocess.PIPE, text=True, timeout=timeout)
    out = p.stdout.split("\n")
    if out and out[-1] == "":
        out.pop()
    if p.returncode != 0 or len(out) != len(lines):
        out = out[:len(lines)]
        while len(out) < len(lines):
            out.append("model-crash rc=%d %s" % (p.returncode, p.stderr[-200:].replace("\n", " ")))
    return out


def run_model(scripts, jobs=None):
    jobs = jobs or NCPU
    with ThreadPoolExecutor(jobs) as ex:
        return list(ex.map(run_model_script, scripts))


def shard(lines, n):
    """split a flat list of stateless lines into ~n scripts"""
    n = max(1, min(n, len(lines)))
    size = (len(lines) + n - 1) // n
    return [lines[i:i + size] for i in range(0, len(lines), size)]
