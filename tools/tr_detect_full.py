#!/usr/bin/env python3
"""Second half of the C13 translator (used by tr_detect.py):

 * the statements of `detect_schema` BEFORE the version switch: the
   `table_count != 1` test, the read of the three stored 64-bit numbers, the
   `fits_int` guard (lambda, translated as an expression), the narrowing
   `static_cast<int>` into `semantic_version`;
 * the layout dispatch: `detect_is_database2`, `load_legacy_sqlite_database`,
   `load_database2_sqlite_database` (engine_library_dir_utils.cpp),
   `load_existing` (v1/engine_storage.cpp) and `load_database` (engine.cpp),
   as functions over a `World` (which paths exist, what the opened m.db
   holds) in `Except LoadErr`;
 * the public version table of include/djinterop/engine/engine_schema.hpp
   (enumerators, `supported_schemas`, `to_string`).

What is *recognised* rather than translated (and therefore trusted, see
design/C13.md): `path_exists(<directory + literal>)` becomes the World's
presence bit for that literal; `db << "SELECT COUNT(*) ... name =
'Information'" >> v` binds `v` to `World.tableCount`; `db << "SELECT
schemaVersionMajor, ... " >> std::tie(a, b, c)` binds the k-th tied variable to
the k-th selected column; `get_column_type(db, "Track", "isExternalTrack") ==
"NUMERIC"` is the marker; opening / attaching SQLite files and constructing
library objects have no effect on the outcome.  Everything else must be inside
the fragment or the translator fails closed.
"""
import json, os, re, sys
sys.path.insert(0, os.path.dirname(os.path.abspath(__file__)))
from common import *
from tr_trackutils import Unsupported

ERR = ("database_not_found", "unsupported_database", "database_inconsistency")
PRESENCE = {"": "w.dirExists", "/m.db": "w.legacy", "/p.db": "w.pdb", "/Database2/m.db": "w.db2"}
COLS = {"schemaVersionMajor": "w.vMajor", "schemaVersionMinor": "w.vMinor", "schemaVersionPatch": "w.vPatch"}


def strip(n):
    while n["kind"] in ("ImplicitCastExpr", "ParenExpr", "ConstantExpr", "ExprWithCleanups",
                        "MaterializeTemporaryExpr", "CXXBindTemporaryExpr", "CXXFunctionalCastExpr",
                        "CXXConstructExpr") and len(n.get("inner", [])) == 1:
        n = n["inner"][0]
    return n


def has(n, pred):
    return pred(n) or any(has(c, pred) for c in n.get("inner", []))


def strings(n, acc=None):
    acc = [] if acc is None else acc
    if n["kind"] == "StringLiteral":
        acc.append(json.loads(n["value"]) if n.get("value", "").startswith('"') else n.get("value", ""))
    for c in n.get("inner", []):
        strings(c, acc)
    return acc


def callee(n):
    """Name of the function a CallExpr / CXXOperatorCallExpr calls."""
    if n["kind"] not in ("CallExpr", "CXXOperatorCallExpr", "CXXMemberCallExpr"):
        return None
    f = strip(n["inner"][0])
    if f["kind"] == "DeclRefExpr":
        return f["referencedDecl"]["name"]
    if f["kind"] == "MemberExpr":
        return f.get("name")
    return None


def thrown(n):
    t = [e for e in ERR if has(n, lambda x: x["kind"] in ("CXXTemporaryObjectExpr", "CXXConstructExpr",
                                                         "CXXFunctionalCastExpr", "CXXBindTemporaryExpr")
                               and x.get("type", {}).get("qualType", "").endswith(e))]
    if len(t) != 1:
        raise Unsupported("throw of an unrecognised exception")
    return t[0]


def qual(n):
    return n.get("type", {}).get("qualType", "")


class Walker:
    """Symbolic execution of one loader-like function into a Lean `Except LoadErr _` term."""

    def __init__(self, helpers, calls):
        self.helpers = helpers      # name -> path suffix function (make_*_path)
        self.calls = calls          # name -> Lean function name of an already translated callee
        self.paths, self.bools, self.ints, self.schemas, self.lams = {}, {}, {}, {}, {}
        self.marker_vars = set()
        self.out_param = None       # Lean term assigned to the engine_schema out-parameter
        self.version = None

    # ---------------- expressions
    def path(self, n):
        n = strip(n)
        if n["kind"] == "DeclRefExpr":
            nm = n["referencedDecl"]["name"]
            if n["referencedDecl"]["kind"] == "ParmVarDecl" and nm == "directory":
                return ""
            if nm in self.paths:
                return self.paths[nm]
        if n["kind"] == "CXXOperatorCallExpr" and callee(n) == "operator+":
            a, b = n["inner"][1], strip(n["inner"][2])
            if b["kind"] == "StringLiteral":
                return self.path(a) + json.loads(b["value"])
        if n["kind"] == "CallExpr" and callee(n) in self.helpers:
            return self.path(n["inner"][1]) + self.helpers[callee(n)]
        raise Unsupported("path expression " + n["kind"])

    def int_(self, n):
        n = strip(n)
        k = n["kind"]
        if k == "IntegerLiteral":
            return "(%s : Int)" % n["value"]
        if k == "UnaryOperator" and n["opcode"] == "-":
            return "(-%s)" % self.int_(n["inner"][0])
        if k == "BinaryOperator" and n["opcode"] in ("+", "-"):
            return "(%s %s %s)" % (self.int_(n["inner"][0]), n["opcode"], self.int_(n["inner"][1]))
        if k == "DeclRefExpr" and n["referencedDecl"]["name"] in self.ints:
            return self.ints[n["referencedDecl"]["name"]]
        if k == "CXXStaticCastExpr" and qual(n) == "int":
            return "(narrowI32 %s)" % self.int_(n["inner"][0])
        raise Unsupported("integer expression " + k)

    def bool_(self, n):
        n = strip(n)
        k = n["kind"]
        if k == "UnaryOperator" and n["opcode"] == "!":
            return "(!%s)" % self.bool_(n["inner"][0])
        if k == "BinaryOperator" and n["opcode"] in ("&&", "||"):
            return "(%s %s %s)" % (self.bool_(n["inner"][0]), n["opcode"], self.bool_(n["inner"][1]))
        if k == "BinaryOperator" and n["opcode"] in ("<", "<=", ">", ">=", "==", "!="):
            a, b = strip(n["inner"][0]), strip(n["inner"][1])
            if "engine_schema" in qual(a):
                op = {"<": "<", "<=": "≤", ">": ">", ">=": "≥", "==": "=", "!=": "≠"}[n["opcode"]]
                return "decide (%s %s %s)" % (self.schema_ord(a), op, self.schema_ord(b))
            op = {"<": "<", "<=": "≤", ">": ">", ">=": "≥", "==": "=", "!=": "≠"}[n["opcode"]]
            return "decide (%s %s %s)" % (self.int_(a), op, self.int_(b))
        if k == "DeclRefExpr" and n["referencedDecl"]["name"] in self.bools:
            return self.bools[n["referencedDecl"]["name"]]
        if k == "CallExpr" and callee(n) == "path_exists":
            sfx = self.path(n["inner"][1])
            if sfx not in PRESENCE:
                raise Unsupported("path_exists of an unknown path %r" % sfx)
            return PRESENCE[sfx]
        if k == "CXXOperatorCallExpr" and callee(n) == "operator()":
            f = strip(n["inner"][1])
            if f["kind"] == "DeclRefExpr" and f["referencedDecl"]["name"] in self.lams:
                return "(%s %s)" % (self.lams[f["referencedDecl"]["name"]], self.int_(n["inner"][2]))
        raise Unsupported("boolean expression " + k)

    def schema_ord(self, n):
        n = strip(n)
        if n["kind"] == "DeclRefExpr":
            d = n["referencedDecl"]
            if d["kind"] == "EnumConstantDecl":
                return "(Schema.%s).ord" % d["name"]
            if d["name"] in self.schemas:
                return "(%s).ord" % self.schemas[d["name"]]
        raise Unsupported("schema expression " + n["kind"])

    def schema_val(self, n):
        n = strip(n)
        if n["kind"] == "DeclRefExpr" and n["referencedDecl"]["name"] in self.schemas:
            return self.schemas[n["referencedDecl"]["name"]]
        if n["kind"] == "MemberExpr" and n.get("name") == "schema":
            # storage->schema
            o = strip(n["inner"][0])
            if o["kind"] == "CXXOperatorCallExpr":
                v = strip(o["inner"][1])
                if v["kind"] == "DeclRefExpr" and v["referencedDecl"]["name"] in self.schemas:
                    return self.schemas[v["referencedDecl"]["name"]]
        raise Unsupported("schema value " + n["kind"])

    # ---------------- lambdas
    def lambda_(self, name, lam, out):
        rec = [c for c in lam["inner"] if c["kind"] == "CXXRecordDecl"][0]
        meth = [c for c in rec["inner"] if c["kind"] == "CXXMethodDecl" and c["name"] == "operator()"][0]
        ps = [c for c in meth["inner"] if c["kind"] == "ParmVarDecl"]
        body = [c for c in meth["inner"] if c["kind"] == "CompoundStmt"][0]
        if "bool" not in qual(meth).split("(")[0]:
            return False       # e.g. make_err_message: only feeds exception texts
        if len(ps) != 1 or len(body.get("inner", [])) != 1 or body["inner"][0]["kind"] != "ReturnStmt":
            raise Unsupported("lambda " + name)
        sub = Walker(self.helpers, self.calls)
        sub.ints[ps[0]["name"]] = ps[0]["name"]
        out.append("def %s (%s : Int) : Bool := %s" % (name, ps[0]["name"], sub.bool_(body["inner"][0]["inner"][0])))
        self.lams[name] = name
        return True

    # ---------------- statements
    def seq(self, stmts, defs):
        if not stmts:
            return None
        s, rest = stmts[0], stmts[1:]
        k = s["kind"]
        if k == "NullStmt":
            return self.seq(rest, defs)
        if k == "CompoundStmt":
            return self.seq(s.get("inner", []) + rest, defs)
        if k == "ReturnStmt":
            return self.ret(s)
        if k in ("CXXThrowExpr", "ExprWithCleanups") and has(s, lambda x: x["kind"] == "CXXThrowExpr"):
            return "throw .%s" % thrown(s)
        if k == "IfStmt":
            if len(s["inner"]) != 2:
                raise Unsupported("if/else")
            c = self.bool_(s["inner"][0])
            saved = (dict(self.paths), dict(self.bools), dict(self.ints), dict(self.schemas), self.out_param)
            then = self.seq([s["inner"][1]], defs)
            self.paths, self.bools, self.ints, self.schemas, self.out_param = saved
            els = self.seq(rest, defs)
            if els is None:
                raise Unsupported("control falls off the end")
            if then is None:
                raise Unsupported("if-branch falls through")
            return "if %s then (do %s) else (do %s)" % (c, then, els)
        if k == "DeclStmt":
            pre = []
            for v in s["inner"]:
                if v["kind"] != "VarDecl":
                    raise Unsupported("declaration")
                pre += self.decl(v, defs)
            r = self.seq(rest, defs)
            return None if r is None else "".join(pre) + r
        if k == "BinaryOperator" and s["opcode"] == "=":
            lhs = strip(s["inner"][0])
            if lhs["kind"] == "DeclRefExpr" and lhs["referencedDecl"]["kind"] == "ParmVarDecl" and \
                    "engine_schema" in qual(lhs):
                self.out_param = self.schema_val(s["inner"][1])
                return self.seq(rest, defs)
            raise Unsupported("assignment")
        if k in ("ExprWithCleanups", "CXXOperatorCallExpr"):
            return self.exprstmt(s, rest, defs)
        raise Unsupported("statement " + k)

    def ret(self, s):
        if not s.get("inner"):
            return "pure ()"
        e = strip(s["inner"][0])
        q = qual(s["inner"][0])
        if q == "bool" or (e["kind"] == "DeclRefExpr" and e["referencedDecl"]["name"] in self.bools):
            return "pure %s" % self.bool_(e)
        if "engine_schema" in q and "database" not in q:
            if e["kind"] == "ConditionalOperator":
                c, a, b = [strip(x) for x in e["inner"]]
                if c["kind"] == "DeclRefExpr" and c["referencedDecl"]["name"] in self.marker_vars:
                    return "pure (if w.numeric then Schema.%s else Schema.%s)" % (
                        a["referencedDecl"]["name"], b["referencedDecl"]["name"])
            if e["kind"] == "DeclRefExpr" and e["referencedDecl"]["kind"] == "EnumConstantDecl":
                return "pure Schema.%s" % e["referencedDecl"]["name"]
            return "pure %s" % self.schema_val(e)
        if q.endswith("sqlite::database"):
            return "pure ()"
        if q.endswith("djinterop::database"):
            if self.out_param is None:
                raise Unsupported("database returned before the schema out-parameter is set")
            return "pure %s" % self.out_param
        if q.endswith("engine_storage"):
            # engine_storage{directory, schema, db}: the 2nd argument is the schema
            args = [strip(a) for a in e.get("inner", [])] if e["kind"] in ("CXXTemporaryObjectExpr", "InitListExpr",
                                                                           "CXXConstructExpr") else []
            for a in args:
                if a["kind"] == "DeclRefExpr" and a["referencedDecl"]["name"] in self.schemas:
                    return "pure %s" % self.schemas[a["referencedDecl"]["name"]]
        raise Unsupported("return of " + q)

    def decl(self, v, defs):
        nm, q = v["name"], qual(v)
        init = [c for c in v.get("inner", []) if "kind" in c and c["kind"] not in ("FullComment",)]
        if not init:
            if q in ("int32_t", "int64_t", "int"):
                return []            # bound by the next `db << … >> var`
            raise Unsupported("uninitialised " + nm)
        e = strip(init[0])
        if e["kind"] == "LambdaExpr":
            self.lambda_(nm, e, defs)
            return []
        if "basic_string" in q or q == "std::string":
            try:
                self.paths[nm] = self.path(init[0])
            except Unsupported:
                self.paths.pop(nm, None)   # SQL text etc.: only used inside recognised statements
            return []
        if q in ("bool", "const bool"):
            if has(init[0], lambda x: x["kind"] == "DeclRefExpr" and
                   x.get("referencedDecl", {}).get("name") == "get_column_type"):
                st = strings(init[0])
                if st == ["Track", "isExternalTrack", "NUMERIC"]:
                    self.marker_vars.add(nm)
                    return []
                raise Unsupported("unknown marker query")
            if e["kind"] == "CallExpr" and callee(e) in self.calls:
                self.bools[nm] = nm
                return ["let %s ← %s w; " % (nm, self.calls[callee(e)])]
            self.bools[nm] = nm
            return ["let %s := %s; " % (nm, self.bool_(init[0]))]
        if q.endswith("sqlite::database"):
            if e["kind"] == "CallExpr" and callee(e) in self.calls:
                return ["let _ ← %s w; " % self.calls[callee(e)]]
            if strings(init[0]) == [":memory:"]:
                return []
            raise Unsupported("database " + nm)
        if "engine_schema" in q:
            if e["kind"] == "CallExpr" and callee(e) == "detect_schema":
                self.schemas[nm] = nm
                return ["let %s ← detectSchemaGen w; " % nm]
            raise Unsupported("schema variable " + nm)
        if "shared_ptr" in q and "engine_storage" in q:
            if has(init[0], lambda x: x["kind"] == "DeclRefExpr" and
                   x.get("referencedDecl", {}).get("name") == "make_shared"):
                self.schemas[nm] = nm + "_schema"
                return ["let %s_schema ← %s w; " % (nm, self.calls["engine_storage"])]
        if ("shared_ptr" in q and "engine_library_context" in q) or q.endswith("v2::engine_library"):
            return []                # object construction: no effect on the outcome
        if q.endswith("semantic_version") and e["kind"] == "InitListExpr":
            fs = [self.int_(a) for a in e["inner"]]
            if len(fs) != 3:
                raise Unsupported("semantic_version initialiser")
            self.version = fs
            return []
        raise Unsupported("local %s : %s" % (nm, q))

    def exprstmt(self, s, rest, defs):
        """`db << "…" >> target` (reads) and `db << "ATTACH …" << path` (no effect)."""
        e = strip(s)
        st = strings(e)
        ops = []

        def chain(x):
            x = strip(x)
            if x["kind"] == "CXXOperatorCallExpr" and callee(x) in ("operator>>", "operator<<"):
                chain(x["inner"][1])
                ops.append((callee(x), x["inner"][2]))
        chain(e)
        if not ops:
            raise Unsupported("expression statement")
        if all(o == "operator<<" for o, _ in ops):
            if st and st[0].startswith("ATTACH"):
                return self.seq(rest, defs)
            raise Unsupported("statement executed on the database")
        if [o for o, _ in ops][-1] != "operator>>" or sum(1 for o, _ in ops if o == "operator>>") != 1:
            raise Unsupported("database read")
        target = strip(ops[-1][1])
        # the SQL text may be a variable built from literals: collect the literals of its declaration too
        text = " ".join(st + self.sqltexts(e))
        if "COUNT(*)" in text and "sqlite_master" in text and "name = 'Information'" in text:
            if target["kind"] == "DeclRefExpr":
                self.ints[target["referencedDecl"]["name"]] = "w.tableCount"
                return self.seq(rest, defs)
        m = re.search(r"SELECT\s+(\w+),\s*(\w+),\s*(\w+)\s+FROM", text)
        if m and all(c in COLS for c in m.groups()) and target["kind"] == "CallExpr" and callee(target) == "tie":
            args = [strip(a) for a in target["inner"][1:]]
            if len(args) != 3:
                raise Unsupported("tie arity")
            for col, a in zip(m.groups(), args):
                if a["kind"] == "DeclRefExpr" and qual(a) in ("int64_t", "long", "long long"):
                    self.ints[a["referencedDecl"]["name"]] = COLS[col]
                elif a["kind"] == "DeclRefExpr" and qual(a) in ("int", "int32_t"):
                    self.ints[a["referencedDecl"]["name"]] = "(narrowI32 %s)" % COLS[col]   # column_int truncates
                else:
                    raise Unsupported("tie target " + a["kind"] + " " + qual(a))
            return self.seq(rest, defs)
        raise Unsupported("unrecognised database read")

    sql_decls = {}

    def sqltexts(self, e):
        out = []

        def go(x):
            if x["kind"] == "DeclRefExpr" and x.get("referencedDecl", {}).get("name") in Walker.sql_decls:
                out.extend(Walker.sql_decls[x["referencedDecl"]["name"]])
            for c in x.get("inner", []):
                go(c)
        go(e)
        return out


def fn_defs(docs, name, nparams=None):
    fd = [d for d in docs if d.get("kind") in ("FunctionDecl", "CXXMethodDecl") and d.get("name") == name and
          any(c.get("kind") == "CompoundStmt" for c in d.get("inner", []))]
    if nparams is not None:
        fd = [d for d in fd if sum(1 for c in d["inner"] if c["kind"] == "ParmVarDecl") == nparams]
    # the same definition may be dumped more than once (filter matches by substring)
    uniq = {json.dumps(d.get("loc", {}), sort_keys=True) + str(d.get("range", {}).get("begin", {}).get("offset")): d for d in fd}
    if len(uniq) < 1:
        raise Unsupported("definition of %s not found" % name)
    return list(uniq.values())[0]


def body_of(f):
    return [c for c in f["inner"] if c["kind"] == "CompoundStmt"][0]["inner"]


def translate_detect_prefix(stmts_before_switch):
    """Statements of detect_schema before `switch (version.maj)` -> (defs, Lean prefix, [maj,min,pat] terms)."""
    w = Walker({}, {})
    defs = []
    # remember literals of local std::string declarations (SQL text assembled from pieces)
    Walker.sql_decls = {}
    for s in stmts_before_switch:
        if s["kind"] == "DeclStmt":
            for v in s["inner"]:
                if v["kind"] == "VarDecl" and ("basic_string" in qual(v) or qual(v) == "std::string"):
                    lits = strings(v)

                    def refs(x):
                        if x["kind"] == "DeclRefExpr" and x.get("referencedDecl", {}).get("name") in Walker.sql_decls:
                            lits.extend(Walker.sql_decls[x["referencedDecl"]["name"]])
                        for c in x.get("inner", []):
                            refs(c)
                    refs(v)
                    Walker.sql_decls[v["name"]] = lits
    sentinel = {"kind": "ReturnStmt", "inner": []}
    term = w.seq(list(stmts_before_switch) + [sentinel], defs)
    if w.version is None:
        raise Unsupported("semantic_version initialisation not found")
    return defs, term, w.version


def translate_layout(clang_ast):
    out = []
    dufile = REPO + "/src/djinterop/engine/engine_library_dir_utils.cpp"
    helpers = {}
    for d in clang_ast(dufile, "make_"):
        if d.get("kind") == "FunctionDecl" and re.match(r"make_\w+_path$", d.get("name", "")) and \
                any(c.get("kind") == "CompoundStmt" for c in d.get("inner", [])):
            b = body_of(d)
            if len(b) == 1 and b[0]["kind"] == "ReturnStmt":
                helpers[d["name"]] = Walker({}, {}).path(b[0]["inner"][0])
    calls = {}
    for nm, ty in (("detect_is_database2", "Bool"), ("load_legacy_sqlite_database", "Unit"),
                   ("load_database2_sqlite_database", "Unit")):
        w = Walker(helpers, calls)
        defs = []
        t = w.seq(body_of(fn_defs(clang_ast(dufile, nm), nm)), defs)
        if t is None or defs:
            raise Unsupported(nm)
        out.append("def %s (w : World) : Except LoadErr %s := do %s\n" % (nm, ty, t))
        calls[nm] = nm
    es = clang_ast(REPO + "/src/djinterop/engine/v1/engine_storage.cpp", "load_existing")
    w = Walker(helpers, calls)
    t = w.seq(body_of(fn_defs(es, "load_existing")), [])
    if t is None:
        raise Unsupported("load_existing")
    out.append("def load_existing (w : World) : Except LoadErr Schema := do %s\n" % t)
    # engine_storage(directory) delegates to load_existing; the 3-argument constructor stores its schema argument
    src = open(REPO + "/src/djinterop/engine/v1/engine_storage.cpp").read()
    if not re.search(r"engine_storage::engine_storage\(const std::string& directory\)\s*:\s*"
                     r"engine_storage\{load_existing\(directory\)\}", src) or \
            not re.search(r"schema\{schema\}", src):
        raise Unsupported("engine_storage constructors")
    calls["engine_storage"] = "load_existing"
    en = clang_ast(REPO + "/src/djinterop/engine/engine.cpp", "load_database")
    w = Walker(helpers, calls)
    t = w.seq(body_of(fn_defs(en, "load_database", 2)), [])
    if t is None:
        raise Unsupported("load_database")
    out.append("def loadDatabaseGen (w : World) : Except LoadErr Schema := do %s\n" % t)
    return out


def translate_header():
    """Public version table: enumerators, supported_schemas, to_string."""
    txt = open(REPO + "/include/djinterop/engine/engine_schema.hpp").read()
    m = re.search(r"enum class engine_schema\s*\{(.*?)\};", txt, re.S)
    if not m:
        raise Unsupported("enum engine_schema")
    enum = re.findall(r"\b(schema_\w+)\b", re.sub(r"//.*", "", m.group(1)))
    m = re.search(r"std::array<engine_schema,\s*(\d+)>\s*supported_schemas\s*\{(.*?)\};", txt, re.S)
    if not m:
        raise Unsupported("supported_schemas")
    sup = re.findall(r"engine_schema::(schema_\w+)", m.group(2))
    if len(sup) != int(m.group(1)):
        raise Unsupported("supported_schemas arity")
    m = re.search(r"inline std::string to_string\(const engine_schema& v\)\s*\{\s*switch \(v\)\s*\{(.*?)\n    \}", txt, re.S)
    if not m:
        raise Unsupported("to_string")
    ts = re.findall(r"case engine_schema::(schema_\w+):\s*return\s*\"([^\"]*)\";", m.group(1))
    lst = lambda xs: "[" + ", ".join(xs) + "]"
    return ["def enumGen : List String := " + lst('"%s"' % e for e in enum),
            "def supportedGen : List String := " + lst('"%s"' % e for e in sup),
            "def toStringGen : List (String × String) := " + lst('("%s", "%s")' % p for p in ts), ""]
