"""Shared paths and helpers for the /verif machinery."""
import hashlib, json, os, subprocess, sys, time, fcntl, contextlib

VERIF = os.path.dirname(os.path.dirname(os.path.abspath(__file__)))
REPO = os.environ.get("VERIF_REPO", "/repo")
BUILD = os.environ.get("VERIF_BUILD") or os.path.join(VERIF, "build")
LEAN = os.path.join(VERIF, "lean")
OBJ = os.path.join(BUILD, "obj")
GENINC = os.path.join(BUILD, "geninc")
HARNESS_SRC = os.path.join(VERIF, "harness")
HARNESS_BIN = os.path.join(BUILD, "djv")
MODELDRV = os.path.join(LEAN, ".lake", "build", "bin", "modeldrv")
NCPU = os.cpu_count() or 4


def sha(data: bytes) -> str:
    return hashlib.sha1(data).hexdigest()


def file_sha(path: str) -> str:
    try:
        with open(path, "rb") as f:
            return sha(f.read())
    except OSError:
        return "missing"


@contextlib.contextmanager
def locked(name: str):
    # the lake lock protects lean/.lake, which is shared by every run from this
    # verif tree whatever its VERIF_BUILD (mutant runs use their own build dir)
    base = os.path.join(LEAN, ".lake") if name == "lake" else BUILD
    os.makedirs(base, exist_ok=True)
    path = os.path.join(base, name + ".lock")
    with open(path, "w") as f:
        fcntl.flock(f, fcntl.LOCK_EX)
        try:
            yield
        finally:
            fcntl.flock(f, fcntl.LOCK_UN)


def run(cmd, **kw):
    kw.setdefault("stdout", subprocess.PIPE)
    kw.setdefault("stderr", subprocess.PIPE)
    kw.setdefault("text", True)
    return subprocess.run(cmd, **kw)


def scratch_dir(tag: str) -> str:
    base = "/dev/shm" if os.path.isdir("/dev/shm") and os.access("/dev/shm", os.W_OK) else os.path.join(BUILD, "scratch")
    d = os.path.join(base, "djv.%d.%s" % (os.getpid(), tag))
    os.makedirs(d, exist_ok=True)
    return d


def log(*a):
    print(*a, file=sys.stderr, flush=True)
