#!/usr/bin/env python3
"""Translator: the schema-1.x codecs  src/djinterop/engine/v1/performance_data_format.cpp
->  lean/EngineModel/Gen/ImplV1Gen.lean  (cursor / writer monads of Impl/Cursor.lean,
CursorCxx.lean, CursorCxxV1.lean; primitives of Impl/CxxPrims.lean).

Same method as tools/tr_blobs.py (whose clang / AST helpers are imported): one clang
run per function, typed JSON AST -> Lean definitions; lean/Proofs/ImplV1Gen*.lean prove
the regenerated definitions equal to the hand model Impl.V1.*.  Anything outside the
fragment -> `unsupported-node: <kind> at <file:line>`; the function keeps its previous
block; no alarm by itself.  design/codegen_v1.md lists the mapping.
"""
import json, os, re, subprocess, sys
from concurrent.futures import ThreadPoolExecutor
sys.path.insert(0, os.path.dirname(os.path.abspath(__file__)))
from common import *
import tr_blobs as T2
from tr_blobs import (Unsupported, clang_ast, annotate, kids, unwrap, qtype, norm_type, lean_ident,
                      callee_name, int_literal, refers_to, PRIM_DEC, PRIM_ENC, PRIMS)

SRC = "src/djinterop/engine/v1/performance_data_format.cpp"
TARGET = os.environ.get("VERIF_V1_TARGET") or os.path.join(LEAN, "EngineModel", "Gen", "ImplV1Gen.lean")   # (override: dry runs)

EXN = dict(T2.EXN)
EXN["djinterop::hot_cues_overflow"] = '(.dj "hot_cues_overflow")'

# ---------------------------------------------------------------- tables (the trusted mapping)
# C++ struct -> Lean structure of Impl/V1.lean.  leaves: (C++ member path, kind, Lean projection, default
# member initialiser as Lean term of the kind's representation).  ctor: anonymous constructor over the paths.
# The defaults are CHECKED against the in-class initialisers of the record declarations (check_defaults).
L = lambda *a: a
STRUCTS = {
    "track_data": dict(ty="Impl.V1.Track", leaves=[
        L("sample_rate", "opt:f64", "sampleRate", "none"), L("sample_count", "opt:i64", "sampleCount", "none"),
        L("average_loudness", "opt:f64", "loudness", "none"), L("key", "opt:key", "key", "none")]),
    "waveform_point": dict(ty=None, leaves=[L("value", "u8", None, "(0 : UInt8)"), L("opacity", "u8", None, "(255 : UInt8)")]),
    "waveform_entry": dict(ty="Impl.V1.Entry", size=6, sub={"low": "waveform_point", "mid": "waveform_point", "high": "waveform_point"},
        leaves=[L("low.value", "u8", "lv", "(0 : UInt8)"), L("mid.value", "u8", "mv", "(0 : UInt8)"),
                L("high.value", "u8", "hv", "(0 : UInt8)"), L("low.opacity", "u8", "lo", "(255 : UInt8)"),
                L("mid.opacity", "u8", "mo", "(255 : UInt8)"), L("high.opacity", "u8", "ho", "(255 : UInt8)")]),
    "overview_waveform_data": dict(ty="Impl.V1.Wave", leaves=[
        L("samples_per_entry", "f64", "spe", None), L("waveform", "vec:struct:waveform_entry", "entries", "[]")]),
    "high_res_waveform_data": dict(ty="Impl.V1.Wave", leaves=[
        L("samples_per_entry", "f64", "spe", None), L("waveform", "vec:struct:waveform_entry", "entries", "[]")]),
    "pad_color": dict(ty="Impl.V1.Color", ctor="⟨{a}, {r}, {g}, {b}⟩", leaves=[
        L("r", "u8", "r", "(0 : UInt8)"), L("g", "u8", "g", "(0 : UInt8)"), L("b", "u8", "b", "(0 : UInt8)"),
        L("a", "u8", "a", "(0 : UInt8)")]),
    "hot_cue": dict(ty="Impl.V1.HotCue", size=48, sub={"color": "pad_color"},
        ctor="⟨{label}, {sample_offset}, ⟨{color.a}, {color.r}, {color.g}, {color.b}⟩⟩", leaves=[
        L("label", "string", "label", "([] : Bytes)"), L("sample_offset", "f64", "off", "F64.zero"),
        L("color.a", "u8", "color.a", "(0 : UInt8)"), L("color.r", "u8", "color.r", "(0 : UInt8)"),
        L("color.g", "u8", "color.g", "(0 : UInt8)"), L("color.b", "u8", "color.b", "(0 : UInt8)")]),
    "loop": dict(ty="Impl.V1.LoopV", size=56, sub={"color": "pad_color"},
        ctor="⟨{label}, {start_sample_offset}, {end_sample_offset}, ⟨{color.a}, {color.r}, {color.g}, {color.b}⟩⟩", leaves=[
        L("label", "string", "label", "([] : Bytes)"), L("start_sample_offset", "f64", "start", "F64.zero"),
        L("end_sample_offset", "f64", "stop", "F64.zero"),
        L("color.a", "u8", "color.a", "(0 : UInt8)"), L("color.r", "u8", "color.r", "(0 : UInt8)"),
        L("color.g", "u8", "color.g", "(0 : UInt8)"), L("color.b", "u8", "color.b", "(0 : UInt8)")]),
    "quick_cues_data": dict(ty="Impl.V1.Cues", leaves=[
        L("hot_cues", "vec:opt:struct:hot_cue", "cues", "[]"), L("adjusted_main_cue", "f64", "adjMain", "F64.zero"),
        L("default_main_cue", "f64", "defMain", "F64.zero")]),
    "loops_data": dict(ty="Impl.V1.Loops", ctor="{loops}", self_proj={"loops": ""}, leaves=[
        L("loops", "vec:opt:struct:loop", "", "[]")]),
    "beatgrid_marker": dict(ty="Impl.V1.GMarker", size=16, ctor="⟨{index}, {sample_offset}⟩", leaves=[
        L("index", "i32", "index", "(0 : UInt32)"), L("sample_offset", "f64", "off", "F64.zero")]),
    "beat_data": dict(ty="Impl.V1.Beat", leaves=[
        L("sample_rate", "opt:f64", "sampleRate", "none"), L("sample_count", "opt:f64", "sampleCount", "none"),
        L("default_beatgrid", "vec:struct:beatgrid_marker", "dflt", "[]"),
        L("adjusted_beatgrid", "vec:struct:beatgrid_marker", "adj", "[]")]),
}
# where each record is declared (for check_defaults): filter -> header (relative to /repo)
RECORD_DECLS = {"waveform_point": "include/djinterop/performance_data.hpp", "beatgrid_marker": "include/djinterop/performance_data.hpp",
                "hot_cue": "include/djinterop/performance_data.hpp", "loop": "include/djinterop/performance_data.hpp",
                "quick_cues_data": "src/djinterop/engine/v1/performance_data_format.hpp"}

SCALARS = dict(T2.SCALARS)
SCALARS.update({"djinterop::musical_key": "key", "musical_key": "key", "enum djinterop::musical_key": "key",
                "int8_t": "?int8_t"})
LEAN_OF = {"u8": "UInt8", "i32": "UInt32", "i64": "UInt64", "f64": "UInt64", "key": "UInt32", "bool": "Bool",
           "u64": "Nat", "string": "Bytes", "bytes": "Bytes", "char": "UInt8"}


def ctype(n_or_q):
    q = n_or_q if isinstance(n_or_q, str) else qtype(n_or_q)
    q = norm_type(q)
    q = re.sub(r"\bdjinterop::engine::v1::|\bdjinterop::", "", q)
    q = re.sub(r"\benum ", "", q)
    if q in SCALARS:
        return SCALARS[q]
    if re.fullmatch(r"(std::)?byte \*", q):
        return "ptr"
    if re.fullmatch(r"std::vector<std::byte(, std::allocator<std::byte> ?)?>", q):
        return "bytes"
    if re.fullmatch(r"std::(__cxx11::)?basic_string<char(, .*)?>|std::string", q):
        return "string"
    m = re.fullmatch(r"std::optional<(.*?) ?>", q)
    if m:
        inner = ctype(m.group(1))
        return "?" + q if inner.startswith("?") else "opt:" + inner
    m = re.fullmatch(r"std::vector<(.*?)(, std::allocator<.*> ?)?>", q)
    if m:
        inner = ctype(m.group(1).strip())
        return "?" + q if inner.startswith("?") else "vec:" + inner
    m = re.fullmatch(r"(\w+)", q)
    if m and m.group(1) in STRUCTS:
        return "struct:" + m.group(1)
    return "?" + q


def lean_ty(k):
    if k.startswith("opt:"):
        return "(Option %s)" % lean_ty(k[4:])
    if k.startswith("vec:"):
        return "(List %s)" % lean_ty(k[4:])
    if k.startswith("struct:"):
        return STRUCTS[k[7:]]["ty"]
    return LEAN_OF[k]


def leaves_of(sname):
    return STRUCTS[sname]["leaves"]


def leaf(sname, path):
    for l in leaves_of(sname):
        if l[0] == path:
            return l
    return None


def fill(tmpl, parts):
    return re.sub(r"\{([\w.]+)\}", lambda m: parts[m.group(1)], tmpl)


def build_struct(sname, parts):
    sd = STRUCTS[sname]
    if "ctor" in sd:
        body = fill(sd["ctor"], parts)
    else:
        body = "⟨" + ", ".join(parts[l[0]] for l in sd["leaves"]) + "⟩"
    return "(%s : %s)" % (body, sd["ty"])


def proj(sname, holder, path):
    l = leaf(sname, path)
    if l is None:
        return None
    return holder if l[2] == "" else "%s.%s" % (holder, l[2])


F64_LIT = {0: "F64.zero", -1: "F64.negOne", 1: "F64.one"}


def strip_lv2rv(x):
    x = unwrap(x)
    if x.get("kind") == "ImplicitCastExpr" and x.get("castKind") == "LValueToRValue":
        x = unwrap(kids(x)[0])
    return x


def declref_name(x):
    x = strip_lv2rv(x)
    return x["referencedDecl"]["name"] if x.get("kind") == "DeclRefExpr" else None


def member_chain(n):
    """MemberExpr chain (no arrows) -> (root node, [member names])"""
    names = []
    n = unwrap(n)
    while n.get("kind") == "MemberExpr" and not n.get("isArrow"):
        names.append(n.get("name"))
        n = unwrap(kids(n)[0])
    return n, list(reversed(names))


# ---------------------------------------------------------------- decoder translation (Cur monad)

class Env:
    def __init__(self):
        self.decl = {}        # C++ local -> kind
        self.vals = {}        # path -> (Lean term, repr)   repr: bits | val | obj
        self.buf = self.buf_size = self.ptr = self.end = None
        self.noread = True
        self.idx = {}         # C++ loop counter -> Lean Nat name

    def copy(self):
        e = Env()
        e.decl, e.vals, e.idx = dict(self.decl), dict(self.vals), dict(self.idx)
        e.buf, e.buf_size, e.ptr, e.end, e.noread = self.buf, self.buf_size, self.ptr, self.end, self.noread
        return e


_STAMP = [0]


def V(term, rep):
    """a value bound to a path: Lean term, representation, unique stamp (so that re-assignment is visible)"""
    _STAMP[0] += 1
    return (term, rep, _STAMP[0])


def is_scalar(k):
    return k in ("u8", "i32", "i64", "f64", "key", "bool", "u64")


class Dec:
    def __init__(self, fn):
        self.fn = fn
        self.tmp = 0
        self.aux = []

    def fresh(self):
        self.tmp += 1
        return "t%d" % self.tmp

    # ---- declarations ----------------------------------------------------
    def init_paths(self, path, kind, env, defaults, node):
        """(re)initialise the object at `path`: defaults=True -> default member initialisers / empty containers"""
        for p in [p for p in env.vals if p == path or p.startswith(path + ".")]:
            del env.vals[p]
        if kind.startswith("struct:"):
            for lp, lk, _, dflt in leaves_of(kind[7:]):
                if not is_scalar(lk):
                    self.init_paths(path + "." + lp, lk, env, defaults, node)
                elif dflt is not None and defaults:
                    env.vals[path + "." + lp] = V(dflt, "bits")
        elif kind.startswith("vec:"):
            env.vals[path] = V("([] : %s)" % lean_ty(kind), "obj")
        elif kind in ("string", "bytes"):
            env.vals[path] = V("([] : Bytes)", "obj")
        elif kind.startswith("opt:"):
            env.vals[path] = V("(none : %s)" % lean_ty(kind), "obj")
        elif is_scalar(kind):
            pass
        else:
            raise Unsupported("local of type " + kind, node)

    def build(self, path, kind, env, node):
        if kind.startswith("struct:"):
            parts = {}
            for lp, lk, _, _ in leaves_of(kind[7:]):
                v = env.vals.get(path + "." + lp)
                if v is None:
                    raise Unsupported("use of uninitialised %s.%s" % (path, lp), node)
                parts[lp] = self.bits(v, lk)
            return build_struct(kind[7:], parts)
        v = env.vals.get(path)
        if v is None:
            raise Unsupported("use of uninitialised " + path, node)
        return self.bits(v, kind)

    def bits(self, v, kind):
        term, r = v[0], v[1]
        if r == "val" and kind == "i64":
            return "(Prim.u64OfInt %s)" % term
        if r == "val" and kind in ("i32", "key"):
            return "(Prim.u32OfInt %s)" % term
        return term

    # ---- lvalues ---------------------------------------------------------
    def lvalue(self, n, env):
        """-> ('path', path, kind) | ('elem', vecpath, idx Lean Nat term, struct name, leafpath, kind) | ('ignore',)"""
        root, names = member_chain(n)
        if root.get("kind") == "DeclRefExpr":
            name = root["referencedDecl"]["name"]
            if name == "ignore" and not names:
                return ("ignore",)
            if name not in env.decl:
                raise Unsupported("lvalue: unknown variable " + name, n)
            k = env.decl[name]
            if not names:
                return ("path", name, k)
            if not k.startswith("struct:"):
                raise Unsupported("member of non-struct " + k, n)
            lp = ".".join(names)
            l = leaf(k[7:], lp)
            if l is None:
                raise Unsupported("unknown member %s of %s" % (lp, k[7:]), n)
            if ctype(unwrap(n)) != l[1]:
                raise Unsupported("member %s.%s has C++ type %s, table says %s" % (k[7:], lp, ctype(unwrap(n)), l[1]), n)
            return ("path", name + "." + lp, l[1])
        if root.get("kind") == "CXXOperatorCallExpr" and callee_name(root) == "operator[]" and names:
            vec, idx = kids(root)[1], kids(root)[2]
            lv = self.lvalue(vec, env)
            if lv[0] != "path" or not lv[2].startswith("vec:struct:"):
                raise Unsupported("indexing something other than a vector of structs", n)
            sname = lv[2][11:]
            lp = ".".join(names)
            l = leaf(sname, lp)
            if l is None or ctype(unwrap(n)) != l[1] or "." in l[2]:
                raise Unsupported("element member " + lp, n)
            return ("elem", lv[1], self.index_term(idx, env), sname, lp, l[1])
        raise Unsupported("lvalue " + str(root.get("kind")), n)

    def index_term(self, n, env):
        """i, i - 1, i + 1 on a loop counter -> (prelude-free) Lean Nat term with C++ wrap-around excluded by guard"""
        n = unwrap(n)
        nm = declref_name(n)
        if nm in env.idx:
            return env.idx[nm]
        if n.get("kind") == "BinaryOperator" and n.get("opcode") in ("+", "-"):
            a, b = kids(n)
            an, bv = declref_name(a), int_literal(b)
            if an in env.idx and bv is not None and ctype(n) == "u64":
                f = "add" if n["opcode"] == "+" else "sub"
                return "(Cxx.U64.%s %s %d)" % (f, env.idx[an], bv)
        raise Unsupported("vector index", n)

    # ---- expressions -----------------------------------------------------
    def rv(self, n, env):
        """rvalue of an lvalue expression -> (prelude, term, kind, repr)"""
        lv = self.lvalue(n, env)
        if lv[0] == "path":
            _, path, kind = lv
            if kind.startswith("struct:"):
                return [], self.build(path, kind, env, n), kind, "obj"
            v = env.vals.get(path)
            if v is None:
                raise Unsupported("read of uninitialised " + path, n)
            return [], v[0], kind, v[1]
        if lv[0] == "elem":
            _, vpath, idx, sname, lp, kind = lv
            t = self.fresh()
            return (["let %s ← Cur.lift (Cxx.vecGet %s %s)" % (t, env.vals[vpath][0], idx)],
                    proj(sname, t, lp), kind, "bits")
        raise Unsupported("rvalue", n)

    def as_val(self, e, k, r):
        """signed integers as Int values"""
        if k in ("i32", "i64", "key") and r == "bits":
            return "(Prim.s%s %s)" % ("64" if k == "i64" else "32", e)
        return e

    def expr(self, n, env):
        """-> (prelude lines, Lean term, kind).  Signed values are Int, u64 Nat, u8 UInt8, f64 bit patterns, bool Bool."""
        n = unwrap(n)
        k = n.get("kind")
        lit = int_literal(n)
        t = ctype(n)
        if lit is not None and t in ("i32", "i64", "u64"):
            return [], "(%d : %s)" % (lit, "Nat" if t == "u64" else "Int"), t
        if k in ("ImplicitCastExpr", "CXXStaticCastExpr", "CStyleCastExpr", "CXXFunctionalCastExpr"):
            ck = n.get("castKind")
            sub = kids(n)[0]
            if ck == "LValueToRValue":
                nm = declref_name(sub)
                if nm in env.idx:
                    return [], env.idx[nm], "u64"
                pre, e, kk, r = self.rv(sub, env)
                return pre, self.as_val(e, kk, r), kk
            if ck == "NoOp":
                return self.expr(sub, env)
            if ck == "IntegralToFloating":
                v = int_literal(sub)
                if v in F64_LIT and t == "f64":
                    return [], F64_LIT[v], "f64"
                raise Unsupported("IntegralToFloating of a non-literal", n)
            if ck == "IntegralCast":
                pre, e, st = self.expr(sub, env)
                if st == t:
                    return pre, e, t
                if st == "u8" and t in ("i32", "i64"):
                    return pre, "(%s.toNat : Int)" % e, t
                if st == "u8" and t == "u64":
                    return pre, "%s.toNat" % e, t
                if st == "i32" and t == "i64":
                    return pre, e, t
                if st == "i64" and t == "i32":
                    return pre, "(Cxx.i32OfInt %s)" % e, t
                if st in ("i32", "i64") and t == "u64":
                    return pre, "(Cxx.u64OfInt %s)" % e, t
                if st == "u64" and t == "i64":
                    return pre, "(Cxx.i64OfU64 %s)" % e, t
                raise Unsupported("IntegralCast %s->%s" % (st, t), n)
            if ck == "ConstructorConversion":
                return self.expr(sub, env)
            raise Unsupported("cast " + str(ck), n)
        if k == "DeclRefExpr" or k == "MemberExpr":
            pre, e, kk, r = self.rv(n, env)
            return pre, self.as_val(e, kk, r), kk
        if k == "CXXConstructExpr" and len(kids(n)) == 1:
            sub = unwrap(kids(n)[0])
            if t.startswith("opt:") and sub.get("kind") == "CXXConstructExpr" and "nullopt" in qtype(sub):
                return [], "(none : %s)" % lean_ty(t), t
            if ctype(sub) == t:
                return self.expr(sub, env)
        if k == "CXXMemberCallExpr":
            m = unwrap(kids(n)[0])
            obj = unwrap(kids(m)[0]) if kids(m) else {}
            if m.get("name") == "size" and len(kids(n)) == 1:
                nm = declref_name(obj)
                if nm == env.buf and env.buf_size:
                    return [], env.buf_size, "u64"
                lv = self.lvalue(obj, env)
                if lv[0] == "path" and lv[2].startswith("vec:") and lv[1] in env.vals:
                    return [], "(List.length %s)" % env.vals[lv[1]][0], "u64"
            raise Unsupported("member call " + str(m.get("name")), n)
        if k == "ConditionalOperator":
            c, a, b = kids(n)
            pc, ec, tc = self.expr(c, env)
            pa, ea, ta = self.expr(a, env)
            pb, eb, tb = self.expr(b, env)
            if tc != "bool" or ta != tb or pa or pb:
                raise Unsupported("conditional operator", n)
            return pc, "(if %s then %s else %s)" % (ec, self.to_bits(ea, ta), self.to_bits(eb, tb)), ta
        if k == "CallExpr":
            f = callee_name(n)
            args = kids(n)[1:]
            if f == "make_optional" and len(args) == 1 and t.startswith("opt:"):
                pre, e, st = self.expr(args[0], env)
                if "opt:" + st != t:
                    raise Unsupported("make_optional of a %s for %s" % (st, t), n)
                return pre, "(some %s)" % self.to_bits(e, st), t
            if f == "prohibit" and len(args) == 2 and t.startswith("opt:") and self.fn.get("_prohibit_ok"):
                # prohibit(sentinel, data): `data == sentinel ? nullopt : make_optional(data)` (shape checked, see check_prohibit)
                pd, ed, td = self.expr(args[1], env)
                sv = int_literal(args[0])
                if "opt:" + td != t or sv is None:
                    raise Unsupported("prohibit arguments", n)
                if td == "f64" and sv in F64_LIT:
                    c = "F64.eq %s %s" % (ed, F64_LIT[sv])
                elif td in ("i32", "i64"):
                    c = "decide (%s = (%d : Int))" % (ed, sv)
                else:
                    raise Unsupported("prohibit on " + td, n)
                return pd, "(if %s then none else some %s)" % (c, self.to_bits(ed, td)), t
            if f == "optional_static_cast" and len(args) == 1 and t == "opt:key":
                pre, e, st = self.expr(args[0], env)
                if st != "opt:i32":
                    raise Unsupported("optional_static_cast from " + st, n)
                return pre, e, t      # musical_key has underlying type int: same bit pattern
            if f == "to_integer" and len(args) == 1 and t == "i32":
                a = strip_lv2rv(args[0])
                if a.get("kind") == "UnaryOperator" and a.get("opcode") == "*" and declref_name(kids(a)[0]) == env.ptr:
                    tt = self.fresh()
                    return ["let %s ← Cur.peek1" % tt], "(%s.toNat : Int)" % tt, "i32"
            raise Unsupported("call " + str(f), n)
        if k == "BinaryOperator":
            return self.binop(n, env)
        raise Unsupported("expression " + str(k), n)

    def to_bits(self, e, k):
        """stored representation of an expression value"""
        if k == "i64":
            m = re.fullmatch(r"\(Prim\.s64 (\w+)\)", e)
            return m.group(1) if m else "(Prim.u64OfInt %s)" % e
        if k in ("i32", "key"):
            m = re.fullmatch(r"\(Prim\.s32 (\w+)\)", e)
            return m.group(1) if m else "(Prim.u32OfInt %s)" % e
        return e

    def binop(self, n, env):
        op = n["opcode"]
        a, b = kids(n)
        if op in ("||", "&&"):
            pa, ea, ta = self.expr(a, env)
            pb, eb, tb = self.expr(b, env)
            if ta != "bool" or tb != "bool":
                raise Unsupported("operand of %s is not bool" % op, n)
            if not pb:
                return pa, "(%s %s %s)" % (ea, op, eb), "bool"
            t = self.fresh()
            comb = "Cur.orElse" if op == "||" else "Cur.andAlso"
            rhs = "(do " + "; ".join(pb + ["pure %s" % eb]) + ")"
            return pa + ["let %s ← %s (pure %s) %s" % (t, comb, ea, rhs)], t, "bool"
        if ctype(a) == "ptr" and ctype(b) == "ptr":
            na, nb = declref_name(a), declref_name(b)
            if op == "-" and na == env.end and nb == env.ptr and env.end:
                t = self.fresh()
                return ["let %s ← Cur.remaining" % t], "(%s : Int)" % t, "i64"
            if op in ("!=", "==") and {na, nb} == {env.end, env.ptr} and env.end:
                t = self.fresh()
                return ["let %s ← Cur.remaining" % t], "(decide (%s %s 0))" % (t, "≠" if op == "!=" else "="), "bool"
            raise Unsupported("pointer operation", n)
        pa, ea, ta = self.expr(a, env)
        pb, eb, tb = self.expr(b, env)
        if ta != tb:
            raise Unsupported("operands of %s have types %s, %s" % (op, ta, tb), n)
        if op in ("<", ">", "<=", ">=", "==", "!="):
            if ta in ("i32", "i64", "u64"):
                lop = {"<": "<", ">": ">", "<=": "≤", ">=": "≥", "==": "=", "!=": "≠"}[op]
                return pa + pb, "(decide (%s %s %s))" % (ea, lop, eb), "bool"
            if ta == "f64":
                f = {"<": "F64.lt %s %s", ">": "F64.lt %s %s", "<=": "F64.le %s %s", ">=": "F64.le %s %s",
                     "==": "F64.eq %s %s", "!=": "F64.ne %s %s"}[op]
                x, y = (eb, ea) if op in (">", ">=") else (ea, eb)
                return pa + pb, "(" + f % (x, y) + ")", "bool"
            if ta == "u8":
                lop = {"<": "<", ">": ">", "<=": "≤", ">=": "≥", "==": "=", "!=": "≠"}[op]
                return pa + pb, "(decide (%s.toNat %s %s.toNat))" % (ea, lop, eb), "bool"
            raise Unsupported("comparison on " + ta, n)
        if op in ("+", "-", "*") and ta in ("i32", "i64"):
            t = self.fresh()
            chk = "Cur.chkI64" if ta == "i64" else "Cur.chkI32"
            return pa + pb + ["let %s ← %s (%s %s %s)" % (t, chk, ea, op, eb)], t, ta
        if op == "/" and ta == "i64":
            d = int_literal(b)
            if d is not None and d not in (0, -1):
                return pa + pb, "(Int.tdiv %s %s)" % (ea, eb), ta
            t = self.fresh()
            return pa + pb + ["let %s ← Cur.divI64 %s %s" % (t, ea, eb)], t, ta
        if op in ("+", "-", "*") and ta == "u64":
            f = {"+": "add", "-": "sub", "*": "mul"}[op]
            return pa + pb, "(Cxx.U64.%s %s %s)" % (f, ea, eb), ta
        raise Unsupported("operator %s on %s" % (op, ta), n)

    # ---- statements ------------------------------------------------------
    is_noop = T2.Dec.is_noop

    def throw_class(self, s):
        s = unwrap(s)
        if s.get("kind") == "CompoundStmt":
            body = [c for c in kids(s) if not self.is_noop(c)]
            return self.throw_class(body[0]) if len(body) == 1 else None
        if s.get("kind") != "CXXThrowExpr" or not kids(s):
            return None
        t = norm_type(qtype(unwrap(kids(s)[0])))
        if t in EXN:
            return EXN[t]
        raise Unsupported("throw of " + t, s)

    def ptr_arg(self, a, env, which):
        want = env.ptr if which == "ptr" else env.end
        if want is None or declref_name(a) != want:
            raise Unsupported("argument is not the cursor `%s`" % which, a)

    def assign(self, lv, term, rep, env, out, node):
        """store `term` (representation rep) into the lvalue"""
        if lv[0] == "ignore":
            return
        if lv[0] == "path":
            _, path, kind = lv
            if kind.startswith("struct:"):
                raise Unsupported("assignment of a whole struct", node)
            name = lean_ident(path)
            if term != name:
                out.append("let %s := %s" % (name, term))
            env.vals[path] = V(name, rep)
            return
        _, vpath, idx, sname, lp, kind = lv
        l = leaf(sname, lp)
        vname = lean_ident(vpath)
        out.append("let %s ← Cur.lift (Cxx.vecSet %s %s (fun e => { e with %s := %s }))" %
                   (vname, env.vals[vpath][0], idx, l[2], term))
        env.vals[vpath] = V(vname, "obj")

    def tie_assign(self, s, env, out, catch=None):
        """std::tie(lv, ptr) = <reader>(ptr[, end])"""
        args = kids(s)
        lhs, rhs = unwrap(args[1]), unwrap(args[2])
        if lhs.get("kind") != "CallExpr" or callee_name(lhs) != "tie" or len(kids(lhs)) != 3:
            raise Unsupported("assignment target is not std::tie(x, ptr)", s)
        tgt, p = kids(lhs)[1], unwrap(kids(lhs)[2])
        if p.get("kind") != "DeclRefExpr" or p["referencedDecl"]["name"] != env.ptr:
            raise Unsupported("second element of std::tie is not the cursor", s)
        if rhs.get("kind") != "CallExpr":
            raise Unsupported("right-hand side " + str(rhs.get("kind")), s)
        f = callee_name(rhs)
        cargs = kids(rhs)[1:]
        lv = self.lvalue(tgt, env)
        env.noread = False
        if f in PRIM_DEC:
            if len(cargs) != 1:
                raise Unsupported("arity of " + f, rhs)
            self.ptr_arg(cargs[0], env, "ptr")
            vty = PRIM_DEC[f]
            if lv[0] == "ignore":
                out.append("let _ ← %s%s" % (PRIMS, f))
                return
            kind = lv[2] if lv[0] == "path" else lv[5]
            if kind != vty:
                raise Unsupported("%s assigned to a %s" % (f, kind), s)
            name = lean_ident(lv[1]) if lv[0] == "path" else self.fresh()
            out.append("let %s ← %s%s" % (name, PRIMS, f))
            self.assign(lv, name, "bits", env, out, s)
            return
        if f in HELPERS:
            h = HELPERS[f]
            if len(cargs) != 2:
                raise Unsupported("arity of " + f, rhs)
            self.ptr_arg(cargs[0], env, "ptr")
            self.ptr_arg(cargs[1], env, "end")
            if lv[0] != "path" or lv[2] != h["ret"]:
                raise Unsupported("%s assigned to %s" % (f, lv), s)
            name = lean_ident(lv[1])
            if catch is not None:
                catch(name, h["lean"])
            else:
                out.append("let %s ← %s" % (name, h["lean"]))
            env.vals[lv[1]] = V(name, "obj")
            return
        raise Unsupported("call " + str(f), rhs)

    def var_decl(self, v, env, out):
        name = v["name"]
        init = [c for c in kids(v) if not c.get("kind", "").endswith("Attr")]
        ty = ctype(v)
        if not init:
            env.decl[name] = ty
            self.init_paths(name, ty, env, False, v)
            return
        e = unwrap(init[-1])
        k = e.get("kind")
        if k == "CallExpr" and callee_name(e) == "zlib_uncompress" and ty == "bytes" and env.buf is None:
            if declref_name(kids(e)[1]) == self.fn.get("_param"):
                env.buf = name
                return
            raise Unsupported("zlib_uncompress of something other than the parameter", v)
        if k == "CXXMemberCallExpr" and ty == "ptr" and env.ptr is None:
            m = unwrap(kids(e)[0])
            b = declref_name(kids(m)[0])
            if m.get("name") == "data" and b:
                if env.buf is None and b == self.fn.get("_param"):
                    env.buf = b          # the uncompressed kind (loops): the parameter itself is the payload
                if b == env.buf:
                    env.ptr = name
                    env.buf_size = lean_ident(b + "_size")
                    out.append("let %s ← Cur.remaining" % env.buf_size)
                    return
            raise Unsupported("pointer initialiser", v)
        if k == "BinaryOperator" and e.get("opcode") == "+" and ty == "ptr" and env.end is None and env.noread:
            a, b = kids(e)
            try:
                self.ptr_arg(a, env, "ptr")
                pb, eb, tb = self.expr(b, env)
            except Unsupported:
                raise Unsupported("end-pointer initialiser", v)
            if not pb and eb == env.buf_size:
                env.end = name
                return
            raise Unsupported("end-pointer initialiser", v)
        if k == "CXXConstructExpr" and not [a for a in kids(e) if a.get("kind") != "CXXDefaultArgExpr"] and \
                (ty.startswith(("struct:", "vec:")) or ty in ("string", "bytes")):
            env.decl[name] = ty
            self.init_paths(name, ty, env, True, v)
            return
        # std::vector<T> v(n): n value-initialised elements
        if k == "CXXConstructExpr" and ty.startswith("vec:struct:"):
            a = [c for c in kids(e) if c.get("kind") != "CXXDefaultArgExpr"]
            if len(a) == 1:
                pre, n_, t = self.expr(a[0], env)
                if t == "u64":
                    sname = ty[11:]
                    parts = {l[0]: l[3] for l in leaves_of(sname)}
                    if any(p is None for p in parts.values()):
                        raise Unsupported("element type without default initialisers", v)
                    out.extend(pre)
                    out.append("Cur.reserve %s %d" % (n_, STRUCTS[sname]["size"]))
                    ln = lean_ident(name)
                    out.append("let %s := List.replicate %s %s" % (ln, n_, build_struct(sname, parts)))
                    env.decl[name] = ty
                    env.vals[name] = V(ln, "obj")
                    return
            raise Unsupported("vector constructor", v)
        if is_scalar(ty) and ty != "bool":
            pre, ee, t = self.expr(init[-1], env)
            if t != ty:
                raise Unsupported("initialiser of type %s for a %s" % (t, ty), v)
            out.extend(pre)
            ln = lean_ident(name)
            out.append("let %s := %s" % (ln, ee))
            env.decl[name] = ty
            env.vals[name] = V(ln, "val" if ty in ("i32", "i64") else "bits")
            return
        raise Unsupported("initialiser " + str(k), v)

    def no_return(self, r):
        if r is not None:
            raise Unsupported("return inside a nested block", r)

    def block(self, s):
        s = unwrap(s)
        return kids(s) if s.get("kind") == "CompoundStmt" else [s]

    def stmts(self, body, env, out, tail):
        body = [s for s in body if not self.is_noop(s)]
        for i, raw in enumerate(body):
            s = unwrap(raw)
            k = s.get("kind")
            last = i == len(body) - 1
            if k == "DeclStmt":
                for v in kids(s):
                    if v.get("kind") == "TypeAliasDecl":
                        continue
                    if v.get("kind") != "VarDecl":
                        raise Unsupported("declaration " + str(v.get("kind")), v)
                    self.var_decl(v, env, out)
            elif k == "IfStmt":
                self.if_stmt(s, env, out)
            elif k == "CXXOperatorCallExpr" and callee_name(s) == "operator=":
                tgt = unwrap(kids(s)[1])
                if tgt.get("kind") == "CallExpr" and callee_name(tgt) == "tie":
                    self.tie_assign(s, env, out)
                else:
                    self.plain_assign(kids(s)[1], kids(s)[2], env, out, s)
            elif k == "BinaryOperator" and s.get("opcode") == "=":
                self.plain_assign(kids(s)[0], kids(s)[1], env, out, s)
            elif k == "ForStmt":
                self.for_stmt(s, env, out)
            elif k == "CXXForRangeStmt":
                self.range_for(s, env, out)
            elif k == "WhileStmt":
                self.while_stmt(s, env, out)
            elif k == "CXXTryStmt":
                self.try_stmt(s, env, out)
            elif k == "CXXMemberCallExpr":
                self.member_call(s, env, out)
            elif k == "CompoundAssignOperator" and s.get("opcode") == "+=":
                a, b = kids(s)
                if declref_name(a) != env.ptr:
                    raise Unsupported("compound assignment to something other than the cursor", s)
                pre, e, t = self.expr(b, env)
                m = re.fullmatch(r"\((\w+)\.toNat : Int\)", e)
                lit = int_literal(b)
                if t == "u64":
                    n_ = e
                elif m:
                    n_ = "%s.toNat" % m.group(1)
                elif lit is not None and lit >= 0:
                    n_ = "%d" % lit
                else:
                    raise Unsupported("cursor advanced by a possibly negative amount", s)
                out.extend(pre)
                out.append("Cur.advance %s" % n_)
                env.noread = False
            elif k == "UnaryOperator" and s.get("opcode") == "++" and declref_name(kids(s)[0]) == env.ptr:
                out.append("Cur.advance 1")
                env.noread = False
            elif k == "ReturnStmt":
                if not last:
                    raise Unsupported("return before the end of the function", s)
                tail(env, out, s)
                return
            else:
                raise Unsupported(str(k), s)
        tail(env, out, None)

    def plain_assign(self, a, b, env, out, node):
        lv = self.lvalue(a, env)
        kind = lv[2] if lv[0] == "path" else lv[5]
        b_ = unwrap(b)
        if b_.get("kind") == "CallExpr" and callee_name(b_) == "move":
            b_ = unwrap(kids(b_)[1])
        pre, e, t = self.expr(b_, env)
        if t != kind:
            raise Unsupported("assignment of a %s to a %s" % (t, kind), node)
        out.extend(pre)
        if kind in ("i32", "i64"):
            # keep the stored bit pattern
            self.assign(lv, self.to_bits(e, kind), "bits", env, out, node)
        else:
            self.assign(lv, e, "bits" if is_scalar(kind) else "obj", env, out, node)

    def member_call(self, s, env, out):
        m = unwrap(kids(s)[0])
        meth = m.get("name")
        lv = self.lvalue(kids(m)[0], env)
        args = kids(s)[1:]
        if lv[0] != "path":
            raise Unsupported("member call on an element", s)
        _, path, ty = lv
        if meth in ("reserve", "resize") and ty.startswith("vec:") and len(args) == 1:
            if env.vals.get(path, ("",))[0] != "([] : %s)" % lean_ty(ty):
                raise Unsupported("%s on a vector that is not known to be empty" % meth, s)
            pre, e, t = self.expr(args[0], env)
            if t != "u64":
                raise Unsupported("%s argument of type %s" % (meth, t), s)
            ek = ty[4:]
            size = STRUCTS[ek.split(":")[-1]]["size"]
            if ek.startswith("opt:"):
                size += 8        # std::optional<T>: T + engaged flag, padded to alignof(T) = 8
            out.extend(pre)
            out.append("Cur.reserve %s %d" % (e, size))
            if meth == "resize":
                env.vals[path] = V("<resized %s>" % e, "sized")
        elif meth == "assign" and ty == "string" and len(args) == 2:
            a0 = unwrap(args[0])
            if a0.get("kind") != "CXXReinterpretCastExpr" or ctype(kids(a0)[0]) != "ptr":
                raise Unsupported("assign from something other than the cursor", s)
            self.ptr_arg(kids(a0)[0], env, "ptr")
            pre, e, t = self.expr(args[1], env)
            m2 = re.fullmatch(r"\((\w+)\.toNat : Int\)", e)
            if t == "u64":
                n_ = e
            elif m2:
                n_ = "%s.toNat" % m2.group(1)
            else:
                raise Unsupported("assign length of type " + t, s)
            out.extend(pre)
            name = lean_ident(path)
            out.append("let %s ← Cur.peekN %s" % (name, n_))
            env.vals[path] = V(name, "obj")
        else:
            raise Unsupported("member call " + str(meth), s)

    def if_stmt(self, s, env, out):
        parts = kids(s)
        if s.get("hasInit") or s.get("hasVar"):
            raise Unsupported("if with init", s)
        cond, then = parts[0], parts[1]
        pre, c, t = self.expr(cond, env)
        if t != "bool":
            raise Unsupported("condition of type " + t, cond)
        if s.get("hasElse"):
            raise Unsupported("if with else", s)
        exn = self.throw_class(then)
        out.extend(pre)
        if exn:
            out.append("if %s then Cur.throwC %s else" % (c, exn))
            return
        tb = [x for x in self.block(then) if not self.is_noop(x)]
        if len(tb) == 1 and unwrap(tb[0]).get("kind") == "ReturnStmt":
            sub = []
            self.ret(env.copy(), sub, unwrap(tb[0]))
            if len(sub) != 1:
                raise Unsupported("early return with a prelude", s)
            out.append("if %s then %s else" % (c, sub[0]))
            return
        if not tb:
            return          # `if (c) { /* nothing */ }`: the condition has no side effect (preludes are pure reads)
        inner = env.copy()
        sub = []
        self.stmts(tb, inner, sub, lambda e, o, r: self.no_return(r))
        if set(inner.decl) != set(env.decl):
            # locals of the block go out of scope
            for d in set(inner.decl) - set(env.decl):
                for p in [p for p in inner.vals if p == d or p.startswith(d + ".")]:
                    del inner.vals[p]
        changed = [p for p in inner.vals if p.split(".")[0] in env.decl and
                   (p not in env.vals or inner.vals[p] != env.vals[p])]
        for p in changed:
            if p not in env.vals:
                raise Unsupported("variable %s is assigned only conditionally" % p, s)
        tup = lambda xs: "()" if not xs else xs[0] if len(xs) == 1 else "(" + ", ".join(xs) + ")"
        olds = [env.vals[p][0] for p in changed]
        news = [inner.vals[p][0] for p in changed]
        names = [lean_ident(p) for p in changed]
        pat = "_" if not names else tup(names)
        if not names:
            out.append("if %s then (do" % c)
            out.extend("    " + l for l in sub)
            out.append("    pure ()) else pure ()")
        else:
            out.append("let %s ← if %s then (do" % (pat, c))
            out.extend("    " + l for l in sub)
            out.append("    pure %s) else pure %s" % (tup(news), tup(olds)))
        for p, nm in zip(changed, names):
            env.vals[p] = V(nm, inner.vals[p][1])
        env.noread = env.noread and inner.noread

    def hoist(self, lean_ty_, sub, params=""):
        bname = "%s_body%d" % (self.fn["lean"], len(self.aux) + 1)
        self.aux.append((bname, params, lean_ty_, sub))
        return bname

    def outer_names(self, env):
        s = {v[0] for v in env.vals.values()} | {env.buf_size} | set(env.idx.values())
        return {x for x in s if x and re.fullmatch(r"[A-Za-z_][A-Za-z_0-9']*", x)}

    def for_stmt(self, s, env, out):
        parts = s.get("inner") or []
        if len(parts) != 5:
            raise Unsupported("for statement shape", s)
        init, condvar, cond, inc, body = parts
        if condvar and condvar.get("kind"):
            raise Unsupported("for with condition variable", s)
        if not (init.get("kind") == "DeclStmt" and len(kids(init)) == 1 and kids(init)[0].get("kind") == "VarDecl"):
            raise Unsupported("for initialiser", s)
        iv = kids(init)[0]
        ity = ctype(iv)
        start = int_literal(kids(iv)[-1]) if kids(iv) else None
        iname = iv["name"]
        c = unwrap(cond)
        if c.get("kind") != "BinaryOperator" or c.get("opcode") != "<" or declref_name(kids(c)[0]) != iname:
            raise Unsupported("loop condition is not `i < n` on the counter itself", cond)
        u = unwrap(inc)
        if u.get("kind") != "UnaryOperator" or u.get("opcode") != "++" or declref_name(kids(u)[0]) != iname:
            raise Unsupported("loop increment is not ++i", inc)
        pre, bound, bt = self.expr(kids(c)[1], env)
        if pre or bt != ity:
            raise Unsupported("loop bound is not a plain value of the counter's type", cond)
        bstmts = [x for x in self.block(body) if not self.is_noop(x)]
        if not bstmts:
            raise Unsupported("empty loop body", body)
        if ity == "i64" and start == 0 and not refers_to(body, iname):
            return self.counted_loop(s, bstmts, bound, env, out)
        if ity == "u64" and start == 0:
            return self.indexed_loop(s, iname, bstmts, bound, env, out)
        raise Unsupported("loop counter of type %s from %s" % (ity, start), iv)

    def emplace(self, st, env):
        """`v.emplace_back(x)` / `v.push_back(x)` -> (vector path, kind, argument node)"""
        st = unwrap(st)
        if st.get("kind") != "CXXMemberCallExpr" or len(kids(st)) != 2:
            return None
        m = unwrap(kids(st)[0])
        if m.get("name") not in ("emplace_back", "push_back"):
            return None
        lv = self.lvalue(kids(m)[0], env)
        if lv[0] != "path" or not lv[2].startswith("vec:"):
            return None
        return lv[1], lv[2], kids(st)[1]

    def elem_value(self, arg, ek, e, node):
        """the element appended: a loop-local struct, or nullopt"""
        arg = unwrap(arg)
        while arg.get("kind") == "CXXConstructExpr" and len(kids(arg)) == 1:
            arg = unwrap(kids(arg)[0])
        if ek.startswith("opt:") and "nullopt" in qtype(arg):
            return "(none : %s)" % lean_ty(ek)
        lv = self.lvalue(arg, e)
        inner = ek[4:] if ek.startswith("opt:") else ek
        if lv[0] != "path" or lv[2] != inner:
            raise Unsupported("appended value of type " + str(lv), node)
        v = self.build(lv[1], lv[2], e, node)
        return "(some %s)" % v if ek.startswith("opt:") else v

    def counted_loop(self, s, bstmts, bound, env, out):
        """for (int64_t i = 0; i < n; ++i) { ...; v.emplace_back(x) | if (c) v.emplace_back(x); else v.emplace_back(nullopt); }"""
        last = unwrap(bstmts[-1])
        inner = env.copy()
        sub = []
        if last.get("kind") == "IfStmt" and last.get("hasElse"):
            c, a, b = kids(last)
            def one(x):
                b_ = [y for y in self.block(x) if not self.is_noop(y)]
                return self.emplace(b_[0], env) if len(b_) == 1 else None
            ea, eb = one(a), one(b)
            if not ea or not eb or ea[:2] != eb[:2]:
                raise Unsupported("loop body does not end in emplace_back on both branches", last)
            vpath, vty = ea[:2]

            def tail(e, o, r):
                self.no_return(r)
                pc, ec, tc = self.expr(c, e)
                if tc != "bool":
                    raise Unsupported("condition", c)
                o.extend(pc)
                o.append("pure (if %s then %s else %s)" % (ec, self.elem_value(ea[2], vty[4:], e, last),
                                                           self.elem_value(eb[2], vty[4:], e, last)))
        else:
            ea = self.emplace(last, env)
            if not ea:
                raise Unsupported("loop body does not end in push_back / emplace_back", last)
            vpath, vty = ea[:2]

            def tail(e, o, r):
                self.no_return(r)
                o.append("pure %s" % self.elem_value(ea[2], vty[4:], e, last))
        if env.vals.get(vpath, ("",))[0] != "([] : %s)" % lean_ty(vty):
            raise Unsupported("append to a vector that is not known to be empty", last)
        self.stmts(bstmts[:-1], inner, sub, tail)
        for p, v in inner.vals.items():
            if p.split(".")[0] in env.decl and env.vals.get(p) != v:
                raise Unsupported("loop body assigns the outer variable " + p, s)
        name = lean_ident(vpath)
        toks = set(re.findall(r"[A-Za-z_][A-Za-z_0-9']*", " ".join(sub)))
        if not (self.outer_names(env) & toks):
            out.append("let %s ← Cur.forCount %s %s" % (name, self.hoist("Cur %s" % lean_ty(vty[4:]), sub), bound))
        else:
            out.append("let %s ← Cur.forCount (do" % name)
            out.extend("    " + l for l in sub)
            out[-1] += ") " + bound
        env.vals[vpath] = V(name, "obj")
        env.noread = False

    def indexed_loop(self, s, iname, bstmts, bound, env, out):
        """for (size_t i = 0; i < n; ++i) { body using i, v[i], v[i - 1] and updating outer locals }"""
        inner = env.copy()
        i_ = lean_ident(iname)
        inner.idx[iname] = i_
        sub = []
        state = []

        def tail(e, o, r):
            self.no_return(r)
        self.stmts(bstmts, inner, sub, tail)
        for p, v in inner.vals.items():
            if p.split(".")[0] in env.decl and env.vals.get(p) != v:
                if p not in env.vals:
                    raise Unsupported("loop body initialises the outer variable " + p, s)
                state.append(p)
        if not state:
            raise Unsupported("indexed loop without effect on a variable", s)
        tup = lambda xs: xs[0] if len(xs) == 1 else "(" + ", ".join(xs) + ")"
        names = [lean_ident(p) for p in state]
        for p, nm in zip(state, names):
            if env.vals[p][0] != nm or env.vals[p][1] == "val":
                out.append("let %s := %s" % (nm, self.bits(env.vals[p], self.kind_of(p, env))))
                env.vals[p] = V(nm, "bits" if env.vals[p][1] == "val" else env.vals[p][1])
        # re-translate the body with the state variables bound to their names
        inner = env.copy()
        inner.idx[iname] = i_
        sub = []
        self.tmp_save = self.tmp
        self.stmts(bstmts, inner, sub, tail)
        sub.append("pure %s" % tup([self.bits(inner.vals[p], self.kind_of(p, env)) for p in state]))
        sty = " × ".join(lean_ty(self.kind_of(p, env)) for p in state)
        toks = set(re.findall(r"[A-Za-z_][A-Za-z_0-9']*", " ".join(sub)))
        free = (self.outer_names(env) - set(names) - {i_}) & toks
        pat = "fun %s %s => " % (i_, tup(names) if len(names) > 1 else names[0])
        if not free:
            ptn = tup(names) if len(names) > 1 else names[0]
            bname = self.hoist("Cur (%s)" % sty, ["let %s := st" % ptn] + sub if len(names) > 1 else sub,
                               params=" (%s : Nat) (%s : %s)" % (i_, "st" if len(names) > 1 else names[0], sty))
            out.append("let %s ← Cur.forIdx %s %s %s" % (tup(names), bound, tup(names), bname))
        else:
            out.append("let %s ← Cur.forIdx %s %s (%s(do" % (tup(names), bound, tup(names), pat))
            out.extend("    " + l for l in sub)
            out[-1] += "))"
        for p, nm in zip(state, names):
            env.vals[p] = V(nm, "bits" if is_scalar(self.kind_of(p, env)) else "obj")
        env.noread = False

    def kind_of(self, path, env):
        root = path.split(".")[0]
        k = env.decl[root]
        if "." in path:
            return leaf(k[7:], path.split(".", 1)[1])[1]
        return k

    def range_for(self, s, env, out):
        """v.resize(n); for (auto& e : v) { assignments to e's members }"""
        parts = s.get("inner") or []
        if len(parts) != 8 or (parts[0] and parts[0].get("kind")):
            raise Unsupported("range-for shape", s)
        rng, loopvar, body = parts[1], parts[6], parts[7]
        lvv = self.lvalue(kids(kids(rng)[0])[0], env)
        if lvv[0] != "path" or not lvv[2].startswith("vec:struct:") or env.vals.get(lvv[1], ("", ""))[1] != "sized":
            raise Unsupported("range-for over a vector that was not just resized", s)
        vpath, vty = lvv[1], lvv[2]
        count = re.fullmatch(r"<resized (.*)>", env.vals[vpath][0]).group(1)
        lv = kids(loopvar)[0]
        if "&" not in lv["type"]["qualType"] or "const" in lv["type"]["qualType"]:
            raise Unsupported("range-for variable is not a mutable reference", lv)
        ename = lv["name"]
        ek = vty[4:]
        if ctype(lv) != ek or ename in env.decl:
            raise Unsupported("range-for element", lv)
        inner = env.copy()
        inner.decl[ename] = ek
        self.init_paths(ename, ek, inner, True, lv)     # resize() value-initialises: default member initialisers
        sub = []

        def tail(e, o, r):
            self.no_return(r)
            o.append("pure %s" % self.build(ename, ek, e, s))
        self.stmts(self.block(body), inner, sub, tail)
        for p, v in inner.vals.items():
            if p.split(".")[0] in env.decl and env.vals.get(p) != v:
                raise Unsupported("loop body assigns the outer variable " + p, body)
        name = lean_ident(vpath)
        toks = set(re.findall(r"[A-Za-z_][A-Za-z_0-9']*", " ".join(sub)))
        if self.outer_names(env) & toks:
            raise Unsupported("range-for body uses outer locals", body)
        out.append("let %s ← Cur.forEach %s %s" % (name, self.hoist("Cur %s" % lean_ty(ek), sub), count))
        env.vals[vpath] = V(name, "obj")
        env.noread = False

    def while_stmt(self, s, env, out):
        """while (ptr != end) { ...; ptr++; }"""
        cond, body = kids(s)
        c = unwrap(cond)
        if c.get("kind") != "BinaryOperator" or c.get("opcode") != "!=" or \
                {declref_name(kids(c)[0]), declref_name(kids(c)[1])} != {env.ptr, env.end} or env.end is None:
            raise Unsupported("while condition is not ptr != end", cond)
        inner = env.copy()
        sub = []
        self.stmts(self.block(body), inner, sub, lambda e, o, r: self.no_return(r))
        if inner.vals != env.vals or set(inner.decl) != set(env.decl):
            raise Unsupported("while body changes a variable", body)
        sub.append("pure ()")
        out.append("Cur.whileNotEnd %s" % self.hoist("Cur Unit", sub))
        env.noread = False

    def try_stmt(self, s, env, out):
        """try { decls; std::tie(x, ptr) = helper(ptr, end); ...; outer = std::move(x); } catch (const E&) { }"""
        parts = kids(s)
        if len(parts) != 2 or parts[1].get("kind") != "CXXCatchStmt":
            raise Unsupported("try with several handlers", s)
        tryb, catch = parts
        cparts = kids(catch)
        cvar = [x for x in cparts if x.get("kind") == "VarDecl"]
        cbody = [x for x in cparts if x.get("kind") == "CompoundStmt"]
        if len(cvar) != 1 or len(cbody) != 1 or [x for x in kids(cbody[0]) if not self.is_noop(x)]:
            raise Unsupported("catch handler is not empty", catch)
        et = norm_type(qtype(cvar[0]))
        if et not in EXN:
            raise Unsupported("catch of " + et, catch)
        pred = "(fun e => e == %s)" % EXN[et]
        # pass 1: which outer variables does the block assign?
        probe = env.copy()
        self.try_body(self.block(tryb), probe, [], None, None)
        joined = [p for p in probe.vals if p.split(".")[0] in env.decl and probe.vals[p] != env.vals.get(p)]
        for p in joined:
            if p not in env.vals:
                raise Unsupported("variable %s is assigned only inside try" % p, s)
        tup = lambda xs: "()" if not xs else xs[0] if len(xs) == 1 else "(" + ", ".join(xs) + ")"
        inner = env.copy()
        sub = []
        handler = lambda e: "(pure %s)" % tup([self.bits(e.vals[p], self.kind_of(p, env)) for p in joined])
        depth = self.try_body(self.block(tryb), inner, sub, pred, handler)
        sub.append("pure %s" % tup([self.bits(inner.vals[p], self.kind_of(p, env)) for p in joined]) + ")" * depth)
        names = [lean_ident(p) for p in joined]
        out.append("let %s ← (do" % (tup(names) if names else "_"))
        level = 0
        for l in sub:
            out.append("    " + "  " * level + l)
            if l.startswith("Cur.catchStmt"):
                level += 1
        out[-1] += ")"
        for p, nm in zip(joined, names):
            env.vals[p] = V(nm, "bits" if is_scalar(self.kind_of(p, env)) else "obj")
        env.noread = False

    def try_body(self, body, env, out, pred, handler):
        """statements of a try block; a call that may throw the caught class becomes `Cur.catchStmt` whose handler
        returns the joined variables as they are at that point (the cursor stays where the statement began)"""
        depth = 0
        for raw in [x for x in body if not self.is_noop(x)]:
            s = unwrap(raw)
            k = s.get("kind")
            if k == "DeclStmt":
                for v in kids(s):
                    if v.get("kind") != "VarDecl" or [c for c in kids(v) if c.get("kind") not in ("CXXConstructExpr",)] or \
                            [a for c in kids(v) for a in kids(c) if a.get("kind") != "CXXDefaultArgExpr"]:
                        raise Unsupported("declaration inside try", v)
                    self.var_decl(v, env, out)
            elif k == "CXXOperatorCallExpr" and callee_name(s) == "operator=":
                tgt = unwrap(kids(s)[1])
                if tgt.get("kind") == "CallExpr" and callee_name(tgt) == "tie":
                    rhs = unwrap(kids(s)[2])
                    f = callee_name(rhs) if rhs.get("kind") == "CallExpr" else None
                    if f in HELPERS and handler is not None:
                        h = handler(env)

                        def catch(name, lean, h=h):
                            out.append("Cur.catchStmt %s %s %s (fun %s => do" % (lean, pred, h, name))
                        self.tie_assign(s, env, out, catch=catch)
                        depth += 1
                    elif f in HELPERS or f in PRIM_DEC:
                        self.tie_assign(s, env, out)
                    else:
                        raise Unsupported("call inside try: " + str(f), s)
                else:
                    self.plain_assign(kids(s)[1], kids(s)[2], env, out, s)
            else:
                raise Unsupported("statement inside try: " + str(k), s)
        return depth

    # ---- functions -------------------------------------------------------
    def ret(self, env, out, r):
        fn = self.fn
        if r is None:
            raise Unsupported("function falls off the end", None)
        v = unwrap(kids(r)[0])
        if fn["mode"] == "decode":
            while v.get("kind") == "CXXConstructExpr" and len(kids(v)) == 1:
                v = unwrap(kids(v)[0])
            lv = self.lvalue(v, env)
            if lv[0] != "path" or lv[2] != "struct:" + fn["struct"]:
                raise Unsupported("return of " + str(lv), r)
            out.append("pure %s" % self.build(lv[1], lv[2], env, r))
            return
        # helper: return {value, ptr}
        while v.get("kind") in ("CXXConstructExpr", "InitListExpr") and len(kids(v)) == 1:
            v = unwrap(kids(v)[0])
        if v.get("kind") not in ("CXXConstructExpr", "InitListExpr") or len(kids(v)) != 2:
            raise Unsupported("return value is not {value, ptr}", r)
        a, b = kids(v)
        self.ptr_arg(b, env, "ptr")
        a = unwrap(a)
        while a.get("kind") in ("CXXConstructExpr", "MaterializeTemporaryExpr") and len(kids(a)) == 1:
            a = unwrap(kids(a)[0])
        if a.get("kind") == "CallExpr" and callee_name(a) == "move":
            a = unwrap(kids(a)[1])
        if a.get("kind") in ("InitListExpr", "CXXConstructExpr") and not kids(a) and ctype(a) == fn["ret"]:
            out.append("pure ([] : %s)" % lean_ty(fn["ret"]))
            return
        lv = self.lvalue(a, env)
        if lv[0] != "path" or lv[2] != fn["ret"]:
            raise Unsupported("return of " + str(lv), r)
        out.append("pure %s" % self.build(lv[1], lv[2], env, r))

    def function(self, decl):
        fn = self.fn
        params = [p for p in kids(decl) if p.get("kind") == "ParmVarDecl"]
        body = [c for c in kids(decl) if c.get("kind") == "CompoundStmt"][0]
        env = Env()
        out = []
        if fn["mode"] == "decode":
            if len(params) != 1 or ctype(params[0]) != "bytes":
                raise Unsupported("decode signature", decl)
            fn["_param"] = params[0]["name"]
            self.stmts(kids(body), env, out, lambda e, o, r: self.ret(e, o, r))
            head = "def %s : Bytes → Res %s := Cur.fromBlob (do" % (fn["lean"], STRUCTS[fn["struct"]]["ty"])
        else:
            if len(params) != 2 or ctype(params[0]) != "ptr" or ctype(params[1]) != "ptr":
                raise Unsupported("helper signature", decl)
            env.ptr, env.end = params[0]["name"], params[1]["name"]
            env.noread = False
            self.stmts(kids(body), env, out, lambda e, o, r: self.ret(e, o, r))
            head = "def %s : Cur %s := (do" % (fn["lean"], lean_ty(fn["ret"]))
        out[-1] = out[-1] + ")"
        res = []
        for bname, params_, bty, sub in self.aux:
            res += ["def %s%s : %s := (do" % (bname, params_, bty)] + ["  " + l for l in sub]
            res[-1] += ")"
            res.append("")
        return res + [head] + ["  " + l for l in out]


# ---------------------------------------------------------------- functions to translate, in dependency order
FUNCS = [
    dict(lean="decodeTrack", filt="track_data::decode", mode="decode", struct="track_data"),
    dict(lean="decodeOvw", filt="overview_waveform_data::decode", mode="decode", struct="overview_waveform_data"),
    dict(lean="decodeHires", filt="high_res_waveform_data::decode", mode="decode", struct="high_res_waveform_data"),
    dict(lean="decodeCues", filt="quick_cues_data::decode", mode="decode", struct="quick_cues_data"),
    dict(lean="decodeLoops", filt="loops_data::decode", mode="decode", struct="loops_data"),
    dict(lean="decodeGrid", filt="decode_beatgrid", mode="helper", cname="decode_beatgrid",
         ret="vec:struct:beatgrid_marker"),
    dict(lean="decodeBeat", filt="beat_data::decode", mode="decode", struct="beat_data"),
    dict(lean="encodeTrack", filt="track_data::encode", mode="encode", struct="track_data"),
    dict(lean="encodeOvw", filt="overview_waveform_data::encode", mode="encode", struct="overview_waveform_data"),
    dict(lean="encodeHires", filt="high_res_waveform_data::encode", mode="encode", struct="high_res_waveform_data"),
    dict(lean="encodeCues", filt="quick_cues_data::encode", mode="encode", struct="quick_cues_data"),
    dict(lean="encodeLoops", filt="loops_data::encode", mode="encode", struct="loops_data"),
    dict(lean="validateGrid", filt="validate_beatgrid", mode="validator", cname="validate_beatgrid",
         arg="vec:struct:beatgrid_marker"),
    dict(lean="encodeGrid", filt="encode_beatgrid", mode="enc_helper", cname="encode_beatgrid",
         arg="vec:struct:beatgrid_marker"),
    dict(lean="encodeBeat", filt="beat_data::encode", mode="encode", struct="beat_data"),
]
HELPERS = {f["cname"]: f for f in FUNCS if f["mode"] == "helper"}
ENC_HELPERS = {f["cname"]: f for f in FUNCS if f["mode"] == "enc_helper"}
VALIDATORS = {f["cname"]: f for f in FUNCS if f["mode"] == "validator"}


# ---------------------------------------------------------------- checks of what the tables assume

def field_defaults(doc):
    """FieldDecls of a complete record definition -> {name: literal initialiser or None}"""
    res = {}
    for c in kids(doc):
        if c.get("kind") == "FieldDecl":
            ini = [x for x in kids(c) if not x.get("kind", "").endswith("Comment")]
            v = None
            if ini:
                e = unwrap(ini[-1])
                v = int_literal(e)
                if v is None and e.get("kind") == "ImplicitCastExpr" and e.get("castKind") == "IntegralToFloating":
                    v = int_literal(kids(e)[0])
                if v is None:
                    v = "?"
            res[c["name"]] = v
    return res


def check_defaults():
    """The default member initialisers in STRUCTS must be those of the record declarations."""
    lit = {"(0 : UInt8)": 0, "(255 : UInt8)": 255, "(0 : UInt32)": 0, "F64.zero": 0}
    for sname, hdr in RECORD_DECLS.items():
        docs = clang_ast(os.path.join(REPO, SRC), sname)
        recs = [d for d in docs if d.get("kind") == "CXXRecordDecl" and d.get("name") == sname
                and d.get("completeDefinition")]
        if len(recs) != 1:
            raise Unsupported("record %s not found (%d)" % (sname, len(recs)), where=hdr)
        got = field_defaults(recs[0])
        for lp, lk, _, dflt in leaves_of(sname):
            if "." in lp or lk.startswith(("vec:", "opt:")) or lk == "string":
                continue
            want = lit.get(dflt, "none")
            if lp not in got or got[lp] != want:
                raise Unsupported("default initialiser of %s::%s is %r, table says %r" % (sname, lp, got.get(lp), want), where=hdr)


def check_prohibit():
    """`prohibit(sentinel, data)` must be: if (data == sentinel) return nullopt; return make_optional(forward(data));"""
    docs = clang_ast(os.path.join(REPO, SRC), "prohibit")
    tmpl = [d for d in docs if d.get("kind") == "FunctionTemplateDecl" and d.get("name") == "prohibit"]
    if len(tmpl) != 1:
        raise Unsupported("prohibit template not found", where=SRC)
    fd = [c for c in kids(tmpl[0]) if c.get("kind") == "FunctionDecl"][0]
    ps = [p["name"] for p in kids(fd) if p.get("kind") == "ParmVarDecl"]
    body = [c for c in kids(fd) if c.get("kind") == "CompoundStmt"][0]
    st = kids(body)

    def shape(n):
        n = unwrap(n)
        k = n.get("kind")
        if k == "DeclRefExpr":
            return n["referencedDecl"].get("name")
        if k in ("UnresolvedLookupExpr",):
            return n.get("name")
        return (k, n.get("opcode")) + tuple(shape(c) for c in kids(n))
    want_if = ("IfStmt", None, ("CXXOperatorCallExpr", None, "operator==", ps[1], ps[0]),
               ("CompoundStmt", None, ("ReturnStmt", None, "nullopt")))
    ok = len(ps) == 2 and len(st) == 2 and shape(st[0]) == want_if and unwrap(st[1]).get("kind") == "ReturnStmt"
    if ok:
        r = shape(kids(unwrap(st[1]))[0])
        flat = json.dumps(r)
        ok = "make_optional" in flat and ps[1] in flat and ps[0] not in flat.replace(ps[1], "")
    if not ok:
        raise Unsupported("prohibit() has an unexpected body", where=SRC)


# ---------------------------------------------------------------- driver

def translate_one(fn, facts):
    src = os.path.join(REPO, SRC)
    docs = clang_ast(src, fn["filt"])
    defs = []
    for d in docs:
        annotate(d, SRC)
        if d.get("kind") in ("CXXMethodDecl", "FunctionDecl") and any(c.get("kind") == "CompoundStmt" for c in kids(d)) \
                and d.get("name") == fn["filt"].split("::")[-1]:
            defs.append(d)
    if len(defs) != 1:
        raise Unsupported("definition of %s not found (%d candidates)" % (fn["filt"], len(defs)), where=SRC)
    f = dict(fn)
    f.update(facts)
    if fn["mode"] in ("encode", "enc_helper", "validator"):
        return Enc(f).function(defs[0])
    return Dec(f).function(defs[0])


HEADER = """/- GENERATED by tools/tr_blobs_v1.py from src/djinterop/engine/v1/performance_data_format.cpp — do not edit.
   One block per translated C++ function; a function outside the translator's fragment keeps
   its previous block (see the translator's status line in the evidence). -/
import EngineModel.Impl.CursorCxxV1
import EngineModel.Impl.CxxPrims
import EngineModel.Impl.V1

namespace EngineModel.Gen.ImplV1
open EngineModel
"""
FOOTER = "end EngineModel.Gen.ImplV1\n"


def old_blocks():
    try:
        txt = open(TARGET).read()
    except OSError:
        return {}
    return {m.group(1): m.group(2) for m in re.finditer(r"-- BEGIN (\w+)[^\n]*\n(.*?)-- END \1\n", txt, re.S)}


def translate_all(only=None):
    funcs = [f for f in FUNCS if only is None or f["lean"] in only]
    facts, pre_err = {}, None
    try:
        check_defaults()
    except Unsupported as e:
        pre_err = e
    try:
        check_prohibit()
        facts["_prohibit_ok"] = True
    except Unsupported as e:
        facts["_prohibit_ok"] = False

    def work(fn):
        if pre_err is not None:
            return fn, None, pre_err
        try:
            return fn, translate_one(fn, facts), None
        except Unsupported as e:
            return fn, None, e
        except (KeyError, IndexError, TypeError, ValueError, AttributeError) as e:   # unexpected AST shape
            return fn, None, Unsupported("ast-shape %r" % (e,), where=SRC)
    with ThreadPoolExecutor(max_workers=6) as ex:
        return list(ex.map(work, funcs))


def main():
    only = set(sys.argv[2].split(",")) if sys.argv[1:2] == ["--only"] else None
    res = translate_all(only)
    old = old_blocks()
    parts, problems, kept = [HEADER], [], []
    done = {}
    for fn, lines, err in res:
        done[fn["lean"]] = (lines, err)
    for fn in FUNCS:
        name = fn["lean"]
        lines, err = done.get(name, (None, "skipped"))
        if lines is not None:
            block = "\n".join(lines) + "\n"
        else:
            if err != "skipped":
                problems.append("unsupported-node: %s [%s]" % (err, name))
            block = old.get(name)
            if block is None:
                continue          # never translated: the hand model stands alone
            if err != "skipped":
                kept.append(name)
        parts.append("-- BEGIN %s  (%s)\n%s-- END %s\n" % (name, SRC, block, name))
    parts.append(FOOTER)
    txt = "\n".join(parts)
    prev = open(TARGET).read() if os.path.exists(TARGET) else None
    if prev != txt:
        open(TARGET, "w").write(txt)
    status = "translator: regenerated (%s)" % ("identical" if prev == txt else "changed")
    if problems:
        status += "; " + "; ".join(problems) + ("; kept previous translation of: " + ", ".join(kept) if kept else "")
    print(status)
    return 2 if problems else 0


# ---------------------------------------------------------------- encoder translation (Wr monad)

class EV:
    """term + kind (+ monadic prelude).  kinds: u8 i32 i64 f64 key (bit patterns), bool, char, u64 (Nat value),
    i64v / i32v (Int value), string, bytes, opt:<k>, vec:<k>, struct:<S>."""
    def __init__(self, term, kind, pre=None):
        self.term, self.kind, self.pre = term, kind, list(pre or [])


class Enc:
    def __init__(self, fn):
        self.fn = fn
        self.holder = None
        self.locals = {}       # C++ name -> EV
        self.engaged = {}      # Lean term of an optional -> Lean name of its value (inside `if (opt)`)
        self.idx = {}          # loop counter -> Lean Nat name
        self.buf = self.ptr = self.end = None
        self.size = self.size_term = None
        self.aux = []
        self.tmp = 0
        self.pre_calls = []

    def fresh(self):
        self.tmp += 1
        return "t%d" % self.tmp

    is_noop = T2.Dec.is_noop
    throw_class = Dec.throw_class
    block = Dec.block

    # ---- lvalues
    def lv(self, n):
        root, names = member_chain(n)
        k = root.get("kind")
        base = None
        if k == "DeclRefExpr":
            nm = root["referencedDecl"]["name"]
            if nm not in self.locals:
                raise Unsupported("unknown variable " + nm, n)
            base = self.locals[nm]
        elif k == "MemberExpr" and root.get("isArrow"):
            b = unwrap(kids(root)[0])
            if b.get("kind") == "CXXThisExpr":
                if not self.holder:
                    raise Unsupported("`this` outside a member function", n)
                base = EV(self.holder[1], "struct:" + self.holder[0])
                names = [root.get("name")] + names
            elif b.get("kind") == "CXXOperatorCallExpr" and callee_name(b) == "operator->":
                o = self.lv(kids(b)[1])
                base = self.deref(o, n)
                names = [root.get("name")] + names
            else:
                raise Unsupported("-> on " + str(b.get("kind")), n)
        elif k == "CXXOperatorCallExpr" and callee_name(root) == "operator*":
            base = self.deref(self.lv(kids(root)[1]), n)
        elif k == "CXXOperatorCallExpr" and callee_name(root) == "operator[]":
            vec = self.lv(kids(root)[1])
            if not vec.kind.startswith("vec:struct:"):
                raise Unsupported("indexing a " + vec.kind, n)
            i = self.index_term(kids(root)[2])
            t = self.fresh()
            base = EV(t, vec.kind[4:], vec.pre + ["let %s ← Wr.lift (Cxx.vecGet %s %s)" % (t, vec.term, i)])
        else:
            raise Unsupported("lvalue " + str(k), n)
        if not names:
            return base
        if not base.kind.startswith("struct:"):
            raise Unsupported("member of a " + base.kind, n)
        sname = base.kind[7:]
        lp = ".".join(names)
        l = leaf(sname, lp)
        if l is None:
            if all(x in STRUCTS[sname].get("sub", {}) for x in names[:1]) and len(names) == 1:
                raise Unsupported("whole sub-struct " + lp, n)
            raise Unsupported("unknown member %s of %s" % (lp, sname), n)
        if ctype(unwrap(n)) != l[1]:
            raise Unsupported("member %s.%s has C++ type %s, table says %s" % (sname, lp, ctype(unwrap(n)), l[1]), n)
        return EV(proj(sname, base.term, lp), l[1], base.pre)

    def deref(self, o, n):
        if not o.kind.startswith("opt:") or o.term not in self.engaged:
            raise Unsupported("dereference of an optional that is not known to be engaged", n)
        return EV(self.engaged[o.term], o.kind[4:], o.pre)

    def index_term(self, n):
        n = unwrap(n)
        nm = declref_name(n)
        if nm in self.idx:
            return self.idx[nm]
        if n.get("kind") == "BinaryOperator" and n.get("opcode") in ("+", "-"):
            a, b = kids(n)
            an, bv = declref_name(a), int_literal(b)
            if an in self.idx and bv is not None and ctype(n) == "u64":
                return "(Cxx.U64.%s %s %d)" % ("add" if n["opcode"] == "+" else "sub", self.idx[an], bv)
        raise Unsupported("vector index", n)

    # ---- expressions
    def as_val(self, v):
        if v.kind == "i64":
            return EV("(Prim.s64 %s)" % v.term, "i64v", v.pre)
        if v.kind in ("i32", "key"):
            return EV("(Prim.s32 %s)" % v.term, "i32v", v.pre)
        return v

    def cast(self, v, dt, node):
        if v.kind == dt or (v.kind, dt) in (("i64v", "i64"), ("i32v", "i32")):
            return v
        v = self.as_val(v)
        sk, p = v.kind, v.pre
        if dt == "u64":
            if sk in ("i64v", "i32v"):
                return EV("(Cxx.u64OfInt %s)" % v.term, "u64", p)
            if sk in ("u8", "char"):
                return EV("%s.toNat" % v.term, "u64", p)
        if dt == "i64":
            if sk == "u64":
                return EV("(Cxx.i64OfU64 %s)" % v.term, "i64v", p)
            if sk == "i32v":
                return EV(v.term, "i64v", p)
            if sk in ("u8", "char"):
                return EV("(%s.toNat : Int)" % v.term, "i64v", p)
            if sk == "i64v":
                return v
        if dt == "i32":
            if sk == "u8":
                return EV("(%s.toNat : Int)" % v.term, "i32v", p)
            if sk == "i32v":
                return v
        if dt == "u8":
            if sk == "u64":
                return EV("(UInt8.ofNat %s)" % v.term, "u8", p)
            if sk == "char":
                return EV(v.term, "u8", p)
            if sk == "bool":
                return EV("(if %s then (1 : UInt8) else 0)" % v.term, "u8", p)
            if sk == "i32v":
                lit = re.fullmatch(r"\((\d+) : Int\)", v.term)
                if lit and int(lit.group(1)) < 256:
                    return EV("(%s : UInt8)" % lit.group(1), "u8", p)
                return EV("(UInt8.ofNat (Cxx.u64OfInt %s))" % v.term, "u8", p)
        if dt == "f64" and sk in ("i32v", "i64v"):
            lit = re.fullmatch(r"\((-?\d+) : Int\)", v.term)
            if lit and int(lit.group(1)) in F64_LIT:
                return EV(F64_LIT[int(lit.group(1))], "f64", p)
        raise Unsupported("conversion %s -> %s" % (sk, dt), node)

    def engaged_test(self, c):
        """`opt` in a boolean context -> the optional's EV, else None"""
        c = unwrap(c)
        if c.get("kind") == "ImplicitCastExpr" and c.get("castKind") == "UserDefinedConversion":
            c = unwrap(kids(c)[0])
        if c.get("kind") == "CXXMemberCallExpr":
            m = unwrap(kids(c)[0])
            if "operator bool" in (m.get("name") or ""):
                o = self.lv(kids(m)[0])
                if o.kind.startswith("opt:") and not o.pre:
                    return o
        return None

    def with_engaged(self, o, f):
        nm = re.sub(r"\W", "_", o.term).strip("_") + "_v"
        saved = dict(self.engaged)
        self.engaged[o.term] = nm
        try:
            return nm, f()
        finally:
            self.engaged = saved

    def expr(self, n):
        n = unwrap(n)
        k = n.get("kind")
        lit = int_literal(n)
        t = ctype(n)
        if lit is not None and t in ("i32", "i64", "u64"):
            return EV("(%d : %s)" % (lit, "Nat" if t == "u64" else "Int"), {"i32": "i32v", "i64": "i64v", "u64": "u64"}[t])
        if lit is not None and t == "u8":
            return EV("(%d : UInt8)" % lit, "u8")
        if k == "InitListExpr" and len(kids(n)) == 1 and t in ("i32", "i64", "u64"):
            return self.cast(self.expr(kids(n)[0]), t, n)
        if k in ("ImplicitCastExpr", "CXXStaticCastExpr", "CStyleCastExpr", "CXXFunctionalCastExpr"):
            ck = n.get("castKind")
            sub = kids(n)[0]
            if ck == "LValueToRValue":
                nm = declref_name(sub)
                if nm in self.idx:
                    return EV(self.idx[nm], "u64")
                if unwrap(sub).get("kind") == "CallExpr":
                    return self.expr(sub)
                v = self.lv(sub)
                if v.kind.startswith(("struct:", "vec:", "opt:")) or v.kind in ("string", "bytes"):
                    raise Unsupported("rvalue of a " + v.kind, n)
                return v
            if ck == "NoOp":
                return self.expr(sub)
            if ck in ("IntegralCast", "IntegralToFloating"):
                return self.cast(self.expr(sub), t, n)
            raise Unsupported("cast " + str(ck), n)
        if k in ("DeclRefExpr", "MemberExpr"):
            return self.lv(n)
        if k == "UnaryOperator" and n.get("opcode") == "-" and t == "f64":
            v = self.expr(kids(n)[0])
            if v.term == "F64.one":
                return EV("F64.negOne", "f64")
        if k == "CXXMemberCallExpr":
            m = unwrap(kids(n)[0])
            mn = m.get("name")
            if mn in ("size", "length") and len(kids(n)) == 1 and t == "u64":
                obj = unwrap(kids(m)[0])
                if declref_name(obj) == self.buf and self.buf:
                    return EV(self.size, "u64")
                v = self.lv(obj)
                if v.kind.startswith("vec:") or v.kind in ("string", "bytes"):
                    return EV("(List.length %s)" % v.term, "u64", v.pre)
            if mn == "value_or" and len(kids(n)) == 2:
                o = self.lv(kids(m)[0])
                if o.kind == "opt:" + t and not o.pre:
                    d = self.cast(self.expr(kids(n)[1]), t, n)
                    dterm = d.term if d.kind == t else "(Prim.u%sOfInt %s)" % ("64" if t == "i64" else "32", d.term)
                    return EV("(Option.getD %s %s)" % (o.term, dterm), t)
            raise Unsupported("member call " + str(mn), n)
        if k == "ConditionalOperator":
            c, a, b = kids(n)
            o = self.engaged_test(c)
            if o is not None:
                nm, va = self.with_engaged(o, lambda: self.expr(a))
                vb = self.expr(b)
                va, vb = self.unify(va, vb, t, n)
                if va.pre or vb.pre:
                    raise Unsupported("conditional with effects", n)
                return EV("(match %s with | some %s => %s | none => %s)" % (o.term, nm, va.term, vb.term), va.kind)
            vc = self.expr(c)
            va, vb = self.unify(self.expr(a), self.expr(b), t, n)
            if vc.kind != "bool" or va.pre or vb.pre:
                raise Unsupported("conditional operator", n)
            return EV("(if %s then %s else %s)" % (vc.term, va.term, vb.term), va.kind, vc.pre)
        if k == "BinaryOperator":
            return self.binop(n)
        if k == "CallExpr":
            f = callee_name(n)
            args = kids(n)[1:]
            if f == "accumulate":
                return self.accumulate(n)
            if f == "max" and len(args) == 2 and t == "u8":
                a, b = self.expr(args[0]), self.expr(args[1])
                if a.kind == b.kind == "u8":
                    # std::max(a, b) = (a < b) ? b : a
                    return EV("(if %s < %s then %s else %s)" % (a.term, b.term, b.term, a.term), "u8", a.pre + b.pre)
            raise Unsupported("call " + str(f), n)
        raise Unsupported("expression " + str(k), n)

    def unify(self, va, vb, t, node):
        tt = {"i32": "i32", "i64": "i64", "u64": "u64", "u8": "u8", "f64": "f64"}.get(t)
        if tt is None:
            raise Unsupported("conditional of type " + t, node)
        return self.cast(va, tt, node), self.cast(vb, tt, node)

    def binop(self, n):
        op = n["opcode"]
        a, b = [self.as_val(self.expr(x)) for x in kids(n)]
        pre = a.pre + b.pre
        if op in ("||", "&&") and a.kind == b.kind == "bool":
            if b.pre:
                raise Unsupported("effect in the right operand of " + op, n)
            return EV("(%s %s %s)" % (a.term, op, b.term), "bool", pre)
        if a.kind != b.kind:
            raise Unsupported("operands of %s have kinds %s, %s" % (op, a.kind, b.kind), n)
        if op in ("<", ">", "<=", ">=", "==", "!="):
            lop = {"<": "<", ">": ">", "<=": "≤", ">=": "≥", "==": "=", "!=": "≠"}[op]
            if a.kind in ("u64", "i64v", "i32v"):
                return EV("(decide (%s %s %s))" % (a.term, lop, b.term), "bool", pre)
            if a.kind == "f64":
                f = {"<": "F64.lt", ">": "F64.lt", "<=": "F64.le", ">=": "F64.le", "==": "F64.eq", "!=": "F64.ne"}[op]
                x, y = (b.term, a.term) if op in (">", ">=") else (a.term, b.term)
                return EV("(%s %s %s)" % (f, x, y), "bool", pre)
            raise Unsupported("comparison on " + a.kind, n)
        if op in ("+", "-", "*") and a.kind == "u64":
            f = {"+": "add", "-": "sub", "*": "mul"}[op]
            return EV("(Cxx.U64.%s %s %s)" % (f, a.term, b.term), "u64", pre)
        if op in ("+", "-", "*") and a.kind in ("i64v", "i32v"):
            t = self.fresh()
            chk = "Wr.chkI64" if a.kind == "i64v" else "Wr.chkI32"
            return EV(t, a.kind, pre + ["let %s ← %s (%s %s %s)" % (t, chk, a.term, op, b.term)])
        raise Unsupported("operator %s on %s" % (op, a.kind), n)

    def accumulate(self, n):
        """std::accumulate(V.begin(), V.end(), T{0}, [](T x, const E& e) { return <expr>; })"""
        args = kids(n)[1:]
        if len(args) != 4:
            raise Unsupported("accumulate arity", n)

        def rng(a, which):
            a = unwrap(a)
            m = unwrap(kids(a)[0]) if a.get("kind") == "CXXMemberCallExpr" and len(kids(a)) == 1 else {}
            if m.get("name") != which:
                raise Unsupported("accumulate range", a)
            return self.lv(kids(m)[0])
        v1, v2 = rng(args[0], "begin"), rng(args[1], "end")
        if v1.term != v2.term or not v1.kind.startswith("vec:") or v1.pre:
            raise Unsupported("accumulate over something other than one vector", n)
        acc_t = ctype(n)
        if acc_t not in ("i64", "u64"):
            raise Unsupported("accumulator type " + acc_t, n)
        init = self.cast(self.expr(args[2]), acc_t, n)
        lam = unwrap(args[3])
        if lam.get("kind") != "LambdaExpr":
            raise Unsupported("accumulate operation is not a lambda", lam)
        rec = [c for c in kids(lam) if c.get("kind") == "CXXRecordDecl"][0]
        call = [c for c in kids(rec) if c.get("kind") == "CXXMethodDecl" and c.get("name") == "operator()"][0]
        ps = [c for c in kids(call) if c.get("kind") == "ParmVarDecl"]
        body = [c for c in kids(call) if c.get("kind") == "CompoundStmt"][0]
        ek = v1.kind[4:]
        if len(ps) != 2 or ctype(ps[0]) != acc_t or ctype(ps[1]) != ek:
            raise Unsupported("lambda parameters", lam)
        st = [c for c in kids(body) if not self.is_noop(c)]
        if len(st) != 1 or st[0].get("kind") != "ReturnStmt":
            raise Unsupported("lambda body is not a single return", body)
        saved = dict(self.locals)
        xn, en = lean_ident(ps[0]["name"]), lean_ident(ps[1]["name"])
        self.locals[ps[0]["name"]] = EV(xn, "i64v" if acc_t == "i64" else "u64")
        self.locals[ps[1]["name"]] = EV(en, ek)
        try:
            rty = norm_type(call["type"]["qualType"].split("(")[0])
            r = self.cast(self.expr(kids(st[0])[0]), ctype(rty), st[0])
            r = self.cast(r, acc_t, st[0])
        finally:
            self.locals = saved
        if r.pre:
            raise Unsupported("effect in lambda", lam)
        lt = "Int" if acc_t == "i64" else "Nat"
        return EV("(List.foldl (fun (%s : %s) (%s : %s) => %s) %s %s)" %
                  (xn, lt, en, lean_ty(ek), r.term, init.term, v1.term), "i64v" if acc_t == "i64" else "u64")

    def to_bits(self, v, pt, node):
        if v.kind == pt and pt in ("u8", "i32", "i64", "f64"):
            return v.term
        if pt == "i64":
            v2 = self.cast(v, "i64", node)
            return "(Prim.u64OfInt %s)" % v2.term if v2.kind == "i64v" else v2.term
        if pt == "i32":
            v2 = self.cast(v, "i32", node)
            return "(Prim.u32OfInt %s)" % v2.term if v2.kind == "i32v" else v2.term
        if pt in ("u8", "f64"):
            return self.cast(v, pt, node).term
        raise Unsupported("argument of kind %s for a %s parameter" % (v.kind, pt), node)

    # ---- statements
    def is_ptr(self, a):
        return self.ptr is not None and declref_name(a) == self.ptr

    def cond(self, c, node):
        v = self.expr(c)
        if v.kind != "bool":
            raise Unsupported("condition of kind " + v.kind, node)
        return v

    def is_ptr_ne_end(self, c):
        c = unwrap(c)
        return (c.get("kind") == "BinaryOperator" and c.get("opcode") == "!=" and self.end is not None and
                {declref_name(kids(c)[0]), declref_name(kids(c)[1])} == {self.ptr, self.end})

    def stmts(self, body, out, top):
        body = [x for x in body if not self.is_noop(x)]
        for i, raw in enumerate(body):
            s = unwrap(raw)
            k = s.get("kind")
            last = i == len(body) - 1
            if k == "DeclStmt":
                for v in kids(s):
                    if v.get("kind") == "TypeAliasDecl":
                        continue
                    self.var_decl(v, out)
            elif k == "BinaryOperator" and s.get("opcode") == "=":
                self.assign(s, out)
            elif k == "CXXForRangeStmt":
                self.range_for(s, out)
            elif k == "ForStmt":
                self.for_stmt(s, out)
            elif k == "IfStmt":
                self.if_stmt(s, out)
            elif k == "CallExpr" and callee_name(s) in VALIDATORS:
                v = self.lv(kids(s)[1])
                if v.kind != VALIDATORS[callee_name(s)]["arg"] or v.pre:
                    raise Unsupported("validator argument", s)
                out.append("%s %s" % (VALIDATORS[callee_name(s)]["lean"], v.term))
            elif k == "ReturnStmt":
                if not (top and last):
                    raise Unsupported("return before the end", s)
                return s
            else:
                raise Unsupported(str(k), s)
        return None

    def assign(self, s, out):
        a, b = kids(s)
        b = unwrap(b)
        if self.is_ptr(a):
            if b.get("kind") != "CallExpr":
                raise Unsupported("assignment to the cursor other than ptr = encode_x(.., ptr)", s)
            f = callee_name(b)
            args = kids(b)[1:]
            if len(args) != 2 or not self.is_ptr(args[1]):
                raise Unsupported("writer call whose last argument is not the cursor", b)
            if f in PRIM_ENC:
                v = self.expr(args[0])
                bits = self.to_bits(v, PRIM_ENC[f], b)
                out.extend(v.pre)
                out.append("Wr.put (%s%s %s)" % (PRIMS, f, bits))
            elif f in ENC_HELPERS:
                v = self.lv(args[0])
                if v.kind != ENC_HELPERS[f]["arg"] or v.pre:
                    raise Unsupported("%s of a %s" % (f, v.kind), b)
                out.append("%s %s" % (ENC_HELPERS[f]["lean"], v.term))
            else:
                raise Unsupported("call " + str(f), b)
            return
        nm = declref_name(a)
        if nm in self.locals and unwrap(a).get("kind") == "DeclRefExpr":
            old = self.locals[nm]
            kind = {"i32v": "i32", "i64v": "i64"}.get(old.kind, old.kind)
            v = self.cast(self.expr(b), kind, s)
            out.extend(v.pre)
            ln = lean_ident(nm)
            out.append("let %s := %s" % (ln, v.term))
            self.locals[nm] = EV(ln, v.kind)
            return
        raise Unsupported("assignment", s)

    def var_decl(self, v, out):
        name = v["name"]
        init = [c for c in kids(v) if not c.get("kind", "").endswith("Attr")]
        ty = ctype(v)
        if not init:
            raise Unsupported("uninitialised local " + name, v)
        e = unwrap(init[-1])
        k = e.get("kind")
        if k == "CXXConstructExpr" and ty == "bytes" and self.buf is None and self.fn["mode"] == "encode":
            a = [c for c in kids(e) if c.get("kind") != "CXXDefaultArgExpr"]
            if len(a) != 1:
                raise Unsupported("buffer constructor", v)
            sz = self.expr(a[0])
            if sz.kind != "u64":
                raise Unsupported("buffer size of kind " + sz.kind, v)
            out.extend(sz.pre)
            self.buf_at = len(out)
            self.buf, self.size = name, lean_ident(name + "_size")
            self.size_term = sz.term
            return
        if k == "CXXMemberCallExpr" and ty == "ptr" and self.ptr is None:
            m = unwrap(kids(e)[0])
            if m.get("name") == "data" and declref_name(kids(m)[0]) == self.buf:
                self.ptr = name
                return
            raise Unsupported("pointer initialiser", v)
        if k == "BinaryOperator" and ty == "ptr" and self.end is None and self.ptr:
            a, b = kids(e)
            if self.is_ptr(a) and self.expr(b).term == self.size:
                self.end = name
                return
            raise Unsupported("end-pointer initialiser", v)
        if ty in ("i64", "u64", "i32", "u8"):
            val = self.cast(self.expr(init[-1]), ty, v)
            out.extend(val.pre)
            ln = lean_ident(name)
            out.append("let %s := %s" % (ln, val.term))
            self.locals[name] = EV(ln, val.kind)
            return
        raise Unsupported("local of type " + ty, v)

    def sub_block(self, body):
        """translate a nested block; -> (lines, changed outer locals)"""
        saved = dict(self.locals)
        sub = []
        self.stmts(body, sub, False)
        changed = [n_ for n_ in saved if self.locals[n_] is not saved[n_]]
        new = {n_: self.locals[n_] for n_ in changed}
        self.locals = saved
        return sub, changed, new

    def if_stmt(self, s, out):
        parts = kids(s)
        c, then = parts[0], parts[1]
        els = parts[2] if s.get("hasElse") else None
        exn = self.throw_class(then)
        if exn and not els:
            if self.is_ptr_ne_end(c):
                t = self.fresh()
                out.append("let %s ← Wr.notAtEnd" % t)
                out.append("if %s then Wr.throwW %s else" % (t, exn))
                return
            vc = self.cond(c, s)
            out.extend(vc.pre)
            out.append("if %s then Wr.throwW %s else" % (vc.term, exn))
            return
        o = self.engaged_test(c)
        if o is not None and els is not None:
            nm, (ta, cha, _) = self.with_engaged(o, lambda: self.sub_block(self.block(then)))
            tb, chb, _ = self.sub_block(self.block(els))
            if cha or chb:
                raise Unsupported("if/else on an optional that assigns locals", s)
            out.append("match %s with" % o.term)
            out.append("| some %s => (do" % nm)
            out.extend("    " + l for l in (ta or ["pure ()"]))
            out[-1] += ")"
            out.append("| none => (do")
            out.extend("    " + l for l in (tb or ["pure ()"]))
            out[-1] += ")"
            return
        if els is None:
            vc = self.cond(c, s)
            sub, changed, new = self.sub_block(self.block(then))
            if not changed:
                raise Unsupported("one-armed if without effect on a local", s)
            tup = lambda xs: xs[0] if len(xs) == 1 else "(" + ", ".join(xs) + ")"
            names = [lean_ident(x) for x in changed]
            out.extend(vc.pre)
            out.append("let %s ← if %s then (do" % (tup(names), vc.term))
            out.extend("    " + l for l in sub)
            out.append("    pure %s) else pure %s" % (tup([new[x].term for x in changed]),
                                                        tup([self.locals[x].term for x in changed])))
            for x, nm in zip(changed, names):
                if new[x].kind != self.locals[x].kind:
                    raise Unsupported("local %s changes representation in a branch" % x, s)
                self.locals[x] = EV(nm, new[x].kind)
            return
        raise Unsupported("if with else", s)

    def hoist(self, params, sub, ret="Wr Unit"):
        bname = "%s_body%d" % (self.fn["lean"], len(self.aux) + 1)
        self.aux.append((bname, params, ret, sub))
        return bname

    def outer_names(self):
        s = {v.term for v in self.locals.values()} | {self.size or "", "v"} | set(self.idx.values()) | set(self.engaged.values())
        return {x for x in s if re.fullmatch(r"[A-Za-z_][A-Za-z_0-9']*", x or "")}

    def range_for(self, s, out):
        parts = s.get("inner") or []
        if len(parts) != 8 or (parts[0] and parts[0].get("kind")):
            raise Unsupported("range-for shape", s)
        rng, loopvar, body = parts[1], parts[6], parts[7]
        coll = self.lv(kids(kids(rng)[0])[0])
        lv = kids(loopvar)[0]
        if coll.pre:
            raise Unsupported("range-for over a computed collection", s)
        if coll.kind.startswith("vec:"):
            ek, lt = coll.kind[4:], lean_ty(coll.kind[4:])
        elif coll.kind == "string":
            ek, lt = "char", "UInt8"
        else:
            raise Unsupported("range-for over a " + coll.kind, s)
        if ctype(lv) != ek:
            raise Unsupported("range-for element type", lv)
        name = lv["name"]
        if name in self.locals:
            raise Unsupported("range-for variable shadows a local", lv)
        ln = lean_ident(name)
        outer = self.outer_names()
        self.locals[name] = EV(ln, ek)
        sub, changed, new = self.sub_block(self.block(body))
        del self.locals[name]
        if not sub:
            raise Unsupported("empty loop body", body)
        toks = set(re.findall(r"[A-Za-z_][A-Za-z_0-9']*", " ".join(sub)))
        tup = lambda xs: xs[0] if len(xs) == 1 else "(" + ", ".join(xs) + ")"
        if not changed:
            if not ((outer - {ln}) & toks):
                out.append("Wr.forIn' %s %s" % (coll.term, self.hoist(" (%s : %s)" % (ln, lt), sub)))
            else:
                out.append("Wr.forIn' %s (fun (%s : %s) => do" % (coll.term, ln, lt))
                out.extend("    " + l for l in sub)
                out[-1] += ")"
            return
        # the body updates locals of the enclosing function: they are the loop's state
        names = [lean_ident(x) for x in changed]
        for x, nm in zip(changed, names):
            if self.locals[x].term != nm or new[x].kind != self.locals[x].kind:
                raise Unsupported("loop state variable " + x, s)
        sty = " × ".join(lean_ty({"i32v": "i32", "i64v": "i64"}.get(new[x].kind, new[x].kind)) for x in changed)
        sub = sub + ["pure %s" % tup([new[x].term for x in changed])]
        if (outer - set(names) - {ln}) & toks:
            raise Unsupported("stateful range-for body uses other outer locals", body)
        head = ["let %s := st" % tup(names)] if len(names) > 1 else []
        bname = self.hoist(" (%s : %s) (%s : %s)" % (ln, lt, "st" if len(names) > 1 else names[0], sty), head + sub,
                           ret="Wr (%s)" % sty)
        out.append("let %s ← Wr.foldS %s %s %s" % (tup(names), coll.term, tup(names), bname))
        for x, nm in zip(changed, names):
            self.locals[x] = EV(nm, new[x].kind)

    def for_stmt(self, s, out):
        parts = s.get("inner") or []
        if len(parts) != 5:
            raise Unsupported("for statement shape", s)
        init, condvar, cond, inc, body = parts
        if (condvar and condvar.get("kind")) or not (init.get("kind") == "DeclStmt" and len(kids(init)) == 1):
            raise Unsupported("for initialiser", s)
        iv = kids(init)[0]
        ity = ctype(iv)
        start = int_literal(kids(iv)[-1]) if kids(iv) else None
        iname = iv["name"]
        c = unwrap(cond)
        u = unwrap(inc)
        if c.get("kind") != "BinaryOperator" or c.get("opcode") != "<" or declref_name(kids(c)[0]) != iname or \
                u.get("kind") != "UnaryOperator" or u.get("opcode") != "++" or declref_name(kids(u)[0]) != iname or start is None:
            raise Unsupported("loop header", s)
        bound_lit = int_literal(kids(c)[1])
        if ity == "i32" and start == 0 and bound_lit is not None and bound_lit >= 0 and not refers_to(body, iname):
            sub, changed, _ = self.sub_block(self.block(body))
            if changed or not sub:
                raise Unsupported("literal-count loop body", body)
            out.append("Wr.rep %d (do" % bound_lit)
            out.extend("    " + l for l in sub)
            out[-1] += ")"
            return
        if ity == "u64" and start >= 0:
            b = self.expr(kids(c)[1])
            if b.kind != "u64" or b.pre:
                raise Unsupported("loop bound", cond)
            i_ = lean_ident(iname)
            self.idx[iname] = i_
            try:
                sub, changed, _ = self.sub_block(self.block(body))
            finally:
                del self.idx[iname]
            if changed:
                raise Unsupported("indexed loop body assigns outer locals", body)
            outer = self.outer_names()
            toks = set(re.findall(r"[A-Za-z_][A-Za-z_0-9']*", " ".join(sub)))
            free = sorted((outer - {i_}) & toks)
            sub = sub if sub and not sub[-1].startswith(("let ", "if ")) else sub + ["pure ()"]
            cnt = "(%s - %d)" % (b.term, start) if start else b.term
            ps = "".join(" (%s : %s)" % (f, self.param_ty(f)) for f in free)
            bname = self.hoist("%s (%s : Nat)" % (ps, i_), sub)
            out.append("Wr.forIdxFrom (%s%s) %d %s" % (bname, "".join(" " + f for f in free), start, cnt))
            return
        raise Unsupported("loop counter of type %s" % ity, iv)

    def param_ty(self, lean_name):
        for v in self.locals.values():
            if v.term == lean_name:
                k = {"i32v": "Int", "i64v": "Int"}.get(v.kind)
                return k or lean_ty(v.kind)
        raise Unsupported("free variable " + lean_name, None)

    def aux_defs(self):
        res = []
        for bname, params, ret, sub in self.aux:
            res += ["def %s%s : %s := (do" % (bname, params, ret)] + ["  " + l for l in sub]
            res[-1] += ")"
            res.append("")
        return res

    def function(self, decl):
        fn = self.fn
        params = [p for p in kids(decl) if p.get("kind") == "ParmVarDecl"]
        body = [c for c in kids(decl) if c.get("kind") == "CompoundStmt"][0]
        out = []
        if fn["mode"] == "encode":
            if params:
                raise Unsupported("encode signature", decl)
            sd = STRUCTS[fn["struct"]]
            self.holder = (fn["struct"], "v")
            ret = self.stmts(kids(body), out, True)
            if ret is None or self.buf is None or self.ptr is None:
                raise Unsupported("function shape", decl)
            r = unwrap(kids(ret)[0])
            while r.get("kind") == "CXXConstructExpr" and len(kids(r)) == 1:
                r = unwrap(kids(r)[0])
            if r.get("kind") == "CallExpr" and callee_name(r) == "zlib_compress":
                r = unwrap(kids(r)[1])
            if declref_name(r) != self.buf:
                raise Unsupported("return of something other than the buffer", ret)
            head = ["def %s (v : %s) : Res Bytes :=" % (fn["lean"], sd["ty"])]
            before, rest = out[:self.buf_at], out[self.buf_at:]
            rest = rest or ["pure ()"]
            if rest[-1].startswith(("if ", "let ")):
                rest.append("pure ()")
            if all(l.startswith("let ") and " ← " not in l for l in before):
                head += ["  " + l for l in before]
                head.append("  Wr.run %s (do" % self.size_term)
            else:
                # statements that run before the buffer exists (validation, checked size arithmetic)
                head.append("  Wr.pre (do")
                head += ["      " + l for l in before]
                head.append("      pure %s) (fun %s => Wr.run %s (do" % (self.size_term, self.size, self.size))
                rest[-1] += ")"
            lines = head + ["    " + l for l in rest]
            lines[-1] += ")"
            return self.aux_defs() + lines
        # helpers: std::byte* f(const std::vector<E>& xs, std::byte* ptr) / void validate(const std::vector<E>& xs)
        want = 2 if fn["mode"] == "enc_helper" else 1
        if len(params) != want or ctype(params[0]) != fn["arg"] or (want == 2 and ctype(params[1]) != "ptr"):
            raise Unsupported("helper signature", decl)
        xs = lean_ident(params[0]["name"])
        self.locals[params[0]["name"]] = EV(xs, fn["arg"])
        if want == 2:
            self.ptr = params[1]["name"]
        ret = self.stmts(kids(body), out, True)
        if want == 2 and (ret is None or not self.is_ptr(kids(ret)[0])):
            raise Unsupported("helper does not return the cursor", decl)
        if want == 1 and ret is not None:
            raise Unsupported("validator returns a value", decl)
        if not out or out[-1].startswith(("if ", "let ")):
            out.append("pure ()")
        lines = ["def %s (%s : %s) : Wr Unit := (do" % (fn["lean"], xs, lean_ty(fn["arg"]))]
        lines += ["  " + l for l in out]
        lines[-1] += ")"
        return self.aux_defs() + lines


if __name__ == "__main__":
    sys.exit(main())
