#!/usr/bin/env python3
"""Translator: src/djinterop/engine/track_utils.hpp  ->  Lean (Gen/TrackUtilsGen.lean).

The model of the waveform-extent functions is *regenerated from the source* on
every run from clang's typed AST (every implicit conversion is explicit there),
and the C19 theorems are re-checked against the regenerated definitions.

Fragment: straight-line functions made of `auto x = e;`, `if (c) { return e; }`,
`return e;` over integer / double expressions with + - * / == || and casts.
Anything else makes the translator fail *closed* (exit 2, file untouched); the
check then falls back to the correspondence tie of the hand model.

Semantics emitted:
  signed 64/32-bit  -> Int with checked ops in Option (none = UB: overflow, /0)
  unsigned 64-bit   -> Nat modulo 2^64 (wrap-around is defined behaviour)
  double            -> abstract `F` with an `FloatOps F` parameter
"""
import json, os, subprocess, sys
sys.path.insert(0, os.path.dirname(os.path.abspath(__file__)))
from common import *

FUNCS = ["waveform_quantisation_number",
         "calculate_high_resolution_waveform_extents",
         "calculate_overview_waveform_extents"]
NS = "djinterop::engine::util"


class Unsupported(Exception):
    pass


def clang_ast(header, filt):
    cmd = ["clang++-14", "-std=gnu++17", "-fsyntax-only", "-I" + GENINC, "-I" + REPO + "/include",
           "-I" + REPO + "/src", "-Xclang", "-ast-dump=json", "-Xclang", "-ast-dump-filter=" + filt, header]
    r = subprocess.run(cmd, stdout=subprocess.PIPE, stderr=subprocess.PIPE, text=True)
    txt = r.stdout
    dec = json.JSONDecoder()
    i, docs = 0, []
    while i < len(txt):
        while i < len(txt) and txt[i].isspace():
            i += 1
        if i >= len(txt):
            break
        o, j = dec.raw_decode(txt, i)
        docs.append(o)
        i = j
    return docs


def ctype(node):
    t = node.get("type", {})
    q = t.get("desugaredQualType") or t.get("qualType", "")
    q = q.replace("const ", "").strip()
    return {"long": "i64", "long long": "i64", "int": "i32", "unsigned long long": "u64",
            "unsigned long": "u64", "double": "f64", "bool": "bool", "int64_t": "i64",
            "djinterop::waveform_extents": "extents", "struct djinterop::waveform_extents": "extents",
            "waveform_extents": "extents"}.get(q, "?" + q)


class Fn:
    def __init__(self, consts):
        self.lines = []
        self.n = 0
        self.consts = consts

    def tmp(self):
        self.n += 1
        return "t%d" % self.n

    def bind(self, rhs):  # monadic
        t = self.tmp()
        self.lines.append("let %s ← %s" % (t, rhs))
        return t

    def let(self, rhs):  # pure
        t = self.tmp()
        self.lines.append("let %s := %s" % (t, rhs))
        return t

    def expr(self, n):
        k = n["kind"]
        ty = ctype(n)
        inner = n.get("inner", [])
        if k in ("ParenExpr", "ConstantExpr", "ExprWithCleanups", "MaterializeTemporaryExpr"):
            return self.expr(inner[0])
        if k == "IntegerLiteral":
            return "(%s : %s)" % (n["value"], "Nat" if ty == "u64" else "Int")
        if k == "DeclRefExpr":
            name = n["referencedDecl"]["name"]
            if name in self.consts:
                return "(%s : Nat)" % self.consts[name]
            return name
        if k in ("ImplicitCastExpr", "CXXStaticCastExpr", "CStyleCastExpr", "CXXFunctionalCastExpr"):
            ck = n.get("castKind")
            if ck in ("LValueToRValue", "NoOp", "FunctionToPointerDecay"):
                return self.expr(inner[0])
            src = ctype(inner[0])
            e = self.expr(inner[0])
            if ck == "IntegralCast":
                if src in ("i32", "i64") and ty == "u64":
                    return self.let("Cxx.u64OfInt %s" % e)
                if src == "i32" and ty == "i64":
                    return e
                if src == "u64" and ty == "i64":
                    return self.let("Cxx.i64OfU64 %s" % e)
                if src == ty:
                    return e
                raise Unsupported("IntegralCast %s->%s" % (src, ty))
            if ck == "FloatingToIntegral":
                if ty == "i64":
                    return self.bind("ops.toI64 %s" % e)
                raise Unsupported("FloatingToIntegral->" + ty)
            if ck == "IntegralToFloating":
                if src in ("i32", "i64"):
                    return self.let("ops.ofI64 %s" % e)
                if src == "u64":
                    return self.let("ops.ofU64 %s" % e)
                raise Unsupported("IntegralToFloating from " + src)
            raise Unsupported("cast " + str(ck))
        if k == "CallExpr":
            callee = inner[0]
            while callee["kind"] != "DeclRefExpr":
                callee = callee["inner"][0]
            name = callee["referencedDecl"]["name"]
            if name not in FUNCS:
                raise Unsupported("call " + name)
            args = [self.expr(a) for a in inner[1:]]
            return self.bind("%s ops %s" % (name, " ".join(args)))
        if k == "BinaryOperator":
            op = n["opcode"]
            lt = ctype(inner[0])
            if op == "||":
                a = self.expr(inner[0])
                b = self.expr(inner[1])
                return "(%s || %s)" % (a, b)
            a = self.expr(inner[0])
            b = self.expr(inner[1])
            if op == "==":
                return "(decide (%s = %s))" % (a, b)
            if lt == "i64" or lt == "i32":
                w = "I64" if lt == "i64" else "I32"
                f = {"+": "add", "-": "sub", "*": "mul", "/": "div"}.get(op)
                if not f:
                    raise Unsupported("signed op " + op)
                return self.bind("Cxx.%s.%s %s %s" % (w, f, a, b))
            if lt == "u64":
                if op == "/":
                    return self.bind("Cxx.U64.div %s %s" % (a, b))
                if op == "%":
                    return self.bind("Cxx.U64.mod %s %s" % (a, b))
                f = {"+": "add", "-": "sub", "*": "mul"}.get(op)
                if not f:
                    raise Unsupported("unsigned op " + op)
                return self.let("Cxx.U64.%s %s %s" % (f, a, b))
            if lt == "f64":
                if op == "/":
                    return self.let("ops.div %s %s" % (a, b))
                raise Unsupported("double op " + op)
            raise Unsupported("binop on " + lt)
        if k == "InitListExpr":
            if ty != "extents" or len(inner) != 2:
                raise Unsupported("init list " + ty)
            a = self.expr(inner[0])
            b = self.expr(inner[1])
            return "(%s, %s)" % (a, b)
        raise Unsupported("expr " + k)

    def stmts(self, body):
        out_done = False
        for i, s in enumerate(body):
            k = s["kind"]
            if k == "DeclStmt":
                for v in s["inner"]:
                    if v["kind"] != "VarDecl" or "inner" not in v:
                        raise Unsupported("decl")
                    e = self.expr(v["inner"][-1])
                    self.lines.append("let %s := %s" % (v["name"], e))
            elif k == "ReturnStmt":
                e = self.expr(s["inner"][0])
                self.lines.append("pure %s" % e)
                out_done = True
                break
            elif k == "IfStmt":
                cond, then = s["inner"][0], s["inner"][1]
                if len(s["inner"]) != 2:
                    raise Unsupported("if/else")
                c = self.expr(cond)
                tb = then["inner"] if then["kind"] == "CompoundStmt" else [then]
                if len(tb) != 1 or tb[0]["kind"] != "ReturnStmt":
                    raise Unsupported("if body")
                sub = Fn(self.consts)
                sub.n = self.n
                e = sub.expr(tb[0]["inner"][0])
                self.n = sub.n
                pre = "; ".join(sub.lines)
                self.lines.append("if %s then (do %s%spure %s) else" % (c, pre, "; " if pre else "", e))
            else:
                raise Unsupported("stmt " + k)
        if not out_done:
            raise Unsupported("no return")


def translate():
    header = REPO + "/src/djinterop/engine/track_utils.hpp"
    docs = clang_ast(header, NS)
    decls = []
    for d in docs:
        if d.get("kind") == "NamespaceDecl":
            decls += d.get("inner", [])
        else:
            decls.append(d)
    consts = {}
    fns = {}
    for d in decls:
        if d["kind"] == "VarDecl" and "inner" in d:
            v = d["inner"][-1]
            while v["kind"] != "IntegerLiteral":
                if "inner" not in v:
                    raise Unsupported("const " + d["name"])
                v = v["inner"][0]
            consts[d["name"]] = v["value"]
        elif d["kind"] == "FunctionDecl" and d["name"] in FUNCS:
            fns[d["name"]] = d
    for f in FUNCS:
        if f not in fns:
            raise Unsupported("missing function " + f)
    out = ["/- GENERATED by tools/tr_trackutils.py from src/djinterop/engine/track_utils.hpp — do not edit. -/",
           "import EngineModel.Pure.Cxx", "", "namespace EngineModel.Gen.TrackUtils",
           "open EngineModel", "", "variable {F : Type}", ""]
    for name in FUNCS:
        d = fns[name]
        params = [p for p in d["inner"] if p["kind"] == "ParmVarDecl"]
        body = [p for p in d["inner"] if p["kind"] == "CompoundStmt"][0]
        rty = ctype({"type": {"qualType": d["type"]["qualType"].split("(")[0].strip()}})
        lean_ret = {"i64": "Int", "extents": "Nat × F"}.get(rty)
        if not lean_ret:
            raise Unsupported("return type " + rty)
        ps = []
        for p in params:
            t = {"f64": "F", "u64": "Nat", "i64": "Int"}.get(ctype(p))
            if not t:
                raise Unsupported("param type")
            ps.append("(%s : %s)" % (p["name"], t))
        fn = Fn(consts)
        fn.stmts(body.get("inner", []))
        out.append("def %s (ops : Cxx.FloatOps F) %s : Option (%s) := do" % (name, " ".join(ps), lean_ret))
        for l in fn.lines:
            out.append("  " + l)
        out.append("")
    out.append("end EngineModel.Gen.TrackUtils")
    return "\n".join(out) + "\n"


def main():
    target = os.path.join(LEAN, "EngineModel", "Gen", "TrackUtilsGen.lean")
    try:
        txt = translate()
    except Unsupported as e:
        print("translator: unsupported-node: %s" % e)
        return 2
    old = open(target).read() if os.path.exists(target) else None
    if old != txt:
        open(target, "w").write(txt)
        print("translator: regenerated (changed)")
    else:
        print("translator: regenerated (identical)")
    return 0


if __name__ == "__main__":
    sys.exit(main())
