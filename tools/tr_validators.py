#!/usr/bin/env python3
"""tr_validators.py — translate the hand-written expectation tables of
src/djinterop/engine/schema/schema_*.cpp into Lean (lean/EngineModel/Gen/ValidatorTables.lean).

Every verify_* function of every schema class is a sequence of
  * blocks   { <wrapper> var{db, [<db-name>,] "<object>"};  auto iter = …;
               ( validate(iter, end, <args>); ++iter; )*  [ validate_no_more(iter, end[, <db-name>]); ] }
  * calls    verify_xxx(db[, <db-name>]);   or   schema_Y::verify_xxx(db[, <db-name>]);
with <wrapper> ∈ {master_list, table_info, index_list, index_info}.  The translator parses exactly this
fragment (comments stripped, adjacent string literals concatenated), resolves the class hierarchy's virtual
dispatch (an unqualified call goes to the most derived override of the dynamic class, a qualified call to the
named class or its nearest ancestor that defines the function), executes verify() of each version symbolically
and collects the blocks in order.  It FAILS CLOSED: any statement outside the fragment aborts the translation
with `unsupported: …` (the property then rests on the enumeration alone; never a violation by itself).

Blocks that inspect a VIEW (1.x: table_info / index_list of the List-backed views) are listed separately
(`viewBlocks`, counted, not part of `DbExp`): view bodies are outside C17.
"""
import json, os, re, sys
sys.path.insert(0, os.path.dirname(os.path.abspath(__file__)))
from common import *

SRC = os.path.join(REPO, "src", "djinterop", "engine", "schema")
OUT = os.path.join(LEAN, "EngineModel", "Gen", "ValidatorTables.lean")


class Unsupported(Exception):
    pass


def strip_comments(s):
    out, i, n = [], 0, len(s)
    while i < n:
        c = s[i]
        if c == '"':
            j = i + 1
            while j < n and s[j] != '"':
                j += 2 if s[j] == "\\" else 1
            out.append(s[i:j + 1])
            i = j + 1
        elif s.startswith("//", i):
            j = s.find("\n", i)
            i = n if j < 0 else j
        elif s.startswith("/*", i):
            j = s.find("*/", i)
            i = n if j < 0 else j + 2
        else:
            out.append(c)
            i += 1
    return "".join(out)


def match_brace(s, i):
    """s[i] == '{' -> index of the matching '}' (string literals skipped)"""
    depth, n = 0, len(s)
    while i < n:
        c = s[i]
        if c == '"':
            i += 1
            while s[i] != '"':
                i += 2 if s[i] == "\\" else 1
        elif c == "{":
            depth += 1
        elif c == "}":
            depth -= 1
            if depth == 0:
                return i
        i += 1
    raise Unsupported("unbalanced braces")


def split_args(a):
    """top-level comma split; adjacent string literals are concatenated; returns python values / identifiers"""
    parts, cur, i, n, depth = [], "", 0, len(a), 0
    while i < n:
        c = a[i]
        if c == '"':
            j = i + 1
            while a[j] != '"':
                j += 2 if a[j] == "\\" else 1
            cur += a[i:j + 1]
            i = j + 1
            continue
        if c in "({":
            depth += 1
        elif c in ")}":
            depth -= 1
        if c == "," and depth == 0:
            parts.append(cur.strip())
            cur = ""
        else:
            cur += c
        i += 1
    if cur.strip():
        parts.append(cur.strip())
    vals = []
    for p in parts:
        if p.startswith('"'):
            lits = re.findall(r'"((?:[^"\\]|\\.)*)"', p)
            rest = re.sub(r'"((?:[^"\\]|\\.)*)"', "", p).strip()
            if rest:
                raise Unsupported("argument " + p)
            vals.append(("str", bytes("".join(lits), "utf-8").decode("unicode_escape")))
        elif re.fullmatch(r"-?\d+", p):
            vals.append(("int", int(p)))
        elif re.fullmatch(r"[A-Za-z_]\w*", p):
            vals.append(("id", p))
        else:
            raise Unsupported("argument " + p)
    return vals


def statements(body):
    """split a function / block body into top-level items: ('block', text) | ('stmt', text)"""
    items, i, n = [], 0, len(body)
    cur = ""
    while i < n:
        c = body[i]
        if c == '"':
            j = i + 1
            while body[j] != '"':
                j += 2 if body[j] == "\\" else 1
            cur += body[i:j + 1]
            i = j + 1
        elif c == "{" and not cur.strip():
            j = match_brace(body, i)
            items.append(("block", body[i + 1:j]))
            i = j + 1
        elif c == "{":
            j = match_brace(body, i)          # brace initialiser inside a statement: `table_info cols{db, …}`
            cur += body[i:j + 1]
            i = j + 1
        elif c == ";":
            if cur.strip():
                items.append(("stmt", " ".join(cur.split())))
            cur = ""
            i += 1
        else:
            cur += c
            i += 1
    if cur.strip():
        raise Unsupported("trailing text: " + cur.strip()[:60])
    return items


WRAP = re.compile(r"^(master_list|table_info|index_list|index_info) (\w+)\{(.*)\}$")
CALL = re.compile(r"^(?:(schema_\w+)::)?(verify\w*)\((.*)\)$")


def parse_block(text):
    items = statements(text)
    if not items or items[0][0] != "stmt":
        raise Unsupported("block without a query")
    m = WRAP.match(items[0][1])
    if not m:
        raise Unsupported("block head: " + items[0][1][:80])
    kind, var, args = m.group(1), m.group(2), split_args(m.group(3))
    if args[0] != ("id", "db"):
        raise Unsupported("query on something else than db")
    args = args[1:]
    blk = {"kind": kind, "db": None, "obj": None, "entries": [], "noMore": False}
    if len(args) == 2:
        blk["db"], blk["obj"] = args
    elif len(args) == 1:
        blk["db"], blk["obj"] = ("str", "main"), args[0]
    else:
        raise Unsupported("query arguments")
    if blk["obj"][0] != "str":
        raise Unsupported("query object is not a literal")
    rest = items[1:]
    if not rest or rest[0] != ("stmt", "auto iter = %s.begin(), end = %s.end()" % (var, var)):
        raise Unsupported("iterator initialisation: " + (rest[0][1][:80] if rest else ""))
    rest = rest[1:]
    k = 0
    while k < len(rest):
        ty, st = rest[k]
        if ty != "stmt":
            raise Unsupported("nested block")
        if blk["noMore"]:
            raise Unsupported("statement after validate_no_more")
        if st.startswith("validate_no_more("):
            a = split_args(st[len("validate_no_more("):-1])
            if a[:2] != [("id", "iter"), ("id", "end")]:
                raise Unsupported(st[:80])
            blk["noMore"] = True
            k += 1
            continue
        if st.startswith("validate("):
            a = split_args(st[len("validate("):-1])
            if a[:2] != [("id", "iter"), ("id", "end")]:
                raise Unsupported(st[:80])
            if k + 1 >= len(rest) or rest[k + 1] != ("stmt", "++iter"):
                raise Unsupported("validate without ++iter")
            blk["entries"].append(a[2:])
            k += 2
            continue
        raise Unsupported("statement in block: " + st[:80])
    return blk


def parse_file(path):
    """-> {class: {function: (params, [items])}} for the verify* member functions"""
    s = strip_comments(open(path).read())
    out = {}
    for m in re.finditer(r"\bvoid\s+(schema_\w+)::(verify\w*)\s*\(([^)]*)\)\s*const\s*\{", s):
        cls, fn, params = m.group(1), m.group(2), m.group(3)
        j = match_brace(s, m.end() - 1)
        body = s[m.end():j]
        pnames = re.findall(r"(\w+)\s*(?:,|$)", " ".join(re.sub(r"\[\[\w+\]\]", "", params).split()))
        items = []
        for ty, text in statements(body):
            if ty == "block":
                items.append(("block", parse_block(text)))
            elif text == "assert(false)":
                items.append(("unreachable",))
            else:
                c = CALL.match(text)
                if not c:
                    raise Unsupported("%s::%s: %s" % (cls, fn, text[:80]))
                items.append(("call", c.group(1), c.group(2), split_args(c.group(3))))
        out.setdefault(cls, {})[fn] = (pnames, items)
    return out


def hierarchy():
    parent = {}
    for f in sorted(os.listdir(SRC)):
        if f.endswith(".hpp"):
            s = strip_comments(open(os.path.join(SRC, f)).read())
            for m in re.finditer(r"\bclass\s+(schema_\w+)\s*:\s*public\s+(schema_\w+)", s):
                parent[m.group(1)] = m.group(2)
    return parent


def translate():
    parent = hierarchy()
    defs = {}
    for f in sorted(os.listdir(SRC)):
        if re.fullmatch(r"schema_\d\w*\.cpp", f):
            for cls, fns in parse_file(os.path.join(SRC, f)).items():
                defs.setdefault(cls, {}).update(fns)
    # schema_v1::verify is inline in schema.hpp: verify_music_schema(db); verify_performance_schema(db);
    hp = strip_comments(open(os.path.join(SRC, "schema.hpp")).read())
    m = re.search(r"class schema_v1.*?void verify\(sqlite::database& db\) const override\s*\{(.*?)\}", hp, re.S)
    if not m or [" ".join(x.split()) for x in m.group(1).split(";") if x.strip()] != ["verify_music_schema(db)", "verify_performance_schema(db)"]:
        raise Unsupported("schema_v1::verify")
    defs["schema_v1"] = {"verify": (["db"], [("call", None, "verify_music_schema", [("id", "db")]),
                                             ("call", None, "verify_performance_schema", [("id", "db")])])}

    def lookup(cls, fn):
        c = cls
        while c is not None:
            if fn in defs.get(c, {}):
                return c, defs[c][fn]
            c = parent.get(c)
        raise Unsupported("no definition of %s for %s" % (fn, cls))

    def run(dyn, static_cls, fn, argvals, out, depth=0):
        if depth > 12:
            raise Unsupported("call depth")
        owner, (pnames, items) = lookup(static_cls, fn)
        if len(pnames) != len(argvals):
            raise Unsupported("arity of %s::%s" % (owner, fn))
        env = dict(zip(pnames, argvals))

        def val(a):
            if a[0] == "id":
                if a[1] not in env:
                    raise Unsupported("unbound " + a[1])
                return env[a[1]]
            return a
        for it in items:
            if it[0] == "unreachable":
                raise Unsupported("%s::%s reaches assert(false)" % (owner, fn))
            if it[0] == "block":
                b = dict(it[1])
                b["db"] = val(b["db"])
                if b["db"][0] != "str":
                    raise Unsupported("db name")
                b["entries"] = [[val(x) for x in e] for e in b["entries"]]
                b["fn"] = "%s::%s" % (owner, fn)
                out.append(b)
            else:
                _, qual, callee, args = it
                run(dyn, qual or dyn, callee, [val(a) for a in args], out, depth + 1)

    versions = {}
    for cls in sorted(c for c in set(defs) | set(parent) if re.fullmatch(r"schema_\d\w*", c)):
        out = []
        run(cls, cls, "verify", [("id0", "db")], out)
        versions[cls] = out
    return versions


# ------------------------------------------------------------------ assembling DbExp values and emitting Lean
def lit(s):
    return 'bytes% "' + s.encode().hex() + '"'


def assemble(blocks):
    """-> {label: dict(tables, tablesNoMore, views, viewsNoMore, perTable:[…], viewBlocks:int)}"""
    dbs = {}
    for b in blocks:
        d = dbs.setdefault(b["db"][1], {"tables": None, "views": None, "ti": {}, "il": {}, "ii": {}, "order": []})
        k, o = b["kind"], b["obj"][1]
        if k == "master_list":
            names = []
            for e in b["entries"]:
                strs = [x[1] for x in e if x[0] == "str"]
                # (db_name,) item_type, item_name, table_name
                if len(strs) not in (3, 4):
                    raise Unsupported("master validate arity")
                names.append(strs[-2])
            slot = "tables" if o == "table" else "views" if o == "view" else None
            if slot is None or d[slot] is not None:
                raise Unsupported("master list " + o)
            d[slot] = (names, b["noMore"])
        else:
            key = {"table_info": "ti", "index_list": "il", "index_info": "ii"}[k]
            if o in d[key]:
                raise Unsupported("two %s blocks for %s" % (k, o))
            d[key][o] = b
            if k == "table_info":
                d["order"].append(o)
    res = {}
    for label, d in dbs.items():
        tables, tnm = d["tables"] or ([], False)
        views, vnm = d["views"] or ([], False)
        per, viewblocks, used_ii = [], 0, set()
        names = list(d["order"]) + [t for t in d["il"] if t not in d["order"]]
        for t in names:
            if t in views and t not in tables:
                viewblocks += (t in d["ti"]) + (t in d["il"])
                continue
            ti, il = d["ti"].get(t), d["il"].get(t)
            cols = [tuple(x[1] for x in e) for e in (ti["entries"] if ti else [])]
            idxs = [tuple(x[1] for x in e) for e in (il["entries"] if il else [])]
            ic = []
            for ix in idxs:
                if ix[0] in d["ii"]:
                    bb = d["ii"][ix[0]]
                    used_ii.add(ix[0])
                    ic.append((ix[0], [tuple(x[1] for x in e) for e in bb["entries"]], bb["noMore"]))
            per.append(dict(name=t, cols=cols, colsNoMore=bool(ti and ti["noMore"]), hasCols=ti is not None,
                            idxs=idxs, idxsNoMore=bool(il and il["noMore"]), hasIdxs=il is not None, idxCols=ic))
        stray = [i for i in d["ii"] if i not in used_ii]
        res[label] = dict(tables=tables, tablesNoMore=tnm, views=views, viewsNoMore=vnm, perTable=per,
                          viewBlocks=viewblocks, strayIndexInfo=stray)
    return res


def b(x):
    return "true" if x else "false"


def emit(versions):
    L = ["/- GENERATED by tools/tr_validators.py from src/djinterop/engine/schema/schema_*.cpp of /repo's working tree:",
         "the hand-written expectation tables of every schema version, as `DbExp` values.  Do not edit. -/",
         "import EngineModel.Spec.Validator", "import EngineModel.Spec.BytesLit", "namespace EngineModel.Gen.ValidatorTables",
         "open EngineModel.Spec.Catalog EngineModel.Spec.Validator", "set_option maxRecDepth 100000", ""]
    entries, stats = [], {}
    for v in sorted(versions):
        asm = assemble(versions[v])
        for label in sorted(asm):
            a = asm[label]
            name = "%s_%s" % (v, label)
            pts = []
            for t in a["perTable"]:
                cols = ", ".join("⟨%s, %s, %d, %s, %d⟩" % (lit(c[0]), lit(c[1]), c[2], lit(c[3]), c[4]) for c in t["cols"])
                idxs = ", ".join("⟨%s, %d, %s, %d⟩" % (lit(i[0]), i[1], lit(i[2]), i[3]) for i in t["idxs"])
                ics = ", ".join("⟨%s, [%s], %s⟩" % (lit(n), ", ".join("⟨%d, %s⟩" % (o, lit(c)) for o, c in cs), b(nm)) for n, cs, nm in t["idxCols"])
                # a table whose columns / indices are never queried has an OPEN (empty, unterminated) block
                pts.append("  { name := %s,\n    cols := [%s], colsNoMore := %s,\n    idxs := [%s], idxsNoMore := %s,\n    idxCols := [%s] }"
                           % (lit(t["name"]), cols, b(t["colsNoMore"] and t["hasCols"]), idxs, b(t["idxsNoMore"] and t["hasIdxs"]), ics))
            L.append("def %s : DbExp :=\n  { tables := [%s], tablesNoMore := %s,\n    views := [%s], viewsNoMore := %s,\n    perTable := [\n%s] }"
                     % (name, ", ".join(lit(t) for t in a["tables"]), b(a["tablesNoMore"]), ", ".join(lit(t) for t in a["views"]),
                        b(a["viewsNoMore"]), ",\n".join(pts)))
            entries.append('("%s", %s, %s)' % (v, lit(label), name))
            stats[name] = {"tables": len(a["tables"]), "views": len(a["views"]), "described": len(a["perTable"]),
                           "columns": sum(len(t["cols"]) for t in a["perTable"]), "indices": sum(len(t["idxs"]) for t in a["perTable"]),
                           "view_blocks_left_out": a["viewBlocks"], "stray_index_info": a["strayIndexInfo"]}
    L.append("/-- (schema version, database file label, its expectation tables) -/")
    L.append("def all : List (String × List Char × DbExp) := [\n  %s]" % ",\n  ".join(entries))
    L.append("end EngineModel.Gen.ValidatorTables")
    new = "\n".join(L) + "\n"
    try:
        old = open(OUT).read()
    except OSError:
        old = None
    if old != new:
        with open(OUT, "w") as f:
            f.write(new)
    return stats


def main():
    try:
        versions = translate()
        stats = emit(versions)
    except Unsupported as e:
        print("unsupported: %s" % e)
        return 2
    print("ok %d tables-per-file %s" % (len(stats), json.dumps({k: v["described"] for k, v in stats.items()})[:400]))
    json.dump(stats, open(os.path.join(BUILD, "validator_tables_stats.json"), "w"), indent=1)
    return 0


if __name__ == "__main__":
    sys.exit(main())
