#!/usr/bin/env python3
"""C14 / C16, static route: SQL statement sites and transaction scopes of every public entry point, from clang's
typed AST  ->  lean/EngineModel/Gen/SqlSites.lean  (skeletons `Sk` of lean/EngineModel/Spec/SqlSites.lean).

What is extracted (per function with a body in the engine implementation files, template instantiations included):

  statement site   `db << <sql>` (sqlite::database::operator<<): classified by the leading keyword of the first
                   string literal of <sql> (a local `auto sql = "UPDATE ..." + column + ...` is followed to its
                   initialiser): SELECT / PRAGMA -> read;  INSERT / UPDATE / DELETE / REPLACE / CREATE / DROP / ALTER /
                   ATTACH / DETACH / VACUUM / ANALYZE / REINDEX -> write.  Anything else: unsupported.
  scope            a local `util::sqlite_transaction` in a block: `Sk.scope <rest of that block>`
  commit           `<that local>.commit()`
  call             a call of a function / method / constructor of the library: resolved through the mangled name to
                   the body found in any analysed translation unit, transitively; recursion is flattened to "many".
                   Calls through the public wrappers djinterop::track / crate / database (and their abstract
                   impl bases) are dispatched by method name to the impl classes of BOTH schema generations.
  control flow     `if` / `?:` / `&&` / `||` -> alt;  loops, switch, try, lambda bodies (row callbacks) -> star (alt
                   of everything inside) ("many", any order);  `return` / `throw` need nothing: every skeleton may
                   abort anywhere (Run.abort), a callee with a non-tail `return` is wrapped in `Sk.ret`.

Fail closed: any AST shape outside this fragment raises Unsupported; `regenerate()` then keeps the committed Gen file
and reports `unsupported-node ...` (never an alarm by itself).

Usage:  tr_sqlsites.py            regenerate Gen/SqlSites.lean, print a summary
        tr_sqlsites.py --table    print every entry point with its skeleton (text)
"""
import hashlib, json, os, re, subprocess, sys
from concurrent.futures import ThreadPoolExecutor
sys.path.insert(0, os.path.dirname(os.path.abspath(__file__)))
from common import *
import tr_c15guards as G

ENG = "src/djinterop/engine/"
TUS = ["v1/engine_track_impl.cpp", "v1/engine_crate_impl.cpp", "v1/engine_database_impl.cpp", "v1/engine_storage.cpp",
       "v2/track_impl.cpp", "v2/crate_impl.cpp", "v2/database_impl.cpp", "v2/track_table.cpp", "v2/playlist_table.cpp",
       "v2/playlist_entity_table.cpp", "v2/information_table.cpp", "v2/change_log_table.cpp", "v2/engine_library.cpp",
       "base_engine_library.cpp"]
GEN = os.path.join(LEAN, "EngineModel", "Gen", "SqlSites.lean")
CACHE = os.path.join(BUILD, "sqlsites")

NS = "djinterop::engine::"
# class -> (kind, generation)
IMPL_CLASSES = {NS + "v1::engine_track_impl": ("track", "v1"), NS + "v1::engine_crate_impl": ("crate", "v1"),
                NS + "v1::engine_database_impl": ("database", "v1"), NS + "v2::track_impl": ("track", "v2"),
                NS + "v2::crate_impl": ("crate", "v2"), NS + "v2::database_impl": ("database", "v2")}
TABLE_CLASSES = [NS + "v2::track_table", NS + "v2::playlist_table", NS + "v2::playlist_entity_table",
                 NS + "v2::information_table", NS + "v2::change_log_table"]
# the same classification as tools/props/C16.py (observer list vs public headers)
MUT_CORE = {"database": ["create_root_crate", "create_root_crate_after", "create_track", "remove_crate", "remove_track"],
            "crate": ["add_track", "add_tracks", "clear_tracks", "create_sub_crate", "create_sub_crate_after", "remove_track",
                      "set_name", "set_parent"],
            "track": ["update"]}
WRAPPERS = {"djinterop::track": "track", "djinterop::crate": "crate", "djinterop::database": "database",
            "djinterop::track_impl": "track", "djinterop::crate_impl": "crate", "djinterop::database_impl": "database"}
READ_KW = ("SELECT", "PRAGMA")
WRITE_KW = ("INSERT", "UPDATE", "DELETE", "REPLACE", "CREATE", "DROP", "ALTER", "ATTACH", "DETACH", "VACUUM", "ANALYZE",
            "REINDEX")
# callees without a body in the analysed files: regex on the demangled name -> skeleton
EXTERNAL = [
    (r"schema::\w+::verify\b|schema_creator_validator::verify\b|base_engine_library::verify\b", ("star", ("ev", "read"))),
    (r"schema::\w+::create\b|schema_creator_validator::create\b", ("star", ("ev", "write"))),
]
# classes whose methods reach the database: a callee of these without a body is unsupported (never assumed SQL-free)
DB_CLASSES = set(IMPL_CLASSES) | set(TABLE_CLASSES) | {NS + "v1::engine_storage"}

FUNC_KINDS = ("FunctionDecl", "CXXMethodDecl", "CXXConstructorDecl", "CXXDestructorDecl", "CXXConversionDecl")
FLAT_STMTS = ("ForStmt", "WhileStmt", "DoStmt", "CXXForRangeStmt", "SwitchStmt", "CXXTryStmt")
BAD_STMTS = ("GotoStmt", "IndirectGotoStmt", "LabelStmt", "GCCAsmStmt", "MSAsmStmt", "CoroutineBodyStmt", "CoreturnStmt",
             "StmtExpr", "CoawaitExpr", "CoyieldExpr")


class Unsupported(Exception):
    pass


EPS = ("eps",)


def seq(items):
    out = []
    for t in items:
        if t == EPS:
            continue
        if t[0] == "seq":
            out += list(t[1])
        else:
            out.append(t)
    if not out:
        return EPS
    return out[0] if len(out) == 1 else ("seq", tuple(out))


def alt(items):
    out = []
    for t in items:
        for u in (t[1] if t[0] == "alt" else (t,)):
            if u not in out:
                out.append(u)
    if not out:
        return EPS
    return out[0] if len(out) == 1 else ("alt", tuple(out))


def star(t):
    if t == EPS:
        return EPS
    if t[0] == "star":
        return t
    return ("star", t)


def many(leaves):
    """any number of the given pieces in any order"""
    ls = []
    for l in leaves:
        if l == EPS:
            continue
        if l[0] == "star":
            l = l[1]
        for u in (l[1] if l[0] == "alt" else (l,)):
            if u not in ls:
                ls.append(u)
    return star(alt(ls)) if ls else EPS


def qt(n):
    return (n.get("type") or {}).get("qualType", "")


def bare_type(t):
    t = re.sub(r"\b(const|volatile|struct|class)\b", "", t)
    return t.replace("&", "").replace("*", "").strip()


def is_txn_type(t):
    return bare_type(t) in ("djinterop::util::sqlite_transaction", "util::sqlite_transaction", "sqlite_transaction")


def kids(n):
    return [c for c in (n.get("inner") or []) if isinstance(c, dict)]


def skip_casts(n):
    while isinstance(n, dict) and n.get("kind") in ("ImplicitCastExpr", "ParenExpr", "ExprWithCleanups", "CXXBindTemporaryExpr",
                                                    "MaterializeTemporaryExpr", "CXXFunctionalCastExpr", "CStyleCastExpr",
                                                    "CXXStaticCastExpr", "ConstantExpr") and kids(n):
        n = kids(n)[0]
    return n


class TU:
    """one translation unit: function bodies -> raw skeletons with unresolved call leaves"""

    def __init__(self, docs):
        self.docs = docs
        self.fn = {}        # decl id -> mangled name
        self.var = {}       # VarDecl id -> node
        self.access = {}    # mangled -> public/protected/private
        self.bodies = {}    # mangled -> decl node (with a body)
        self.const = {}     # mangled -> bool
        self.override = {}  # mangled -> carries `override`
        for d in docs:
            self.index(d, None)

    def index(self, n, access):
        k = n.get("kind")
        if k in FUNC_KINDS and n.get("mangledName"):
            m = n["mangledName"]
            self.fn[n["id"]] = m
            if access and m not in self.access:
                self.access[m] = access
            if any(c.get("kind") == "CompoundStmt" for c in kids(n)) and m not in self.bodies:
                self.bodies[m] = n
            self.const[m] = self.const.get(m, False) or bool(re.search(r"\)\s*const\b", qt(n)))
            self.override[m] = self.override.get(m, False) or any(c.get("kind") == "OverrideAttr" for c in kids(n))
        if k == "VarDecl" and "id" in n:
            self.var[n["id"]] = n
        if k in ("CXXRecordDecl", "ClassTemplateSpecializationDecl"):
            acc = "public" if n.get("tagUsed") in ("struct", "union") else "private"
            for c in kids(n):
                if c.get("kind") == "AccessSpecDecl":
                    acc = c.get("access", acc)
                else:
                    self.index(c, acc)
            return
        for c in kids(n):
            self.index(c, access if k in ("FunctionTemplateDecl",) else (None if k in FUNC_KINDS else access))

    # ------------------------------------------------------------------ statements
    def function(self, decl):
        self.lambda_vars = False
        self.exact_returns = 0
        parts = []
        for c in kids(decl):
            if c.get("kind") == "CXXCtorInitializer":
                parts += [self.expr(x) for x in kids(c)]
        body = [c for c in kids(decl) if c.get("kind") == "CompoundStmt"][0]
        t = seq(parts + [self.stmt(body)])
        if self.lambda_vars:
            t = many(self.leaves(t))
        # a `return` that is not the last statement of the body: the callee may stop early
        top = kids(body)
        rets = self.count(body, "ReturnStmt")
        tail = 1 if (top and top[-1].get("kind") == "ReturnStmt") else 0
        # returns that end an else-less `if` branch were translated exactly (the rest of the block became the other
        # alternative, see block()), so they are no reason for the prefix closure
        return ("ret", t) if (rets - tail - self.exact_returns > 0 and t != EPS) else t

    def count(self, n, kind):
        if n.get("kind") == "LambdaExpr":
            return 0
        return (1 if n.get("kind") == kind else 0) + sum(self.count(c, kind) for c in kids(n))

    def txn_decl(self, s):
        if s.get("kind") != "DeclStmt":
            return None
        for v in kids(s):
            if v.get("kind") == "VarDecl" and is_txn_type(qt(v)):
                return v
        return None

    def block(self, stmts):
        out = []
        for i, s in enumerate(stmts):
            v = self.txn_decl(s)
            if v is not None:
                if len(kids(s)) != 1:
                    raise Unsupported("sqlite_transaction declared together with other variables")
                out.append(self.txn_init(v))
                out.append(("scope", self.block(stmts[i + 1:])))
                return seq(out)
            g = self.guard_return(s)
            if g is not None and i + 1 < len(stmts):
                # `if (c) { A; return …; }  B…`  is exactly  `c; (A | B…)`: the statements after an else-less `if` whose
                # branch always returns run only when the branch was not taken
                pre, then_body, nret = g
                saved = self.exact_returns
                rest = self.block(stmts[i + 1:])
                self.exact_returns = max(self.exact_returns, saved) + nret
                out += pre
                out.append(alt([then_body, rest]))
                return seq(out)
            out.append(self.stmt(s))
        return seq(out)

    def guard_return(self, s):
        """(pre, then-branch, number of returns in it) for an else-less IfStmt whose then-branch is `return …;` or a
        block whose last statement is a return and that holds no other return / loop / switch / try; else None"""
        if s.get("kind") != "IfStmt" or s.get("hasElse"):
            return None
        p = kids(s)
        pre, th = p[:-1], p[-1]
        if th.get("kind") == "ReturnStmt":
            body = th
        elif th.get("kind") == "CompoundStmt" and kids(th) and kids(th)[-1].get("kind") == "ReturnStmt":
            body = th
        else:
            return None
        if self.count(th, "ReturnStmt") != 1:
            return None
        for bad in ("ForStmt", "WhileStmt", "DoStmt", "CXXForRangeStmt", "SwitchStmt", "CXXTryStmt", "GotoStmt"):
            if self.count(th, bad):
                return None
        if self.txn_decl_inside(th):
            return None
        return [self.stmt(x) for x in pre], self.stmt(body), 1

    def txn_decl_inside(self, n):
        if n.get("kind") == "LambdaExpr":
            return False
        if self.txn_decl(n) is not None:
            return True
        return any(self.txn_decl_inside(c) for c in kids(n))

    def txn_init(self, v):
        init = skip_casts(kids(v)[0]) if kids(v) else None
        if init is None or init.get("kind") not in ("CXXConstructExpr", "CXXTemporaryObjectExpr"):
            raise Unsupported("sqlite_transaction initialised by %s" % (init or {}).get("kind"))
        return seq([self.expr(a) for a in kids(init)])

    def stmt(self, n):
        k = n.get("kind")
        if k in BAD_STMTS:
            raise Unsupported("statement kind %s" % k)
        if k == "CompoundStmt":
            return self.block(kids(n))
        if k == "DeclStmt":
            if self.txn_decl(n) is not None:
                raise Unsupported("sqlite_transaction declared outside a block")
            return seq([self.decl(v) for v in kids(n)])
        if k == "IfStmt":
            p = kids(n)
            if n.get("hasElse"):
                pre, th, el = p[:-2], p[-2], p[-1]
            else:
                pre, th, el = p[:-1], p[-1], None
            return seq([self.stmt(x) for x in pre] + [alt([self.stmt(th), self.stmt(el) if el is not None else EPS])])
        if k in FLAT_STMTS:
            return many(self.leaves_of_node(n))
        if k in ("ReturnStmt", "CaseStmt", "DefaultStmt", "AttributedStmt"):
            return seq([self.stmt(c) for c in kids(n)])
        if k in ("NullStmt", "BreakStmt", "ContinueStmt"):
            return EPS
        return self.expr(n)

    def decl(self, v):
        k = v.get("kind")
        if k == "VarDecl":
            if "database_binder" in qt(v):
                raise Unsupported("a prepared statement (database_binder) kept in a variable")
            if is_txn_type(qt(v)):
                raise Unsupported("sqlite_transaction variable outside the local-variable pattern")
            ts = [self.expr(c) for c in kids(v)]
            init = skip_casts(kids(v)[0]) if kids(v) else None
            if init is not None and init.get("kind") == "LambdaExpr" and seq(ts) != EPS:
                self.lambda_vars = True
            return seq(ts)
        if k in ("DecompositionDecl", "BindingDecl"):
            return seq([self.expr(c) for c in kids(v)])
        if k in ("TypedefDecl", "TypeAliasDecl", "UsingDecl", "StaticAssertDecl", "UsingDirectiveDecl", "EnumDecl",
                 "NamespaceAliasDecl", "EmptyDecl", "UsingShadowDecl"):
            return EPS
        if k in ("CXXRecordDecl", "FunctionDecl"):
            if self.has_sql(v):
                raise Unsupported("local class / function with SQL inside a function body")
            return EPS
        raise Unsupported("declaration kind %s in a function body" % k)

    def has_sql(self, n):
        if n.get("kind") == "CXXOperatorCallExpr" and self.sql_site(n) is not None:
            return True
        return any(self.has_sql(c) for c in kids(n))

    # flat mode ("many"): the leaves of a piece of code, scopes kept as scope(many(...))
    def leaves_of_node(self, n):
        k = n.get("kind")
        if k in BAD_STMTS:
            raise Unsupported("statement kind %s" % k)
        if k == "CompoundStmt":
            out = []
            ss = kids(n)
            for i, s in enumerate(ss):
                v = self.txn_decl(s)
                if v is not None:
                    out += self.leaves(self.txn_init(v))
                    inner = []
                    for r in ss[i + 1:]:
                        inner += self.leaves_of_node(r)
                    out.append(("scope", many(inner)))
                    return out
                out += self.leaves_of_node(s)
            return out
        if k in ("IfStmt", "DeclStmt", "ReturnStmt", "CaseStmt", "DefaultStmt", "AttributedStmt", "CXXCatchStmt") or k in FLAT_STMTS:
            if k == "DeclStmt":
                if self.txn_decl(n) is not None:
                    raise Unsupported("sqlite_transaction declared outside a block")
                return [l for v in kids(n) for l in self.leaves(self.decl(v))]
            out = []
            for c in kids(n):
                out += self.leaves_of_node(c)
            return out
        if k in ("NullStmt", "BreakStmt", "ContinueStmt"):
            return []
        if k == "VarDecl":
            return self.leaves(self.decl(n))
        return self.leaves(self.expr(n))

    def leaves(self, t):
        if t == EPS:
            return []
        if t[0] in ("seq", "alt"):
            return [l for u in t[1] for l in self.leaves(u)]
        if t[0] in ("star", "ret"):
            return self.leaves(t[1])
        if t[0] == "scope":
            return [("scope", many(self.leaves(t[1])))]
        return [t]

    # ------------------------------------------------------------------ expressions
    def sql_site(self, n):
        """n: CXXOperatorCallExpr.  -> the <sql> operand if this is `sqlite::database << <sql>`, else None"""
        p = kids(n)
        if len(p) != 3:
            return None
        cal = skip_casts(p[0])
        ref = cal.get("referencedDecl") or {}
        if ref.get("name") != "operator<<":
            return None
        if bare_type(qt(p[1])) not in ("sqlite::database",):
            return None
        return p[2]

    def first_literal(self, n, depth=0):
        """the first string literal of an SQL text expression (source order), following one level of locals"""
        k = n.get("kind")
        if k == "StringLiteral":
            return n.get("value", "")
        if k == "DeclRefExpr" and depth < 3:
            ref = n.get("referencedDecl") or {}
            v = self.var.get(ref.get("id"))
            if v is not None and kids(v):
                return self.first_literal(kids(v)[0], depth + 1)
            return None
        cs = kids(n)
        if k == "CXXOperatorCallExpr" and len(cs) == 3:   # a + b: operands after the callee
            cs = cs[1:]
        elif k in ("CallExpr", "CXXMemberCallExpr") and cs:
            # e.g. sql.operator basic_string_view(): the object is inside the callee expression
            pass
        for c in cs:
            r = self.first_literal(c, depth)
            if r is not None:
                return r
        return None

    def classify_sql(self, operand):
        lit = self.first_literal(operand)
        if lit is None:
            raise Unsupported("SQL text without a leading string literal (assembled at run time)")
        s = lit.strip()
        if s.startswith('"'):
            s = s[1:]
        s = s.replace("\\n", " ").replace("\\t", " ").lstrip(" (")
        kw = re.match(r"[A-Za-z]+", s)
        kw = kw.group(0).upper() if kw else ""
        if kw in READ_KW:
            return ("ev", "read")
        if kw in WRITE_KW:
            return ("ev", "write")
        if kw in ("BEGIN", "COMMIT", "END", "ROLLBACK", "SAVEPOINT", "RELEASE"):
            raise Unsupported("transaction control statement %s outside util::sqlite_transaction" % kw)
        raise Unsupported("SQL statement with unknown leading keyword %r" % s[:30])

    def callee_leaf(self, n):
        """leaf for the function a call expression invokes (arguments are handled by the caller)"""
        k = n.get("kind")
        p = kids(n)
        if not p:
            return EPS
        cal = skip_casts(p[0])
        ck = cal.get("kind")
        if ck == "MemberExpr":
            mid = cal.get("referencedMemberDecl")
            name = cal.get("name", "")
            base = kids(cal)[0] if kids(cal) else {}
            bt = bare_type(qt(base))
            if is_txn_type(bt):
                if name == "commit":
                    if skip_casts(base).get("kind") != "DeclRefExpr":
                        raise Unsupported("commit() on something that is not a local sqlite_transaction")
                    return ("ev", "commit")
                raise Unsupported("sqlite_transaction::%s" % name)
            if mid in self.fn:
                return ("call", self.fn[mid])
            if bt in WRAPPERS:
                return ("wrap", WRAPPERS[bt], name)
            if bt.startswith("djinterop::"):
                return ("ext", bt + "::" + name)
            return EPS
        if ck == "DeclRefExpr":
            ref = cal.get("referencedDecl") or {}
            rid = ref.get("id")
            if rid in self.fn:
                return ("call", self.fn[rid])
            if ref.get("kind") in FUNC_KINDS:
                name = ref.get("name", "")
                if name in ("move", "forward", "swap", "get", "tie", "make_pair", "make_tuple", "make_optional"):
                    return EPS
                if name in ("make_shared", "make_unique"):
                    m = re.search(r"(?:shared_ptr|unique_ptr)<\s*([^,>]+)", qt(n))
                    if m and bare_type(m.group(1)).startswith("djinterop::"):
                        return ("ctor", bare_type(m.group(1)))
                    return EPS
                argt = " ".join(qt(a) for a in p[1:])
                if re.search(r"sqlite::database|engine_storage|engine_library_context|_table\b|_impl\b", argt) and \
                        not name.startswith("operator"):
                    return ("ext", name)
            return EPS
        if ck in ("UnresolvedLookupExpr", "UnresolvedMemberExpr", "CXXDependentScopeMemberExpr", "DependentScopeDeclRefExpr"):
            raise Unsupported("unresolved (dependent) callee in an instantiated body")
        if ck == "CXXPseudoDestructorExpr":
            return EPS
        # call through a function pointer / std::function object / lambda object: the callee's statements are those
        # of a lambda or function value, which is accounted for where it is created ("many")
        return EPS

    def expr(self, n):
        k = n.get("kind")
        if k in BAD_STMTS:
            raise Unsupported("expression kind %s" % k)
        if k == "LambdaExpr":
            body = [c for c in kids(n) if c.get("kind") == "CompoundStmt"]
            caps = [c for c in kids(n) if c.get("kind") not in ("CompoundStmt", "CXXRecordDecl")]
            return seq([self.expr(c) for c in caps] + [("lam", many(self.leaves_of_node(body[-1])))] if body else [])
        if k in ("CXXRecordDecl", "TypedefDecl", "TypeAliasDecl"):
            return EPS
        if k in ("CompoundStmt", "DeclStmt", "IfStmt", "ReturnStmt") or k in FLAT_STMTS:
            return self.stmt(n)
        if k == "CXXOperatorCallExpr":
            sql = self.sql_site(n)
            if sql is not None:
                return seq([self.expr(sql), self.classify_sql(sql)])
        if k in ("CallExpr", "CXXMemberCallExpr", "CXXOperatorCallExpr"):
            p = kids(n)
            cal = skip_casts(p[0]) if p else {}
            ref = cal.get("referencedDecl") or {}
            own = self.callee_leaf(n)
            # the object expression of a member call lives inside the callee expression
            args = [self.expr(c) for c in (kids(cal) if cal.get("kind") == "MemberExpr" else [])] + [self.expr(a) for a in p[1:]]
            sqlite_op = k == "CXXOperatorCallExpr" and ref.get("name") in ("operator<<", "operator>>") and own == EPS
            return self.combine(args, own, sequenced=sqlite_op)
        if k in ("CXXConstructExpr", "CXXTemporaryObjectExpr"):
            t = bare_type(qt(n))
            if is_txn_type(t):
                raise Unsupported("sqlite_transaction constructed outside the local-variable pattern")
            own = ("ctor", t) if t.startswith("djinterop::") else EPS
            return self.combine([self.expr(a) for a in kids(n)], own)
        if k == "ConditionalOperator":
            p = kids(n)
            return seq([self.expr(p[0]), alt([self.expr(p[1]), self.expr(p[2])])])
        if k == "BinaryOperator" and n.get("opcode") in ("&&", "||"):
            p = kids(n)
            return seq([self.expr(p[0]), alt([self.expr(p[1]), EPS])])
        if k == "BinaryOperator" and n.get("opcode") == ",":
            return seq([self.expr(c) for c in kids(n)])
        if k in ("DeclRefExpr", "StringLiteral", "IntegerLiteral", "FloatingLiteral", "CXXBoolLiteralExpr", "CXXThisExpr",
                 "CXXNullPtrLiteralExpr", "CharacterLiteral", "UnaryExprOrTypeTraitExpr", "CXXScalarValueInitExpr",
                 "ImplicitValueInitExpr", "GNUNullExpr", "TypeTraitExpr", "CXXNoexceptExpr", "OpaqueValueExpr",
                 "SizeOfPackExpr", "CXXDefaultArgExpr", "CXXDefaultInitExpr"):
            if is_txn_type(qt(n)) and k != "DeclRefExpr":
                raise Unsupported("sqlite_transaction value in an expression")
            return EPS
        if is_txn_type(qt(n)) and k not in ("ImplicitCastExpr", "ParenExpr"):
            raise Unsupported("sqlite_transaction value in an expression (%s)" % k)
        return self.combine([self.expr(c) for c in kids(n)], EPS)

    def combine(self, args, own, sequenced=False):
        """events of the operands, then the callee's.  Unsequenced operands / callbacks: 'many'."""
        lam = any(self.has_lam(a) for a in args)
        args = [self.unlam(a) for a in args]
        ne = [a for a in args if a != EPS]
        if sequenced:
            return seq(ne + [own])
        if lam and own != EPS:
            return many([l for a in ne for l in self.leaves(a)] + [own])
        a = ne[0] if len(ne) == 1 else many([l for a in ne for l in self.leaves(a)])
        return seq([a, own])

    def has_lam(self, t):
        if t[0] == "lam":
            return True
        if t[0] in ("seq", "alt"):
            return any(self.has_lam(u) for u in t[1])
        if t[0] in ("star", "ret", "scope"):
            return self.has_lam(t[1])
        return False

    def unlam(self, t):
        if t[0] == "lam":
            return t[1]
        if t[0] == "seq":
            return seq([self.unlam(u) for u in t[1]])
        if t[0] == "alt":
            return alt([self.unlam(u) for u in t[1]])
        if t[0] == "star":
            return star(self.unlam(t[1]))
        if t[0] in ("ret", "scope"):
            return (t[0], self.unlam(t[1]))
        return t


def strip_lam(t):
    return TU.unlam(None, t) if False else _unlam(t)


def _unlam(t):
    if t[0] == "lam":
        return _unlam(t[1])
    if t[0] == "seq":
        return seq([_unlam(u) for u in t[1]])
    if t[0] == "alt":
        return alt([_unlam(u) for u in t[1]])
    if t[0] == "star":
        return star(_unlam(t[1]))
    if t[0] in ("ret", "scope"):
        return (t[0], _unlam(t[1]))
    return t


# --------------------------------------------------------------------------------------- whole program

def source_key():
    h = hashlib.sha1()
    for root in (os.path.join(REPO, "src"), os.path.join(REPO, "include"), os.path.join(REPO, "ext", "sqlite_modern_cpp")):
        for dp, dn, fs in sorted(os.walk(root)):
            dn.sort()
            for f in sorted(fs):
                if f.endswith((".cpp", ".hpp", ".h")):
                    h.update(f.encode())
                    h.update(file_sha(os.path.join(dp, f)).encode())
    h.update(file_sha(os.path.abspath(__file__)).encode())
    return h.hexdigest()


def scan_tu(tu):
    """-> {mangled: {tree, access, const}} ; trees as JSON lists; {"error": ...} on an unsupported shape"""
    docs = G.clang_docs(tu)
    t = TU(docs)
    out = {}
    for m, decl in t.bodies.items():
        try:
            tree = _unlam(t.function(decl))
        except Unsupported as e:
            tree = ("unsupported", "%s (in %s)" % (e, m))
        out[m] = {"tree": tree, "access": t.access.get(m), "const": t.const.get(m, False), "override": t.override.get(m, False)}
    decls = {m: {"access": t.access.get(m), "const": t.const.get(m, False), "override": t.override.get(m, False)}
             for m in t.fn.values()}
    return {"bodies": out, "decls": decls}


def to_tuple(x):
    return tuple(to_tuple(y) for y in x) if isinstance(x, list) else x


def scan_all(use_cache=True):
    key = source_key()
    cpath = os.path.join(CACHE, key + ".json")
    if use_cache and os.path.exists(cpath):
        d = json.load(open(cpath))
    else:
        with ThreadPoolExecutor(max_workers=min(6, NCPU)) as ex:
            res = list(ex.map(scan_tu, TUS))
        d = {"bodies": {}, "decls": {}}
        for r in res:
            for m, b in r["bodies"].items():
                d["bodies"].setdefault(m, b)
            for m, b in r["decls"].items():
                o = d["decls"].setdefault(m, b)
                if not o.get("access") and b.get("access"):
                    o["access"] = b["access"]
                o["override"] = bool(o.get("override") or b.get("override"))
        os.makedirs(CACHE, exist_ok=True)
        json.dump(d, open(cpath, "w"))
    for b in d["bodies"].values():
        b["tree"] = to_tuple(b["tree"])
    return d


def demangle(names):
    names = sorted(names)
    if not names:
        return {}
    r = subprocess.run(["c++filt"], input="\n".join(names), stdout=subprocess.PIPE, text=True)
    out = r.stdout.split("\n")
    return {a: re.sub(r"\[abi:[^\]]*\]", "", b).strip() for a, b in zip(names, out)}


def split_name(dem):
    """'a::b::c<x>::m(args) const' -> ('a::b::c<x>', 'm', full-without-return-type)"""
    depth, cut = 0, len(dem)
    for i, ch in enumerate(dem):
        if ch in "<":
            depth += 1
        elif ch == ">":
            depth -= 1
        elif ch == "(" and depth == 0 and not dem[:i].endswith("operator"):
            cut = i
            break
    q = dem[:cut]
    # drop a leading return type of template instantiations ("void ns::f<int>")
    depth = 0
    start = 0
    for i, ch in enumerate(q):
        if ch == "<":
            depth += 1
        elif ch == ">":
            depth -= 1
        elif ch == " " and depth == 0:
            start = i + 1
    q = q[start:]
    depth = 0
    last = -1
    for i, ch in enumerate(q):
        if ch == "<":
            depth += 1
        elif ch == ">":
            depth -= 1
        elif ch == ":" and depth == 0 and q[i:i + 2] == "::":
            last = i
    cls, meth = (q[:last], q[last + 2:]) if last >= 0 else ("", q)
    return cls.replace("(anonymous namespace)::", ""), meth, dem[start:]


class Program:
    def __init__(self, d):
        self.bodies = d["bodies"]
        self.decls = d["decls"]
        self.dem = demangle(set(self.bodies) | set(self.decls) | {l[1] for b in self.bodies.values() for l in self.iter_leaves(b["tree"]) if l[0] == "call"})
        self.info = {m: split_name(self.dem.get(m, m)) for m in self.dem}
        self.by_class = {}
        for m in self.bodies:
            cls, meth, _ = self.info[m]
            self.by_class.setdefault(cls, {}).setdefault(re.sub(r"<.*", "", meth), []).append(m)
        self.assumed_free = set()
        self.unsupported = []
        for m, b in self.bodies.items():
            if b["tree"][0] == "unsupported":
                self.unsupported.append(b["tree"][1])
        self.targets_cache = {}
        self.reach_cache = {}
        self.tree_cache = {}

    def iter_leaves(self, t):
        if t[0] in ("seq", "alt"):
            for u in t[1]:
                yield from self.iter_leaves(u)
        elif t[0] in ("star", "ret", "scope", "lam"):
            yield from self.iter_leaves(t[1])
        elif t[0] in ("call", "wrap", "ctor", "ext"):
            yield t

    def resolve(self, leaf):
        """call-like leaf -> ('fns', [mangled...]) | ('tree', skeleton)"""
        key = leaf
        if key in self.targets_cache:
            return self.targets_cache[key]
        r = self._resolve(leaf)
        self.targets_cache[key] = r
        return r

    def _resolve(self, leaf):
        if leaf[0] == "call":
            m = leaf[1]
            if m in self.bodies:
                return ("fns", [m])
            cls, meth, full = self.info.get(m, ("", m, m))
            if cls in WRAPPERS:
                return self._resolve(("wrap", WRAPPERS[cls], meth))
            return self._external(cls, meth, full)
        if leaf[0] == "wrap":
            kind, meth = leaf[1], leaf[2]
            fns = []
            for cls, (k, _) in IMPL_CLASSES.items():
                if k == kind:
                    fns += self.by_class.get(cls, {}).get(meth, [])
            if not fns:
                self.assumed_free.add("djinterop::%s::%s (no override in the impl classes)" % (kind, meth))
                return ("tree", EPS)
            return ("fns", fns)
        if leaf[0] == "ctor":
            cls = leaf[1]
            short = cls.split("::")[-1]
            fns = self.by_class.get(cls, {}).get(short, [])
            if not fns and cls in DB_CLASSES and False:
                raise Unsupported("constructor of %s has no body in the analysed files" % cls)
            return ("fns", fns) if fns else ("tree", EPS)
        if leaf[0] == "ext":
            q = leaf[1]
            cls, _, meth = q.rpartition("::")
            return self._external(cls, meth, q)
        raise Unsupported("leaf %r" % (leaf,))

    def _external(self, cls, meth, full):
        for rx, sk in EXTERNAL:
            if re.search(rx, full):
                return ("tree", sk)
        if cls in DB_CLASSES:
            # implicit special members (copy constructor, destructor, assignment) have no body and no SQL
            short = cls.split("::")[-1]
            if meth in (short, "~" + short, "operator="):
                return ("tree", EPS)
            raise Unsupported("callee %s has no body in the analysed files" % full)
        self.assumed_free.add(full)
        return ("tree", EPS)

    def callees(self, m):
        out = []
        for l in self.iter_leaves(self.bodies[m]["tree"]):
            r = self.resolve(l)
            if r[0] == "fns":
                out += r[1]
        return out

    def reach(self, m):
        if m in self.reach_cache:
            return self.reach_cache[m]
        seen, todo = set(), list(self.callees(m))
        while todo:
            x = todo.pop()
            if x in seen:
                continue
            seen.add(x)
            todo += self.callees(x)
        self.reach_cache[m] = seen
        return seen

    def tree(self, m):
        """skeleton of function m with calls replaced by ('ref', callee) / dropped when the callee has no events"""
        if m in self.tree_cache:
            return self.tree_cache[m]
        raw = self.bodies[m]["tree"]
        if raw[0] == "unsupported":
            raise Unsupported(raw[1])
        rs = self.reach(m)
        if m in rs:
            # recursion: any number of the statements of the cycle and of everything it reaches, in any order
            scc = [x for x in rs if m in self.reach(x)] + [m]
            self.tree_cache[m] = EPS      # cut while computing
            leaves = []
            for x in sorted(set(scc)):
                rx = self.bodies[x]["tree"]
                if rx[0] == "unsupported":
                    raise Unsupported(rx[1])
                leaves += self.flat_leaves(rx, set(scc))
            t = many(leaves)
        else:
            t = self.subst(raw)
        self.tree_cache[m] = t
        return t

    def ref(self, m):
        t = self.tree(m)
        return EPS if t == EPS else ("ref", m)

    def leaf_tree(self, l, cut=()):
        r = self.resolve(l)
        if r[0] == "tree":
            return r[1]
        return alt([self.ref(x) for x in r[1] if x not in cut] + ([EPS] if any(x in cut for x in r[1]) else []))

    def subst(self, t):
        if t[0] == "seq":
            return seq([self.subst(u) for u in t[1]])
        if t[0] == "alt":
            return alt([self.subst(u) for u in t[1]])
        if t[0] == "star":
            return star(self.subst(t[1]))
        if t[0] in ("ret", "scope"):
            s = self.subst(t[1])
            return EPS if (s == EPS and t[0] == "ret") else (t[0], s)
        if t[0] in ("call", "wrap", "ctor", "ext"):
            return self.leaf_tree(t)
        return t

    def flat_leaves(self, t, cut):
        if t == EPS:
            return []
        if t[0] in ("seq", "alt"):
            return [l for u in t[1] for l in self.flat_leaves(u, cut)]
        if t[0] in ("star", "ret"):
            return self.flat_leaves(t[1], cut)
        if t[0] == "scope":
            return [("scope", many(self.flat_leaves(t[1], cut)))]
        if t[0] in ("call", "wrap", "ctor", "ext"):
            x = self.leaf_tree(t, cut)
            return [] if x == EPS else [x]
        return [t]

    # ------------------------------------------------------------------ entry points
    def entries(self):
        out = []
        for m in sorted(self.bodies, key=lambda m: self.info[m][2]):
            cls, meth, full = self.info[m]
            if meth.startswith(("operator", "~")) or meth == cls.split("::")[-1]:
                continue
            acc = self.bodies[m].get("access") or (self.decls.get(m) or {}).get("access") or "public"
            if acc != "public":
                continue
            base = re.sub(r"<.*", "", meth)
            if cls in IMPL_CLASSES:
                # the public API reaches the impl classes only through the virtuals of djinterop::{track,crate,database}_impl
                if not (self.bodies[m].get("override") or (self.decls.get(m) or {}).get("override")):
                    continue
                kind, gen = IMPL_CLASSES[cls]
                role = "mutator" if (base.startswith("set_") or base in MUT_CORE[kind]) else "observer"
            elif cls in TABLE_CLASSES:
                if base.startswith(("set_", "add", "update", "remove", "clear")):
                    role = "mutator"
                elif base.startswith("get") or base in ("exists", "all_ids", "all", "after", "last", "track_ids") or \
                        base.startswith("find_") or base.endswith("_ids"):
                    role = "observer"
                else:
                    role = "unclassified"
            else:
                continue
            out.append((full.replace(NS, ""), m, role))
        return out


# --------------------------------------------------------------------------------------- Lean output

def lean_tree(t, names):
    k = t[0]
    if k == "eps":
        return ".eps"
    if k == "ev":
        return {"read": ".r", "write": ".w", "commit": ".c"}[t[1]]
    if k == "seq":
        return ".seqs [" + ", ".join(lean_tree(u, names) for u in t[1]) + "]"
    if k == "alt":
        return ".alts [" + ", ".join(lean_tree(u, names) for u in t[1]) + "]"
    if k in ("star", "scope", "ret"):
        return "." + k + " (" + lean_tree(t[1], names) + ")"
    if k == "ref":
        return names[t[1]]
    raise Unsupported("cannot print %r" % (t,))


def text_tree(t, prog, depth=0):
    k = t[0]
    if k == "eps":
        return "-"
    if k == "ev":
        return t[1]
    if k == "seq":
        return " ".join(text_tree(u, prog, depth) for u in t[1])
    if k == "alt":
        return "(" + " | ".join(text_tree(u, prog, depth) for u in t[1]) + ")"
    if k == "star":
        x = text_tree(t[1], prog, depth)
        return (x if x.startswith("(") or " " not in x else "(" + x + ")") + "*"
    if k == "scope":
        return "[open " + text_tree(t[1], prog, depth) + " close]"
    if k == "ret":
        return "ret{" + text_tree(t[1], prog, depth) + "}"
    if k == "ref":
        if depth > 6:
            return "…"
        return text_tree(prog.tree(t[1]), prog, depth + 1)
    return "?"


def refs_of(t, acc):
    if t[0] in ("seq", "alt"):
        for u in t[1]:
            refs_of(u, acc)
    elif t[0] in ("star", "scope", "ret"):
        refs_of(t[1], acc)
    elif t[0] == "ref":
        acc.append(t[1])


def generate(use_cache=True):
    """-> (lean text, status dict).  Raises Unsupported."""
    d = scan_all(use_cache)
    prog = Program(d)
    ents = prog.entries()
    if len(ents) < 150:
        raise Unsupported("only %d entry points found (AST layout changed?)" % len(ents))
    order, seen = [], set()

    def visit(m):
        if m in seen:
            return
        seen.add(m)
        t = prog.tree(m)
        acc = []
        refs_of(t, acc)
        for x in acc:
            visit(x)
        order.append(m)
    for _, m, _ in ents:
        visit(m)
    names = {}
    used = {}
    for m in order:
        if prog.tree(m) == EPS:
            continue
        cls, meth, _ = prog.info[m]
        base = re.sub(r"[^A-Za-z0-9_]", "_", (cls.replace(NS, "").replace("::", "_") + "_" + re.sub(r"<.*", "", meth)))
        used[base] = used.get(base, 0) + 1
        names[m] = "f_%s_%d" % (base, used[base])
    out = ["/- GENERATED by tools/tr_sqlsites.py from src/djinterop/engine/{v1,v2}/*.cpp, *.hpp — do not edit.",
           "   Skeleton of the SQL statement sites, transaction scopes and calls of every function the public entry",
           "   points reach (clang typed AST; meaning: EngineModel/Spec/SqlSites.lean). -/",
           "import EngineModel.Spec.SqlSites", "", "namespace EngineModel.Gen.SqlSites", "open EngineModel.Spec.SqlSites", ""]
    for m in order:
        if m not in names:
            continue
        out.append("/-- `%s` -/" % prog.info[m][2].replace(NS, "").replace("/-", "/ -").replace("-/", "- /"))
        out.append("def %s : Sk := %s" % (names[m], lean_tree(prog.tree(m), names)))
    out.append("")

    def entry(e):
        nm, m, _ = e
        return '  ("%s", %s)' % (nm.replace('"', "'"), names.get(m, ".eps"))
    for lst, sel in (("sites", lambda r: True), ("mutators", lambda r: r == "mutator"), ("observers", lambda r: r == "observer")):
        es = [e for e in ents if sel(e[2])]
        out.append("def %s : List Entry := [" % lst)
        out.append(",\n".join(entry(e) for e in es))
        out.append("]")
        out.append("")
    out.append("end EngineModel.Gen.SqlSites")
    status = {"entries": len(ents), "mutators": sum(1 for e in ents if e[2] == "mutator"),
              "observers": sum(1 for e in ents if e[2] == "observer"),
              "unclassified": [e[0] for e in ents if e[2] == "unclassified"],
              "functions_with_events": len(names),
              "unsupported_functions_not_reached": len(prog.unsupported),
              "assumed_sql_free_externals": sorted(prog.assumed_free)}
    return "\n".join(out) + "\n", status, prog, ents


def regenerate():
    """the TRANSLATORS hook of the C14 / C16 plugins: regenerate, fail closed"""
    try:
        text, status, _, _ = generate()
    except Unsupported as e:
        return "unsupported-node: %s (kept the committed Gen/SqlSites.lean)" % (str(e)[:300],)
    old = open(GEN).read() if os.path.exists(GEN) else ""
    changed = ""
    if text != old:
        open(GEN, "w").write(text)
        # which functions' skeletons differ from the committed translation (names the entry point behind a failing `decide`)
        def defs(t):
            return dict(re.findall(r"/-- `(.*?)` -/\ndef \S+ : Sk := (.*)", t))
        a, b = defs(old), defs(text)
        diff = sorted(k for k in set(a) | set(b) if a.get(k) != b.get(k))
        changed = "; skeleton changed: " + ", ".join(d[:60] for d in diff[:8]) + (" …" if len(diff) > 8 else "")
    return "regenerated (%s): %d entry points (%d mutators, %d observers), %d functions with SQL events%s" % (
        "identical" if text == old else "CHANGED", status["entries"], status["mutators"], status["observers"],
        status["functions_with_events"], changed)


if __name__ == "__main__":
    if "--table" in sys.argv:
        text, status, prog, ents = generate("--no-cache" not in sys.argv)
        for nm, m, role in ents:
            print("%-10s %-70s %s" % (role, nm[:70], text_tree(prog.tree(m), prog)[:400]))
        print(json.dumps(status, indent=1))
    else:
        print(regenerate())
