#!/usr/bin/env python3
"""Build the sanitizer-instrumented library objects and the harness from
/repo's *current working tree*.

Cache: one object per translation unit, keyed by the content hashes of the TU
and every header it included last time (gcc depfile).  "Rebuild from the
working tree" is therefore exact (any edited file invalidates every TU that
includes it) and costs nothing when nothing changed.
"""
import json, os, re, shlex, subprocess, sys, time
from concurrent.futures import ThreadPoolExecutor
from common import *

CXX = os.environ.get("VERIF_CXX", "g++")
SAN = ["-fsanitize=address,undefined,float-cast-overflow", "-fno-sanitize-recover=all", "-fno-omit-frame-pointer"]
BASEFLAGS = ["-std=gnu++17", "-O1", "-g1", "-DNDEBUG", "-D_GLIBCXX_ASSERTIONS",
             "-DDJINTEROP_SOURCE", "-DDjInterop_EXPORTS", "-DDJINTEROP_VERIF",
             "-Wno-error", "-w"] + SAN
WRAPS = ["sqlite3_step", "sqlite3_open_v2", "sqlite3_prepare_v2", "inflate", "deflate"]


def includes():
    return ["-I" + GENINC, "-I" + REPO + "/include", "-I" + REPO + "/ext/sqlite_modern_cpp",
            "-I" + REPO + "/ext/date", "-I" + REPO + "/src"]


def library_sources():
    """The library's TU list, read from the current CMakeLists.txt (so an added
    or removed source file is followed), falling back to a directory walk."""
    srcs = []
    try:
        txt = open(REPO + "/CMakeLists.txt").read()
        m = re.search(r"add_library\(\s*DjInterop(.*?)\)", txt, re.S)
        if m:
            srcs = [s for s in m.group(1).split() if s.endswith(".cpp")]
    except OSError:
        pass
    if not srcs:
        for root, _, files in os.walk(REPO + "/src"):
            for f in files:
                if f.endswith(".cpp"):
                    srcs.append(os.path.relpath(os.path.join(root, f), REPO))
    return sorted(srcs)


def gen_config():
    os.makedirs(GENINC + "/djinterop", exist_ok=True)
    src = open(REPO + "/include/djinterop/config.hpp.in").read()
    out = src.replace("#cmakedefine DJINTEROP_STATIC", "/* #undef DJINTEROP_STATIC */")
    path = GENINC + "/djinterop/config.hpp"
    if not os.path.exists(path) or open(path).read() != out:
        open(path, "w").write(out)


def parse_depfile(path):
    try:
        txt = open(path).read()
    except OSError:
        return None
    txt = txt.replace("\\\n", " ")
    _, _, deps = txt.partition(":")
    return [d for d in shlex.split(deps) if d]


def needs_build(obj, stamp_path, flags_sig):
    if not os.path.exists(obj):
        return True
    try:
        st = json.load(open(stamp_path))
    except (OSError, ValueError):
        return True
    if st.get("flags") != flags_sig:
        return True
    for p, h in st["deps"].items():
        if file_sha(p) != h:
            return True
    return False


def compile_one(src_abs, obj, extra=()):
    dep = obj + ".d"
    stamp = obj + ".stamp"
    flags = BASEFLAGS + list(extra) + includes()
    sig = sha(" ".join([CXX] + flags).encode())
    if not needs_build(obj, stamp, sig):
        return (src_abs, True, "cached", 0.0)
    os.makedirs(os.path.dirname(obj), exist_ok=True)
    t0 = time.time()
    r = run([CXX] + flags + ["-MD", "-MF", dep, "-c", src_abs, "-o", obj])
    if r.returncode != 0:
        for p in (obj, stamp):
            if os.path.exists(p):
                os.remove(p)
        return (src_abs, False, r.stderr[-4000:], time.time() - t0)
    deps = parse_depfile(dep) or [src_abs]
    json.dump({"flags": sig, "deps": {p: file_sha(p) for p in deps if not p.startswith("/usr/")}},
              open(stamp, "w"))
    return (src_abs, True, "built", time.time() - t0)


def build(verbose=True):
    """Returns dict(ok, built, cached, errors, wall_s)."""
    t0 = time.time()
    with locked("build"):
        gen_config()
        jobs = []
        for s in library_sources():
            jobs.append((os.path.join(REPO, s), os.path.join(OBJ, "lib", s[:-4] + ".o"), ()))
        for f in sorted(os.listdir(HARNESS_SRC)):
            if f.endswith(".cpp"):
                jobs.append((os.path.join(HARNESS_SRC, f), os.path.join(OBJ, "harness", f[:-4] + ".o"),
                             ("-I" + HARNESS_SRC,)))
        with ThreadPoolExecutor(NCPU) as ex:
            res = list(ex.map(lambda j: compile_one(*j), jobs))
        errors = [(s, msg) for (s, ok, msg, _) in res if not ok]
        built = [s for (s, ok, msg, _) in res if ok and msg == "built"]
        out = {"ok": not errors, "built": len(built), "cached": len(res) - len(built) - len(errors),
               "errors": errors}
        if errors:
            out["wall_s"] = time.time() - t0
            return out
        objs = [j[1] for j in jobs]
        # drop stale objects of sources that no longer exist
        link_sig = sha(("\n".join(o + file_sha(o) for o in objs)).encode())
        sigpath = HARNESS_BIN + ".sig"
        if not (os.path.exists(HARNESS_BIN) and os.path.exists(sigpath) and open(sigpath).read() == link_sig):
            cmd = [CXX] + SAN + ["-o", HARNESS_BIN] + objs + \
                  ["-Wl," + ",".join("--wrap=" + w for w in WRAPS), "-lsqlite3", "-lz", "-lpthread"]
            r = run(cmd)
            if r.returncode != 0:
                out["ok"] = False
                out["errors"] = [("link", r.stderr[-4000:])]
            else:
                open(sigpath, "w").write(link_sig)
        out["wall_s"] = time.time() - t0
        return out


if __name__ == "__main__":
    r = build()
    for s, msg in r["errors"]:
        print("ERROR", s, "\n", msg)
    print(json.dumps({k: v for k, v in r.items() if k != "errors"}))
    sys.exit(0 if r["ok"] else 1)
