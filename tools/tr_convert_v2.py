#!/usr/bin/env python3
"""Translator: the pure conversion helpers of the schema-2.x track path
(src/djinterop/engine/v2/convert_track.hpp, convert_hot_cues.hpp, convert_loops.hpp; namespaces
`convert::read` / `convert::write`) -> lean/EngineModel/Gen/ConvertV2Gen.lean.

The functions are read from clang's typed AST of the translation unit that uses them
(`v2/track_impl.cpp`, the harness build's -D flags; one clang run with
`-ast-dump-filter=djinterop::engine::v2::convert::`, then one small run per referenced constant /
static member function, in parallel) and emitted as `Res`-valued definitions over the SAME
representations as the hand model `TracksV2/Model.lean` (integers and doubles as bit patterns,
`std::optional` as `Option`, vectors as lists), so that `Proofs/ConvertV2GenEq.lean` can prove each
one equal to the corresponding component of the hand model.  Vocabulary: `Pure/ConvertCxx.lean`
(namespace `Cv`); mapping table: TABLE below (`--table`) and design/convert_v2.md.

Fail closed: a function whose AST leaves the fragment raises Unsupported(kind at file:line); its
block (`-- BEGIN f … -- END f`) keeps the previously committed text, the other functions are still
regenerated, and the status `unsupported-node: …` goes into the evidence.  Never an alarm by itself.
"""
import json, os, re, struct, subprocess, sys
from concurrent.futures import ThreadPoolExecutor
sys.path.insert(0, os.path.dirname(os.path.abspath(__file__)))
from common import *
import tr_beatgrid as TB

Unsupported = TB.Unsupported
kids = TB.kids

SRC = "src/djinterop/engine/v2/track_impl.cpp"
FILTER = "djinterop::engine::v2::convert::"
HEADERS = ("convert_track.hpp", "convert_hot_cues.hpp", "convert_loops.hpp")
TARGET = os.path.join(LEAN, "EngineModel", "Gen", "ConvertV2Gen.lean")
# static member functions the conversions call (translated like the conversions themselves)
STATIC_METHODS = {"quick_cue_blob": "quick_cue_blob::empty", "loop_blob": "loop_blob::empty"}

TABLE = [
    ("int, int32_t, musical_key (enum class : int)", "UInt32 (bit pattern)"),
    ("long, int64_t, unsigned long long, std::chrono::milliseconds (its int64_t count)", "UInt64 (bit pattern)"),
    ("double", "F = UInt64 (IEEE-754 bits)"),
    ("uint8_t / bool", "UInt8 / Bool"),
    ("size_t (only from v.size() and constants; no arithmetic)", "Nat"),
    ("std::string / std::vector<T> / std::optional<T>", "Bytes / List T / Option T"),
    ("quick_cue_blob, loop_blob, track_data_blob, quick_cues_blob, pad_color, hot_cue, loop", "V2.Cue, V2.Loop, V2.Track, V2.Cues, V2.Color, HotCue, LoopV (field table STRUCTS; members by name)"),
    ("loops_blob", "Cv.LoopsBlob (loops, extra)"),
    ("converted_bpm_fields / converted_key_fields / converted_sample_count_fields", "pairs, in member order"),
    ("integer / bool literal, -literal, literal under a cast", "Cv.i32 k / Cv.i64 k / Cv.u64 k / Cv.u8 k / (k : Nat) — folded to the target type"),
    ("double literal, -literal, integer constant converted to double", "the bit pattern (0x… : F)"),
    ("namespace-scope constant (RATING_NONE, MAX_LOOPS, QUICK_CUE_SAMPLE_OFFSET_EMPTY …)", "def <NAME> with the folded initialiser (own clang run)"),
    ("int -> int64_t / int64_t -> int / int64_t <-> unsigned long long", "Cv.i32ToI64 / Cv.i64ToI32 (modular) / Cv.i64ToU64, Cv.u64ToI64 (same bits)"),
    ("enum <-> int (static_cast)", "identity on the bits"),
    ("uint8_t -> bool", "Cv.u8ToBool"),
    ("static_cast<int64_t>(double)", "← Cv.f64ToI64 e  (ub float_cast_range unless the truncated value is representable)"),
    ("unsigned long long -> double / int64_t -> double", "ops.ofU64 e / ops.ofI64 e  (FOps parameter)"),
    ("== != < <= > >= on int64_t / int / unsigned long long", "Cv.I64.eq … / Cv.I32.… / Cv.U64.…  (> and >= with the operands swapped)"),
    ("== != < <= > >= on double", "F64.eq / ne / lt / le (exact on the bits, NaN included)"),
    ("< <= > >= == != on size_t", "decide (a ⋈ b) on Nat"),
    ("+ - * / on int64_t", "← Cv.I64.add / sub / mul / div  (ub signed_overflow, ub div_zero)"),
    ("std::clamp(v, lo, hi) on int, lo <= hi constants", "Cv.I32.clamp v lo hi"),
    ("a && b, a || b", "(a && b), (a || b) when b has no effect; otherwise ← Cv.andAlso a (do …b…) / Cv.orElse"),
    ("!a", "(!a)"),
    ("c ? a : b", "(if c then a else b); with effects in a branch: ← (if c then (do …) else (do …))"),
    ("opt (contextually bool), opt.has_value()", "Option.isSome opt"),
    ("*opt, opt->m", "← Cv.deref opt (ub empty_optional), then .m"),
    ("opt.value()", "← Cv.value opt (throw bad_optional_access)"),
    ("opt.value_or(d)", "Option.getD opt d' — d' = d converted to T as value_or's static_cast does"),
    ("std::nullopt, std::optional<T>{} / std::make_optional(x), optional<T>(x)", "none / some x"),
    ("util::optional_static_cast<T>(opt)", "Option.map (conversion U -> T) opt  (only conversions without effects)"),
    ("std::chrono::milliseconds{} / milliseconds{n} / d.count()", "Cv.i64 0 / n / d"),
    ("T{a, b, …} (aggregate), pad_color{r, g, b, a}", "{ f1 := a, f2 := b, … : T }"),
    ("\"\" / std::string copy", "([] : Bytes) / the same list"),
    ("std::vector<T> v; / loops_blob b;", "[] / { loops := [], extra := [] }"),
    ("v.reserve(n)", "nothing (capacity only; length_error above max_size() is outside the model: sizes < 2^53)"),
    ("v.push_back(e) / s.m.push_back(e)", "let v := v ++ [e] / let s := { s with m := s.m ++ [e] }"),
    ("v.size()", "List.length v"),
    ("for (auto&& c : xs) v.push_back(e(c));", "let v ← Cv.forPush (fun c => do …; pure e) v xs"),
    ("while (v.size() < N) v.push_back(e);", "let v ← Cv.whilePush N (do …; pure e) v"),
    ("x = e; (optional / scalar local)", "let x := e"),
    ("v.empty()", "List.isEmpty v"),
    ("for (auto it = std::begin(xs); it != std::end(xs); ++it) { body assigning one local s }; it->m, *it", "let s ← Cv.forFold (fun s it => do …; pure s) s xs; it.m, it"),
    ("auto& r = v.back();  r.f = e;", "let r ← Cv.back v (ub when empty); let r := { r with f := e }; let v := Cv.setBack v r — refused once v is modified structurally"),
    ("int -> uint8_t", "Cv.i32ToU8 (modular)"),
    ("if (c) { assignments }", "let x ← (if c then (do …; pure x') else pure x)"),
    ("if (c) return e; / if (c) { …; return e; }", "if c then (…; pure e) else …rest…"),
    ("if (c) throw X{…}; / throw X{…};", "if c then .throw X else … / .throw X  (djinterop::name -> .dj \"name\"; std::… -> the coarse class)"),
    ("f(args) — another function of convert::read / convert::write, T::empty()", "← read_f args / write_f args / T_empty"),
    ("return e;", "pure e"),
]

THROWS = dict(TB.THROWS)
LEAN_KEYWORDS = {"end", "at", "from", "in", "do", "then", "else", "if", "fun", "let", "have", "show", "with", "open",
                 "def", "by", "match", "where", "instance", "structure", "class", "namespace", "section", "import",
                 "for", "return", "mut", "try", "catch", "unless", "export", "local", "prefix", "infix", "notation"}

# C++ struct -> (Lean type, [(C++ member, Lean field, tag)] in aggregate-initialisation order)
STRUCTS = {
    "track_data_blob": ("V2.Track", [("sample_rate", "sampleRate", "f64"), ("samples", "samples", "i64"), ("key", "key", "i32"),
                                     ("average_loudness_low", "lo", "f64"), ("average_loudness_mid", "mid", "f64"),
                                     ("average_loudness_high", "hi", "f64")]),
    "quick_cue_blob": ("V2.Cue", [("label", "label", "str"), ("sample_offset", "off", "f64"), ("color", "color", "pad_color")]),
    "hot_cue": ("HotCue", [("label", "label", "str"), ("sample_offset", "off", "f64"), ("color", "color", "pad_color")]),
    "loop": ("LoopV", [("label", "label", "str"), ("start_sample_offset", "start", "f64"), ("end_sample_offset", "stop", "f64"),
                       ("color", "color", "pad_color")]),
    "loop_blob": ("V2.Loop", [("label", "label", "str"), ("start_sample_offset", "start", "f64"), ("end_sample_offset", "stop", "f64"),
                              ("is_start_set", "isStart", "u8"), ("is_end_set", "isEnd", "u8"), ("color", "color", "pad_color")]),
    "pad_color": ("V2.Color", [("r", "r", "u8"), ("g", "g", "u8"), ("b", "b", "u8"), ("a", "a", "u8")]),   # constructor (r, g, b, a)
    "quick_cues_blob": ("V2.Cues", [("quick_cues", "cues", ("vec", "quick_cue_blob")), ("adjusted_main_cue", "adjMain", "f64"),
                                    ("is_main_cue_adjusted", "isAdj", "bool"), ("default_main_cue", "defMain", "f64")]),
    "beat_grid_marker_blob": ("V2.Marker", [("sample_offset", "off", "f64"), ("beat_number", "beatNo", "i64"),
                                            ("number_of_beats", "nBeats", "i32"), ("unknown_value_1", "unk", "i32")]),
    "beatgrid_marker": ("GMarker", [("index", "index", "i32"), ("sample_offset", "off", "f64")]),
    "loops_blob": ("Cv.LoopsBlob", [("loops", "loops", ("vec", "loop_blob")), ("extra_data", "extra", ("vec", "byte"))]),
}
TUPLES = {   # result structs of convert::write, as pairs in member order
    "converted_bpm_fields": [("opt", "f64"), ("opt", "i64")],
    "converted_key_fields": [("opt", "i32"), "i32"],
    "converted_sample_count_fields": ["i64", "f64"],
    "converted_beatgrid_fields": ["u8", ("vec", "beat_grid_marker_blob"), ("vec", "beat_grid_marker_blob")],
}
# member typedefs that appear undesugared in a function's declared return type (every returned expression's own,
# desugared type is compared with it, so a wrong entry makes the function Unsupported, never mistranslated)
TYPEDEFS = {"beat_data_blob::beat_grid_marker_blobs_type": ("vec", "beat_grid_marker_blob"),
            "quick_cues_blob::quick_cue_blobs_type": ("vec", "quick_cue_blob"),
            "loops_blob::loop_blobs_type": ("vec", "loop_blob")}
SCALARS = {"int": "i32", "long": "i64", "long long": "i64", "unsigned long long": "u64", "unsigned long": "usize",
           "unsigned char": "u8", "double": "f64", "bool": "bool", "void": "void", "int32_t": "i32", "int64_t": "i64",
           "uint8_t": "u8", "uint_least8_t": "u8", "size_t": "usize", "std::byte": "byte",
           "djinterop::musical_key": "key", "musical_key": "key", "std::nullopt_t": "nullopt",
           "std::chrono::milliseconds": "ms", "std::string": "str"}
INT_RANGE = {"i32": (-2 ** 31, 2 ** 31 - 1), "key": (-2 ** 31, 2 ** 31 - 1), "i64": (-2 ** 63, 2 ** 63 - 1),
             "u64": (0, 2 ** 64 - 1), "usize": (0, 2 ** 64 - 1), "u8": (0, 255), "bool": (0, 1)}


def split_targs(s):
    out, depth, cur = [], 0, ""
    for ch in s:
        if ch == "<":
            depth += 1
        elif ch == ">":
            depth -= 1
        if ch == "," and depth == 0:
            out.append(cur.strip())
            cur = ""
        else:
            cur += ch
    if cur.strip():
        out.append(cur.strip())
    return out


def tag_of(q):
    """C++ type spelling (desugared) -> tag"""
    q = re.sub(r"\bconst\b|\bstruct\b|\bclass\b", "", q).replace("&", "").strip()
    q = re.sub(r"\s+", " ", q)
    if q in SCALARS:
        return SCALARS[q]
    if q in TYPEDEFS:
        return TYPEDEFS[q]
    mi = re.match(r"__gnu_cxx::__normal_iterator<(.*?) \*, ?std::vector<", q)
    if mi:
        return ("iter", tag_of(mi.group(1)))
    m = re.fullmatch(r"([A-Za-z_:0-9]+)<(.*)>", q)
    if m:
        head, args = m.group(1), split_targs(m.group(2))
        if head == "std::optional" and len(args) == 1:
            return ("opt", tag_of(args[0]))
        if head == "std::vector" and args:
            return ("vec", tag_of(args[0]))
        if head == "std::basic_string" and args and args[0] == "char":
            return "str"
        if head == "std::chrono::duration" and len(args) == 2 and args[0] == "long" and re.sub(r"\s", "", args[1]) == "std::ratio<1,1000>":
            return "ms"
        return "?" + q
    base = q.split("::")[-1]
    if base in STRUCTS or base in TUPLES:
        return base
    return "?" + q


def ntag(n):
    t = n.get("type", {}) if isinstance(n, dict) else {}
    return tag_of(t.get("desugaredQualType") or t.get("qualType", ""))


def lean_type(t):
    if isinstance(t, tuple):
        return "(%s %s)" % ({"opt": "Option", "vec": "List"}[t[0]], lean_type(t[1]))
    if t in STRUCTS:
        return STRUCTS[t][0]
    if t in TUPLES:
        return "(" + " × ".join(lean_type(x) for x in TUPLES[t]) + ")"
    r = {"i32": "UInt32", "key": "UInt32", "i64": "UInt64", "u64": "UInt64", "ms": "UInt64", "f64": "F", "u8": "UInt8",
         "byte": "UInt8", "bool": "Bool", "usize": "Nat", "str": "Bytes"}.get(t)
    if not r:
        raise Unsupported("type " + str(t))
    return r


def lname(x):
    return "«%s»" % x if x in LEAN_KEYWORDS else x


def f64_bits(v):
    return "(0x%016x : F)" % struct.unpack(">Q", struct.pack(">d", v))[0]


def int_lit(v, t, node=None):
    lo, hi = INT_RANGE[t]
    if not (lo <= v <= hi):
        raise Unsupported("constant %d outside %s" % (v, t), node)
    if t == "usize":
        return "(%d : Nat)" % v
    if t == "bool":
        return "true" if v else "false"
    return "(Cv.%s %s)" % ({"key": "i32"}.get(t, t), "(%d)" % v if v < 0 else str(v))


def cast_term(src, dst, e, node=None):
    """A conversion without effects, as a Lean term; the bool is "needs ops"."""
    if src == dst or {src, dst} == {"i32", "key"} or {src, dst} == {"i64", "ms"}:
        return e, False
    tbl = {("i32", "i64"): "Cv.i32ToI64", ("key", "i64"): "Cv.i32ToI64", ("i64", "i32"): "Cv.i64ToI32",
           ("i64", "u64"): "Cv.i64ToU64", ("u64", "i64"): "Cv.u64ToI64", ("i32", "u64"): "Cv.i32ToU64", ("u8", "bool"): "Cv.u8ToBool",
           ("i32", "u8"): "Cv.i32ToU8"}
    if (src, dst) in tbl:
        return "(%s %s)" % (tbl[(src, dst)], e), False
    if dst == "f64" and src == "u64":
        return "(ops.ofU64 %s)" % e, True
    if dst == "f64" and src in ("i64", "ms"):
        return "(ops.ofI64 %s)" % e, True
    if dst == "f64" and src in ("i32", "key"):
        return "(ops.ofI64 (Cv.i32ToI64 %s))" % e, True
    raise Unsupported("conversion %s -> %s" % (src, dst), node)


class Ctx:
    """What is known outside a function: folded constants, the translated functions."""
    def __init__(self):
        self.consts = {}      # C++ name -> (tag, python value)
        self.funcs = {}       # decl id -> (lean name, needs_ops)
        self.methods = {}     # class name -> (lean name, needs_ops)   (static T::empty())


class Block:
    def __init__(self, fn, env):
        self.fn = fn
        self.env = dict(env)       # C++ local -> (lean name, tag)
        self.lines = []            # (indent, text)
        self.ind = 0

    def emit(self, s):
        self.lines.append((self.ind, s))

    def tmp(self):
        self.fn.n += 1
        return "t%d" % self.fn.n

    def bind(self, rhs):
        t = self.tmp()
        self.emit("let %s ← %s" % (t, rhs))
        return t

    def sub(self):
        b = Block(self.fn, self.env)
        return b

    def oneline(self, b, result):
        """`(do l1; l2; pure result)` for a sub-block of simple lines"""
        for ind, l in b.lines:
            if ind != 0 or not l.startswith("let "):
                raise Unsupported("control flow inside a sub-expression")
        if not b.lines:
            return "(pure %s)" % result
        return "(do %s; pure %s)" % ("; ".join(l for _, l in b.lines), result)

    # ---------- constants ----------
    def const_int(self, n):
        k = n.get("kind")
        ks = kids(n)
        if k in TB.WRAPPERS and len(ks) == 1:
            return self.const_int(ks[0])
        if k == "IntegerLiteral":
            return int(n["value"])
        if k == "CXXBoolLiteralExpr":
            return 1 if n.get("value") else 0
        if k == "UnaryOperator" and n.get("opcode") == "-" and ntag(n) in INT_RANGE:
            v = self.const_int(ks[0])
            return None if v is None else -v
        if k in ("ImplicitCastExpr", "CXXStaticCastExpr", "CStyleCastExpr", "CXXFunctionalCastExpr") and len(ks) == 1:
            if n.get("castKind") in ("NoOp", "LValueToRValue"):
                return self.const_int(ks[0])
            if n.get("castKind") == "IntegralCast" and ntag(n) in INT_RANGE:
                v = self.const_int(ks[0])
                if v is None:
                    return None
                lo, hi = INT_RANGE[ntag(n)]
                if not (lo <= v <= hi):     # a wrapping constant conversion: not folded
                    return None
                return v
        if k == "DeclRefExpr":
            nm = n["referencedDecl"].get("name")
            if n["referencedDecl"].get("kind") == "VarDecl" and nm in self.fn.ctx.consts and nm not in self.env:
                t, v = self.fn.ctx.consts[nm]
                if t in INT_RANGE:
                    return v
        return None

    def const_float(self, n):
        k = n.get("kind")
        ks = kids(n)
        if k in TB.WRAPPERS and len(ks) == 1:
            return self.const_float(ks[0])
        if k == "FloatingLiteral":
            return float(n["value"])
        if k == "UnaryOperator" and n.get("opcode") == "-" and ntag(n) == "f64":
            v = self.const_float(ks[0])
            return None if v is None else -v
        if k in ("ImplicitCastExpr", "CXXStaticCastExpr", "CStyleCastExpr") and len(ks) == 1:
            if n.get("castKind") in ("NoOp", "LValueToRValue"):
                return self.const_float(ks[0])
            if n.get("castKind") == "IntegralToFloating":
                v = self.const_int(ks[0])
                if v is not None and abs(v) <= 2 ** 53:
                    return float(v)
        return None

    # ---------- expressions ----------
    def as_tag(self, n, dst):
        """`n` converted to `dst` the way an implicit conversion / static_cast does"""
        src = ntag(n)
        if dst in INT_RANGE:
            v = self.const_int(n)
            if v is not None:
                lo, hi = INT_RANGE[dst]
                if lo <= v <= hi:
                    return int_lit(v, dst, n)
        if dst == "f64":
            v = self.const_float(n)
            if v is None and src in INT_RANGE:
                iv = self.const_int(n)
                if iv is not None and abs(iv) <= 2 ** 53:
                    v = float(iv)
            if v is not None:
                return f64_bits(v)
        e, t = self.expr(n)
        r, ops = cast_term(t, dst, e, n)
        self.fn.ops = self.fn.ops or ops
        return r

    def expr(self, n):
        """-> (Lean term without effects, tag); effects are emitted as `let t ← …` lines before"""
        k = n.get("kind")
        ks = kids(n)
        ty = ntag(n)
        if k in TB.WRAPPERS and len(ks) == 1:
            return self.expr(ks[0])
        if k == "CXXDefaultArgExpr":
            raise Unsupported("default argument", n)
        if ty in INT_RANGE and k != "DeclRefExpr":
            v = self.const_int(n)
            if v is not None:
                return int_lit(v, ty, n), ty
        if ty == "f64":
            v = self.const_float(n)
            if v is not None:
                return f64_bits(v), ty
        if k == "DeclRefExpr":
            rd = n["referencedDecl"]
            nm = rd.get("name")
            if nm in self.env:
                if nm in self.fn.aliases and self.fn.version.get(self.fn.aliases[nm][2], 0) != self.fn.aliases[nm][3]:
                    raise Unsupported("reference used after its vector was modified", n)
                return self.env[nm][0], self.env[nm][1]
            if rd.get("kind") == "VarDecl" and nm in self.fn.ctx.consts:
                self.fn.used_consts.add(nm)
                return nm, self.fn.ctx.consts[nm][0]
            raise Unsupported("reference to %s" % nm, n)
        if k in ("ImplicitCastExpr", "CXXStaticCastExpr", "CStyleCastExpr", "CXXFunctionalCastExpr") and len(ks) == 1:
            ck = n.get("castKind")
            if ck in ("LValueToRValue", "NoOp", "ConstructorConversion", "UserDefinedConversion"):
                e, t = self.expr(ks[0])
                if ck in ("ConstructorConversion", "UserDefinedConversion") and t != ty:
                    raise Unsupported("%s %s -> %s" % (ck, t, ty), n)
                return e, t
            if ck in ("IntegralCast", "IntegralToFloating", "IntegralToBoolean"):
                return self.as_tag(ks[0], ty), ty
            if ck == "FloatingToIntegral":
                e, t = self.expr(ks[0])
                if t == "f64" and ty == "i64":
                    return self.bind("Cv.f64ToI64 %s" % e), "i64"
                raise Unsupported("FloatingToIntegral %s -> %s" % (t, ty), n)
            raise Unsupported("cast " + str(ck), n)
        if k == "UnaryOperator" and n.get("opcode") == "!":
            e, t = self.expr(ks[0])
            if t != "bool":
                raise Unsupported("! on " + str(t), n)
            return "(!%s)" % e, "bool"
        if k == "BinaryOperator":
            return self.binop(n)
        if k == "ConditionalOperator":
            c, ct = self.expr(ks[0])
            if ct != "bool":
                raise Unsupported("condition of type " + str(ct), n)
            ba, bb = self.sub(), self.sub()
            a, ta = ba.expr(ks[1])
            b, tb = bb.expr(ks[2])
            if ta != tb:
                raise Unsupported("?: of %s and %s" % (ta, tb), n)
            if not ba.lines and not bb.lines:
                return "(if %s then %s else %s)" % (c, a, b), ta
            return self.bind("(if %s then %s else %s)" % (c, self.oneline(ba, a), self.oneline(bb, b))), ta
        if k == "MemberExpr":
            return self.member(n)
        if k == "CXXMemberCallExpr":
            return self.membercall(n)
        if k == "CXXOperatorCallExpr":
            op = TB.callee_name(n)
            if op == "operator*" and len(ks) == 2:
                o, t = self.expr(ks[1])
                if isinstance(t, tuple) and t[0] == "opt":
                    return self.bind("Cv.deref %s" % o), t[1]
                if isinstance(t, tuple) and t[0] == "iter":
                    return o, t[1]          # the element the loop is at
            raise Unsupported("operator call " + str(op), n)
        if k == "CallExpr":
            return self.call(n)
        if k in ("CXXConstructExpr", "CXXTemporaryObjectExpr"):
            return self.construct(n)
        if k == "InitListExpr":
            return self.initlist(n)
        raise Unsupported("expression " + str(k), n)

    def binop(self, n):
        op = n.get("opcode")
        a_n, b_n = kids(n)
        if op in ("&&", "||"):
            a, ta = self.expr(a_n)
            sb = self.sub()
            b, tb = sb.expr(b_n)
            if ta != "bool" or tb != "bool":
                raise Unsupported("%s on %s, %s" % (op, ta, tb), n)
            if not sb.lines:
                return "(%s %s %s)" % (a, op, b), "bool"
            return self.bind("Cv.%s %s %s" % ("andAlso" if op == "&&" else "orElse", a, self.oneline(sb, b))), "bool"
        a, ta = self.expr(a_n)
        b, tb = self.expr(b_n)
        if ta != tb:
            raise Unsupported("operands %s, %s of %s" % (ta, tb, op), n)
        cmp_ = {"==": ("eq", 0), "!=": ("ne", 0), "<": ("lt", 0), "<=": ("le", 0), ">": ("lt", 1), ">=": ("le", 1)}
        if op in cmp_:
            f, swap = cmp_[op]
            x, y = (b, a) if swap else (a, b)
            if ta in ("i64", "ms"):
                return "(Cv.I64.%s %s %s)" % (f, x, y), "bool"
            if ta in ("i32", "key"):
                return "(Cv.I32.%s %s %s)" % (f, x, y), "bool"
            if ta == "u64":
                return "(Cv.U64.%s %s %s)" % (f, x, y), "bool"
            if ta == "f64":
                return "(F64.%s %s %s)" % (f, x, y), "bool"
            if ta == "usize":
                sym = {"eq": "=", "ne": "≠", "lt": "<", "le": "≤"}[f]
                return "(decide (%s %s %s))" % (x, sym, y), "bool"
            raise Unsupported("%s on %s" % (op, ta), n)
        ar = {"+": "add", "-": "sub", "*": "mul", "/": "div"}
        if op in ar and ta == "i64" and ntag(n) == "i64":
            return self.bind("Cv.I64.%s %s %s" % (ar[op], a, b)), "i64"
        raise Unsupported("operator %s on %s" % (op, ta), n)

    def field(self, stag, member, node):
        if stag not in STRUCTS:
            raise Unsupported("member of " + str(stag), node)
        for cm, lf, t in STRUCTS[stag][1]:
            if cm == member:
                return lf, t
        raise Unsupported("member %s of %s" % (member, stag), node)

    def member(self, n):
        base = kids(n)[0]
        name = n.get("name")
        b = TB.unwrap(base) if hasattr(TB, "unwrap") else base
        if b.get("kind") == "CXXOperatorCallExpr" and TB.callee_name(b) == "operator->":
            o, t = self.expr(kids(b)[1])
            if isinstance(t, tuple) and t[0] == "iter":
                v = o                       # the element the loop is at
            elif isinstance(t, tuple) and t[0] == "opt":
                v = self.bind("Cv.deref %s" % o)
            else:
                raise Unsupported("-> on " + str(t), n)
            lf, ft = self.field(t[1], name, n)
        else:
            v, t = self.expr(base)
            lf, ft = self.field(t, name, n)
        if ntag(n) != ft:
            raise Unsupported("member %s has type %s, table says %s" % (name, ntag(n), ft), n)
        return "%s.%s" % (v, lf), ft

    def membercall(self, n):
        ks = kids(n)
        me = ks[0]
        if me.get("kind") != "MemberExpr":
            raise Unsupported("member call", n)
        name = me.get("name")
        o, t = self.expr(kids(me)[0])
        args = ks[1:]
        if isinstance(t, tuple) and t[0] == "opt":
            if name in ("operator bool", "has_value") and not args:
                return "(Option.isSome %s)" % o, "bool"
            if name == "value_or" and len(args) == 1:
                return "(Option.getD %s %s)" % (o, self.as_tag(args[0], t[1])), t[1]
            if name == "value" and not args:
                return self.bind("Cv.value %s" % o), t[1]
        if t == "ms" and name == "count" and not args:
            return o, "i64"
        if isinstance(t, tuple) and t[0] == "vec" and name == "size" and not args:
            return "(List.length %s)" % o, "usize"
        if isinstance(t, tuple) and t[0] == "vec" and name == "empty" and not args:
            return "(List.isEmpty %s)" % o, "bool"
        raise Unsupported("call of %s on %s" % (name, t), n)

    def call(self, n):
        ks = kids(n)
        c = ks[0]
        while c.get("kind") != "DeclRefExpr":
            cs = kids(c)
            if not cs:
                raise Unsupported("callee", n)
            c = cs[0]
        rd = c["referencedDecl"]
        name = rd.get("name")
        args = ks[1:]
        ty = ntag(n)
        if name == "make_optional" and len(args) == 1 and isinstance(ty, tuple) and ty[0] == "opt":
            return "(some %s)" % self.as_tag(args[0], ty[1]), ty
        if name == "clamp" and len(args) == 3 and ty == "i32":
            lo, hi = self.const_int(args[1]), self.const_int(args[2])
            if lo is None or hi is None or hi < lo:
                raise Unsupported("std::clamp whose bounds are not constants lo <= hi", n)
            v, tv = self.expr(args[0])
            if tv != "i32":
                raise Unsupported("std::clamp on " + str(tv), n)
            return "(Cv.I32.clamp %s %s %s)" % (v, int_lit(lo, "i32"), int_lit(hi, "i32")), "i32"
        if name == "optional_static_cast" and len(args) == 1 and isinstance(ty, tuple) and ty[0] == "opt":
            o, t = self.expr(args[0])
            if not (isinstance(t, tuple) and t[0] == "opt"):
                raise Unsupported("optional_static_cast of " + str(t), n)
            body, ops = cast_term(t[1], ty[1], "u", n)
            self.fn.ops = self.fn.ops or ops
            if body == "u":
                return o, ty
            return "(Option.map (fun u => %s) %s)" % (body, o), ty
        if rd.get("id") in self.fn.ctx.funcs:
            ln, ops = self.fn.ctx.funcs[rd["id"]]
            self.fn.ops = self.fn.ops or ops
            a = [self.expr(x)[0] for x in args]
            return self.bind(" ".join([ln] + (["ops"] if ops else []) + a)), ty
        if rd.get("kind") == "CXXMethodDecl" and not args and ty in self.fn.ctx.methods and name == STATIC_METHODS.get(ty, "").split("::")[-1]:
            ln, ops = self.fn.ctx.methods[ty]
            return self.bind(ln), ty
        raise Unsupported("call " + str(name), n)

    def construct(self, n):
        ty = ntag(n)
        args = [a for a in kids(n) if a.get("kind") != "CXXDefaultArgExpr"]
        if ty == "nullopt":
            return "none", "nullopt"
        if isinstance(ty, tuple) and ty[0] == "opt":
            if not args:
                return "none", ty
            if len(args) == 1:
                at = ntag(args[0])
                if at == "nullopt":
                    return "none", ty
                e, t = self.expr(args[0])
                if t == ty:
                    return e, ty
                if t == ty[1]:
                    return "(some %s)" % e, ty
            raise Unsupported("optional constructor", n)
        if ty == "ms":
            if not args:
                return int_lit(0, "i64"), "ms"
            if len(args) == 1:
                e, t = self.expr(args[0])
                if t in ("i64", "ms"):
                    return e, "ms"
            raise Unsupported("milliseconds constructor", n)
        if ty == "str":
            if len(args) == 1:
                a = args[0]
                while a.get("kind") in TB.WRAPPERS or (a.get("kind") == "ImplicitCastExpr" and a.get("castKind") in ("ArrayToPointerDecay", "NoOp")):
                    a = kids(a)[0]
                if a.get("kind") == "StringLiteral":
                    s = json.loads(a["value"]) if a["value"].startswith('"') else a["value"]
                    bs = s.encode("utf-8")
                    return "([%s] : Bytes)" % ", ".join(str(b) for b in bs), "str"
                e, t = self.expr(args[0])
                if t == "str":
                    return e, "str"
            raise Unsupported("string constructor", n)
        if isinstance(ty, tuple) and ty[0] == "vec":
            if not args:
                return "[]", ty
            if len(args) == 1:
                e, t = self.expr(args[0])
                if t == ty:
                    return e, ty
            raise Unsupported("vector constructor", n)
        if ty in STRUCTS:
            if len(args) == 1 and ntag(args[0]) == ty:
                return self.expr(args[0])
            if ty == "pad_color" and len(args) == 4:
                return self.build(ty, args, n), ty
            if ty == "loops_blob" and not args:
                return "{ loops := [], extra := [] : Cv.LoopsBlob }", ty
        raise Unsupported("constructor of " + str(ty), n)

    def build(self, ty, args, n):
        lt, fields = STRUCTS[ty]
        if len(args) != len(fields):
            raise Unsupported("%d initialisers for %s" % (len(args), ty), n)
        parts = []
        for a, (cm, lf, ft) in zip(args, fields):
            if ntag(a) != ft:       # after clang's implicit conversions an initialiser has its member's type
                raise Unsupported("initialiser of %s.%s has type %s, table says %s" % (ty, cm, ntag(a), ft), n)
            if ft in INT_RANGE or ft == "f64":
                parts.append("%s := %s" % (lf, self.as_tag(a, ft)))
            else:
                e, t = self.expr(a)
                if t != ft:
                    raise Unsupported("initialiser of %s.%s has type %s" % (ty, cm, t), n)
                parts.append("%s := %s" % (lf, e))
        return "{ %s : %s }" % (", ".join(parts), lt)

    def initlist(self, n):
        ty = ntag(n)
        args = kids(n)
        if ty in TUPLES:
            if len(args) != len(TUPLES[ty]):
                raise Unsupported("initialiser list of " + ty, n)
            out = []
            for a, ft in zip(args, TUPLES[ty]):
                if ntag(a) != ft:
                    raise Unsupported("initialiser of %s has type %s, table says %s" % (ty, ntag(a), ft), n)
                if ft in INT_RANGE or ft == "f64":
                    out.append(self.as_tag(a, ft))
                else:
                    e, t = self.expr(a)
                    if t == "nullopt" and isinstance(ft, tuple):
                        t = ft
                    if t != ft:
                        raise Unsupported("initialiser of %s has type %s, expected %s" % (ty, t, ft), n)
                    out.append(e)
            return "(" + ", ".join(out) + ")", ty
        if ty in STRUCTS and ty != "pad_color":
            return self.build(ty, args, n), ty
        raise Unsupported("initialiser list of " + str(ty), n)

    # ---------- statements ----------
    def throw_of(self, n):
        n = TB.unwrap(n) if hasattr(TB, "unwrap") else n
        while n.get("kind") in TB.WRAPPERS:
            n = kids(n)[0]
        if n.get("kind") != "CXXThrowExpr" or not kids(n):
            return None
        t = kids(n)[0].get("type", {})
        q = (t.get("desugaredQualType") or t.get("qualType", "")).replace("const ", "").strip()
        if q in THROWS:
            return ".throw .%s" % THROWS[q]
        m = re.fullmatch(r"djinterop::([a-z_0-9]+)", q)
        if m:
            return '.throw (.dj "%s")' % m.group(1)
        raise Unsupported("throw of " + q, n)

    def body_of(self, s):
        return kids(s) if s.get("kind") == "CompoundStmt" else [s]

    def pushback(self, s):
        """`target.push_back(e)` -> (target node, e node) or None"""
        while s.get("kind") in TB.WRAPPERS:
            s = kids(s)[0]
        if s.get("kind") == "CompoundStmt" and len(kids(s)) == 1:
            return self.pushback(kids(s)[0])
        if s.get("kind") != "CXXMemberCallExpr":
            return None
        ks = kids(s)
        if ks[0].get("kind") != "MemberExpr" or ks[0].get("name") != "push_back" or len(ks) != 2:
            return None
        return kids(ks[0])[0], ks[1]

    def bump(self, name):
        self.fn.version[name] = self.fn.version.get(name, 0) + 1

    def alias_of(self, n):
        """`prev.f` where `prev` is a reference to `v.back()` -> (alias name, field node) or None"""
        while n.get("kind") in TB.WRAPPERS:
            n = kids(n)[0]
        if n.get("kind") == "MemberExpr":
            b = kids(n)[0]
            if b.get("kind") == "DeclRefExpr" and b["referencedDecl"].get("name") in self.fn.aliases:
                return b["referencedDecl"]["name"], n
        return None

    def target(self, n):
        """an assignable place: a local, or a member of a local struct -> (read term, tag, writer)"""
        while n.get("kind") in TB.WRAPPERS or (n.get("kind") == "ImplicitCastExpr" and n.get("castKind") == "NoOp"):
            n = kids(n)[0]
        if n.get("kind") == "DeclRefExpr":
            nm = n["referencedDecl"].get("name")
            if nm in self.env and nm in self.fn.locals:
                ln, t = self.env[nm]
                return ln, t, (lambda v: "let %s := %s" % (ln, v)), nm
        if n.get("kind") == "MemberExpr":
            b = kids(n)[0]
            if b.get("kind") == "DeclRefExpr" and b["referencedDecl"].get("name") in self.fn.locals:
                nm = b["referencedDecl"]["name"]
                ln, st = self.env[nm]
                lf, ft = self.field(st, n.get("name"), n)
                return "%s.%s" % (ln, lf), ft, (lambda v: "let %s := { %s with %s := %s }" % (ln, ln, lf, v)), nm
        raise Unsupported("assignment target", n)

    def alias_lhs(self, n):
        """`prev.f = …` with `prev` declared in the same statement list as `auto& prev = v.back()` -> "v" """
        while n.get("kind") in TB.WRAPPERS:
            n = kids(n)[0]
        if n.get("kind") == "MemberExpr":
            b = kids(n)[0]
            if b.get("kind") == "DeclRefExpr" and b["referencedDecl"].get("name") in self.fn.alias_decls:
                return self.fn.alias_decls[b["referencedDecl"]["name"]]
        return None

    def assigned(self, stmts):
        for s in stmts:                   # references declared in this list
            if s.get("kind") == "DeclStmt":
                for v in kids(s):
                    i = init_of(v) if v.get("kind") == "VarDecl" else None
                    if i is not None and "&" in v.get("type", {}).get("qualType", ""):
                        c = i
                        while c.get("kind") in TB.WRAPPERS:
                            c = kids(c)[0]
                        if c.get("kind") == "CXXMemberCallExpr" and kids(c)[0].get("name") == "back":
                            o = kids(kids(c)[0])[0]
                            if o.get("kind") == "DeclRefExpr":
                                self.fn.alias_decls[v["name"]] = o["referencedDecl"].get("name")
        return self.assigned1(stmts)

    def assigned1(self, stmts):
        """names of the locals a statement list may assign (for one-armed ifs)"""
        out = []
        for s in stmts:
            x = s
            while x.get("kind") in TB.WRAPPERS:
                x = kids(x)[0]
            pb = self.pushback(x)
            if pb:
                out.append(self.target(pb[0])[3])
            elif x.get("kind") == "DeclStmt" and all("&" in v.get("type", {}).get("qualType", "") for v in kids(x)):
                pass                      # a reference to `v.back()`: assigns nothing by itself
            elif x.get("kind") == "IfStmt" and len(kids(x)) == 2:
                out += self.assigned(self.body_of(kids(x)[1]))
            elif x.get("kind") == "CXXOperatorCallExpr" and TB.callee_name(x) == "operator=":
                out.append(self.target(kids(x)[1])[3])
            elif x.get("kind") == "BinaryOperator" and x.get("opcode") == "=" and self.alias_lhs(kids(x)[0]):
                out.append(self.alias_lhs(kids(x)[0]))
            elif x.get("kind") == "BinaryOperator" and x.get("opcode") == "=":
                out.append(self.target(kids(x)[0])[3])
            else:
                raise Unsupported("statement in a one-armed if", x)
        return sorted(set(out))

    def stmts(self, ss):
        """-> True when the list ends by returning / throwing"""
        for i, s in enumerate(ss):
            if self.stmt(s):
                if i != len(ss) - 1:
                    raise Unsupported("statement after return", ss[i + 1])
                return True
        return False

    def stmt(self, s):
        k = s.get("kind")
        ks = kids(s)
        if k in TB.WRAPPERS and len(ks) == 1:
            return self.stmt(ks[0])
        if k == "NullStmt":
            return False
        if k == "CompoundStmt":
            raise Unsupported("nested block", s)
        if k == "ReturnStmt":
            if not ks:
                raise Unsupported("return without value", s)
            e, t = self.expr(ks[0])
            if t != self.fn.rtag:
                raise Unsupported("return of %s from a function returning %s" % (t, self.fn.rtag), s)
            self.emit("pure %s" % e)
            return True
        th = self.throw_of(s)
        if th:
            self.emit(th)
            return True
        if k == "DeclStmt":
            for v in ks:
                if v.get("kind") != "VarDecl":
                    raise Unsupported("declaration", v)
                init = [init_of(v)]
                if init[0] is None:
                    raise Unsupported("uninitialised local", v)
                if "&" in v["type"].get("qualType", ""):
                    c = init[0]
                    while c.get("kind") in TB.WRAPPERS:
                        c = kids(c)[0]
                    if "const" in v["type"]["qualType"] or c.get("kind") != "CXXMemberCallExpr" or \
                            kids(c)[0].get("kind") != "MemberExpr" or kids(c)[0].get("name") != "back" or len(kids(c)) != 1:
                        raise Unsupported("reference local", v)
                    rd, vt, wr, vn = self.target(kids(kids(c)[0])[0])
                    if not (isinstance(vt, tuple) and vt[0] == "vec" and ntag(c) == vt[1]):
                        raise Unsupported("reference to back() of " + str(vt), v)
                    ln = lname(v["name"])
                    self.emit("let %s ← Cv.back %s" % (ln, rd))
                    self.env[v["name"]] = (ln, vt[1])
                    self.fn.aliases[v["name"]] = (rd, wr, vn, self.fn.version.get(vn, 0))
                    continue
                t = ntag(v)
                if t in INT_RANGE or t == "f64":
                    e = self.as_tag(init[-1], t)
                else:
                    e, te = self.expr(init[-1])
                    if te != t:
                        raise Unsupported("initialiser of type %s for %s" % (te, t), v)
                ln = lname(v["name"])
                self.emit("let %s := %s" % (ln, e))
                self.env[v["name"]] = (ln, t)
                self.fn.locals.add(v["name"])
            return False
        if k == "IfStmt":
            if s.get("hasInit") or s.get("hasVar"):
                raise Unsupported("if with initialiser", s)
            c, ct = self.expr(ks[0])
            if ct != "bool":
                raise Unsupported("condition of type " + str(ct), s)
            then = self.body_of(ks[1])
            th = self.throw_of(then[0]) if len(then) == 1 else None
            if th and len(ks) == 2:
                self.emit("if %s then %s else" % (c, th))
                return False
            tb = self.sub()
            tb.ind = 0
            ends = tb.stmts(then)
            if ends:
                self.emit("if %s then" % c)
                for ind, l in tb.lines:
                    self.lines.append((self.ind + 1 + ind, l))
                self.emit("else")
                self.ind += 1
                if len(ks) == 3:
                    if not self.stmts(self.body_of(ks[2])):
                        raise Unsupported("else branch that falls through", s)
                    return True
                return False
            if len(ks) == 3:
                raise Unsupported("if/else that falls through", s)
            names = self.assigned(then)
            if len(names) != 1:
                raise Unsupported("one-armed if assigning %d locals" % len(names), s)
            ln = self.env[names[0]][0]
            self.emit("let %s ← (if %s then %s else pure %s)" % (ln, c, self.oneline(tb, tb.env[names[0]][0]), ln))
            return False
        if k == "CXXMemberCallExpr":
            me = ks[0]
            if me.get("kind") == "MemberExpr" and me.get("name") == "reserve" and len(ks) == 2:
                self.target(kids(me)[0])
                e, t = self.expr(ks[1])         # evaluated for its effects (there are none in the fragment)
                if t != "usize":
                    raise Unsupported("reserve of " + str(t), s)
                self.fn.notes.add("reserve")
                return False
            pb = self.pushback(s)
            if pb:
                rd, t, wr, tn = self.target(pb[0])
                e, te = self.expr(pb[1])
                if t != ("vec", te):
                    raise Unsupported("push_back of %s onto %s" % (te, t), s)
                self.emit(wr("%s ++ [%s]" % (rd, e)))
                self.bump(tn)
                return False
            raise Unsupported("member call statement", s)
        if k == "CXXOperatorCallExpr" and TB.callee_name(s) == "operator=" and len(ks) == 3:
            rd, t, wr, _ = self.target(ks[1])
            e, te = self.expr(ks[2])
            if te != t:
                raise Unsupported("assignment of %s to %s" % (te, t), s)
            self.emit(wr(e))
            return False
        if k == "BinaryOperator" and s.get("opcode") == "=" and self.alias_of(ks[0]):
            an, mn = self.alias_of(ks[0])
            rd, wr, vn, ver = self.fn.aliases[an]
            if self.fn.version.get(vn, 0) != ver or an not in self.env:
                raise Unsupported("reference used after its vector was modified", s)
            ln, st = self.env[an]
            lf, ft = self.field(st, mn.get("name"), s)
            e = self.as_tag(ks[1], ft) if (ft in INT_RANGE or ft == "f64") else self.expr(ks[1])[0]
            self.emit("let %s := { %s with %s := %s }" % (ln, ln, lf, e))
            self.emit(wr("Cv.setBack %s %s" % (rd, ln)))
            return False
        if k == "BinaryOperator" and s.get("opcode") == "=":
            rd, t, wr, _ = self.target(ks[0])
            self.emit(wr(self.as_tag(ks[1], t) if (t in INT_RANGE or t == "f64") else self.expr(ks[1])[0]))
            return False
        if k == "CXXForRangeStmt":
            decls = [x for x in ks if x.get("kind") == "DeclStmt"]
            if len(decls) != 4:
                raise Unsupported("range-for shape", s)
            rng = kids(kids(decls[0])[0])
            xs, xt = self.expr(rng[0])
            var = kids(decls[3])[0]
            if not (isinstance(xt, tuple) and xt[0] == "vec" and ntag(var) == xt[1]):
                raise Unsupported("range-for over " + str(xt), s)
            pb = self.pushback(ks[-1])
            if not pb:
                raise Unsupported("range-for body is not one push_back", ks[-1])
            rd, t, wr, tn = self.target(pb[0])
            b = self.sub()
            vn = lname(var["name"])
            b.env[var["name"]] = (vn, xt[1])
            b.env.pop(tn, None)           # the body must not read the vector it fills
            e, te = b.expr(pb[1])
            if t != ("vec", te):
                raise Unsupported("push_back of %s onto %s" % (te, t), s)
            v = self.bind("Cv.forPush (fun %s => %s) %s %s" % (vn, self.oneline(b, e), rd, xs))
            self.emit(wr(v))
            return False
        if k == "ForStmt" and len(ks) == 4:
            init, cond, inc, body = ks
            iv = kids(init)[0] if init.get("kind") == "DeclStmt" and len(kids(init)) == 1 else None
            it = ntag(iv) if iv else None
            if not (iv and isinstance(it, tuple) and it[0] == "iter"):
                raise Unsupported("for shape (initialiser)", s)

            def range_call(c, fname):
                while c.get("kind") in TB.WRAPPERS or (c.get("kind") == "ImplicitCastExpr" and c.get("castKind") == "NoOp"):
                    c = kids(c)[0]
                if c.get("kind") == "CallExpr" and TB.callee_name(c) == fname and len(kids(c)) == 2:
                    return kids(c)[1]
                if c.get("kind") == "CXXMemberCallExpr" and kids(c)[0].get("name") == fname and len(kids(c)) == 1:
                    return kids(kids(c)[0])[0]
                return None
            xb = range_call(init_of(iv), "begin")
            c = cond
            while c.get("kind") in TB.WRAPPERS:
                c = kids(c)[0]
            ok = c.get("kind") == "CXXOperatorCallExpr" and TB.callee_name(c) == "operator!=" and len(kids(c)) == 3
            xe = range_call(kids(c)[2], "end") if ok else None
            lhs = kids(c)[1] if ok else None
            while lhs is not None and (lhs.get("kind") in TB.WRAPPERS or lhs.get("kind") == "ImplicitCastExpr"):
                lhs = kids(lhs)[0]
            i2 = inc
            while i2.get("kind") in TB.WRAPPERS:
                i2 = kids(i2)[0]
            if not (xb is not None and xe is not None and lhs.get("kind") == "DeclRefExpr" and
                    lhs["referencedDecl"].get("name") == iv["name"] and
                    i2.get("kind") == "CXXOperatorCallExpr" and TB.callee_name(i2) == "operator++" and len(kids(i2)) == 2 and
                    kids(i2)[1].get("kind") == "DeclRefExpr" and kids(i2)[1]["referencedDecl"].get("name") == iv["name"]):
                raise Unsupported("for shape (not `it = begin(v); it != end(v); ++it`)", s)
            xs, xt = self.expr(xb)
            xs2, _ = self.expr(xe)
            if xs != xs2 or xt != ("vec", it[1]):
                raise Unsupported("for over two different ranges", s)
            stmts = self.body_of(body)
            names = self.assigned(stmts)
            if len(names) != 1:
                raise Unsupported("loop body assigning %d locals" % len(names), s)
            sn = names[0]
            sl, stag = self.env[sn]
            b = self.sub()
            vn = lname(iv["name"])
            b.env[iv["name"]] = (vn, it)
            if b.stmts(stmts):
                raise Unsupported("return inside a loop", s)
            if xs == sl:
                raise Unsupported("loop over the vector it modifies", s)
            v = self.bind("Cv.forFold (fun %s %s => %s) %s %s" % (sl, vn, self.oneline(b, b.env[sn][0]), sl, xs))
            self.emit("let %s := %s" % (sl, v))
            self.bump(sn)
            return False
        if k == "WhileStmt" and len(ks) == 2:
            c = ks[0]
            while c.get("kind") in TB.WRAPPERS:
                c = kids(c)[0]
            pb = self.pushback(ks[1])
            if not (pb and c.get("kind") == "BinaryOperator" and c.get("opcode") == "<"):
                raise Unsupported("while shape", s)
            rd, t, wr, tn = self.target(pb[0])
            szn = kids(c)[0]
            sz, st = self.expr(szn)
            if sz != "(List.length %s)" % rd:
                raise Unsupported("while condition is not `target.size() < n`", s)
            bound = self.sub()
            bound.env.pop(tn, None)
            nb, nt = bound.expr(kids(c)[1])
            if nt != "usize" or bound.lines:
                raise Unsupported("while bound", s)
            b = self.sub()
            b.env.pop(tn, None)
            e, te = b.expr(pb[1])
            if t != ("vec", te):
                raise Unsupported("push_back of %s onto %s" % (te, t), s)
            v = self.bind("Cv.whilePush %s %s %s" % (nb, self.oneline(b, e), rd))
            self.emit(wr(v))
            return False
        raise Unsupported("statement " + str(k), s)


class Fn:
    def __init__(self, ctx, lean_name, decl):
        self.ctx, self.lean_name, self.decl = ctx, lean_name, decl
        self.n = 0
        self.ops = False
        self.locals = set()
        self.aliases = {}         # reference local -> (vector read term, writer, vector name, version at binding)
        self.alias_decls = {}     # reference local -> vector name (syntactic, for `assigned`)
        self.version = {}         # vector local -> number of structural modifications so far
        self.notes = set()
        self.used_consts = set()

    def translate(self):
        d = self.decl
        ps = [p for p in kids(d) if p.get("kind") == "ParmVarDecl"]
        body = [p for p in kids(d) if p.get("kind") == "CompoundStmt"]
        if len(body) != 1:
            raise Unsupported("no body", d)
        self.rtag = tag_of(d["type"].get("desugaredQualType") or d["type"]["qualType"].split("(")[0])
        rq = d["type"]["qualType"]
        self.rtag = tag_of(rq[:rq.index("(")].strip())
        env, sig = {}, []
        for p in ps:
            t = ntag(p)
            ln = lname(p["name"])
            env[p["name"]] = (ln, t)
            sig.append("(%s : %s)" % (ln, lean_type(t)))
            if "&" in p["type"].get("qualType", "") and "const" not in p["type"].get("qualType", ""):
                raise Unsupported("non-const reference parameter", p)
        b = Block(self, env)
        if not b.stmts(kids(body[0])):
            raise Unsupported("function may fall off its end", d)
        head = "def %s %s%s : Res %s := do" % (self.lean_name, "(ops : FOps) " if self.ops else "", " ".join(sig), lean_type(self.rtag))
        return "\n".join([head] + ["  " * (ind + 1) + l for ind, l in b.lines])


def dump(filt):
    return TB.clang_ast(os.path.join(REPO, SRC), filt)


def init_of(v):
    """initialiser expression of a VarDecl (documentation comments are children too)"""
    xs = [c for c in kids(v) if not c.get("kind", "").endswith("Comment")]
    return xs[-1] if xs else None


def find_all(n, pred, out):
    if isinstance(n, dict):
        if pred(n):
            out.append(n)
        for c in n.get("inner", []) or []:
            find_all(c, pred, out)


def translate():
    """-> (blocks: [(name, text or None, status)], header text)"""
    docs = dump(FILTER)
    fns = []       # (ns, name, decl)
    for d in docs:
        if d.get("kind") != "NamespaceDecl" or d.get("name") not in ("read", "write"):
            continue
        for c in kids(d):
            if c.get("kind") == "FunctionDecl" and any(x.get("kind") == "CompoundStmt" for x in kids(c)):
                fns.append((d["name"], c["name"], c))
    sel = fns
    # constants and static member functions referenced from the bodies
    refs = []
    for _, _, c in sel:
        find_all(c, lambda n: n.get("kind") == "DeclRefExpr" and n.get("referencedDecl", {}).get("kind") == "VarDecl", refs)
    local_ids = set()
    for _, _, c in sel:
        vs = []
        find_all(c, lambda n: n.get("kind") in ("VarDecl", "ParmVarDecl"), vs)
        local_ids |= {v.get("id") for v in vs}
    cnames = sorted({r["referencedDecl"]["name"] for r in refs
                     if r["referencedDecl"].get("id") not in local_ids and r["referencedDecl"]["name"] != "nullopt"})
    jobs = [("const", n, n) for n in cnames] + [("method", cls, f) for cls, f in STATIC_METHODS.items()]
    with ThreadPoolExecutor(max_workers=8) as ex:
        res = list(ex.map(lambda j: dump(j[2]), jobs))
    ctx = Ctx()
    blocks = []
    probe = Block(Fn(ctx, "_", {}), {})
    for (kind, key, filt), ds in zip(jobs, res):
        if kind == "const":
            vd = [d for d in ds if d.get("kind") == "VarDecl" and d.get("name") == key and init_of(d)]
            st = None
            try:
                if len(vd) != 1:
                    raise Unsupported("constant %s: %d definitions" % (key, len(vd)))
                TB.annotate(vd[0], "include")
                t = ntag(vd[0])
                if "const" not in vd[0]["type"].get("qualType", ""):
                    raise Unsupported("%s is not const" % key)
                if t in INT_RANGE:
                    v = probe.const_int(init_of(vd[0]))
                    if v is None:
                        raise Unsupported("initialiser of " + key, vd[0])
                    ctx.consts[key] = (t, v)
                    txt = "def %s : %s := %s" % (key, lean_type(t), int_lit(v, t))
                elif t == "f64":
                    v = probe.const_float(init_of(vd[0]))
                    if v is None:
                        raise Unsupported("initialiser of " + key, vd[0])
                    ctx.consts[key] = (t, v)
                    txt = "def %s : F := %s" % (key, f64_bits(v))
                else:
                    raise Unsupported("constant %s of type %s" % (key, t))
                blocks.append((key, txt, None))
            except Unsupported as e:
                blocks.append((key, None, "%s [%s]" % (e, key)))
    for (kind, key, filt), ds in zip(jobs, res):
        if kind == "method":
            md = [d for d in ds if d.get("kind") == "CXXMethodDecl" and d.get("name") == filt.split("::")[-1]
                  and any(x.get("kind") == "CompoundStmt" for x in kids(d))]
            ln = filt.replace("::", "_")
            try:
                if len(md) != 1:
                    raise Unsupported("%s: %d definitions" % (filt, len(md)))
                if tag_of(md[0]["type"]["qualType"].split("(")[0]) != key:
                    raise Unsupported("%s does not return %s" % (filt, key))
                TB.annotate(md[0], "include/djinterop/engine/v2/%ss_blob.hpp" % key.replace("_blob", ""))
                f = Fn(ctx, ln, md[0])
                txt = f.translate()
                ctx.methods[key] = (ln, f.ops)
                blocks.append((ln, txt, None))
            except Unsupported as e:
                blocks.append((ln, None, "%s [%s]" % (e, ln)))
    notes = set()
    for ns, name, c in sel:
        ln = "%s_%s" % (ns, name)
        src_file = "src/djinterop/engine/v2/convert_*.hpp"
        TB.annotate(c, src_file)
        try:
            f = Fn(ctx, ln, c)
            txt = f.translate()
            ctx.funcs[c["id"]] = (ln, f.ops)
            notes |= f.notes
            blocks.append((ln, txt, None))
        except Unsupported as e:
            blocks.append((ln, None, "%s [%s]" % (e, ln)))
    return blocks


HEAD = """/- GENERATED by tools/tr_convert_v2.py from src/djinterop/engine/v2/convert_*.hpp (as included by
   v2/track_impl.cpp) — do not edit.  Vocabulary: EngineModel/Pure/ConvertCxx.lean; mapping: design/convert_v2.md. -/
import EngineModel.Pure.ConvertCxx

set_option linter.unusedVariables false

namespace EngineModel.Gen.ConvertV2
open EngineModel EngineModel.TracksV2
"""
TAIL = "\nend EngineModel.Gen.ConvertV2\n"


def previous_blocks():
    if not os.path.exists(TARGET):
        return {}
    txt = open(TARGET).read()
    return {m.group(1): m.group(2) for m in re.finditer(r"-- BEGIN (\S+)\n(.*?)\n-- END \1\n", txt, re.S)}


def run():
    """TRANSLATORS entry: regenerate what is inside the fragment, keep the previous block of what is not."""
    try:
        blocks = translate()
    except Unsupported as e:
        return "unsupported-node: %s; kept previous translation" % e
    prev = previous_blocks()
    out, kept, skipped, seen = [HEAD], [], [], set()
    for name, txt, st in blocks:
        seen.add(name)
        if txt is None:
            if name in prev:
                out.append("-- BEGIN %s\n%s\n-- END %s\n" % (name, prev[name], name))
                kept.append(st)
            else:
                skipped.append(st)
            continue
        out.append("-- BEGIN %s\n%s\n-- END %s\n" % (name, txt, name))
    missing = [n for n in prev if n not in seen]
    for n in missing:           # a function that disappeared from the source: keep the block, say so
        out.append("-- BEGIN %s\n%s\n-- END %s\n" % (n, prev[n], n))
        kept.append("no definition found [%s]" % n)
    new = "\n".join(out) + TAIL
    old = open(TARGET).read() if os.path.exists(TARGET) else None
    if old != new:
        open(TARGET, "w").write(new)
    st = "regenerated (%s)" % ("changed" if old != new else "identical")
    if kept:
        st = "unsupported-node: %s; kept previous translation of these, %s" % ("; ".join(kept), st)
    if skipped:
        st += "; outside the fragment, never translated: " + "; ".join(skipped)
    return st



def main():
    if "--table" in sys.argv:
        for a, b in TABLE:
            print("| `%s` | `%s` |" % (a.replace("|", "\\|"), b.replace("|", "\\|")))
        return 0
    st = run()
    print("translator: " + st)
    return 2 if st.startswith("unsupported") else 0


if __name__ == "__main__":
    sys.exit(main())
