"""Generators of line-protocol values and op histories for the library-level
harness commands (harness/djv_db.cpp).  Every random choice comes from the
`random.Random` passed in."""
import struct

SCHEMAS_V1 = ["schema_1_6_0", "schema_1_7_1", "schema_1_9_1", "schema_1_11_1", "schema_1_13_0", "schema_1_13_1",
              "schema_1_13_2", "schema_1_15_0", "schema_1_17_0", "schema_1_18_0_desktop", "schema_1_18_0_os"]
SCHEMAS_V2 = ["schema_2_18_0", "schema_2_20_1", "schema_2_20_2", "schema_2_20_3", "schema_2_21_0", "schema_2_21_1",
              "schema_2_21_2"]
SCHEMAS = SCHEMAS_V1 + SCHEMAS_V2


def dbits(x: float) -> str:
    return "%016x" % struct.unpack(">Q", struct.pack(">d", x))[0]


def hexs(b) -> str:
    if isinstance(b, str):
        b = b.encode()
    return b.hex() if b else "-"


def ostr(b):
    """optional string token: none | s<hex> | s-"""
    if b is None:
        return "none"
    return "s" + hexs(b)


def color(rng):
    return "%d %d %d %d" % tuple(rng.randrange(256) for _ in range(4))


def label(rng, kind=None):
    kind = kind or rng.choice(["short", "short", "short", "empty", "utf8", "255", "256", "300", "semi"])
    if kind == "short":
        return bytes(rng.choice(b"abcdefghijklmnopqrstuvwxyz ") for _ in range(rng.randrange(1, 12)))
    if kind == "empty":
        return b""
    if kind == "utf8":
        return "Früh—♪曲".encode()
    if kind == "semi":
        return b"a;b"
    n = {"255": 255, "256": 256, "300": 300}[kind]
    return bytes(65 + (i % 26) for i in range(n))


def dbl(rng, kind=None):
    kind = kind or rng.choice(["ord", "ord", "ord", "zero", "negzero", "minus1", "sub", "big", "frac"])
    return {"ord": lambda: float(rng.randrange(0, 10000000)) + rng.choice([0.0, 0.5, 0.25]),
            "zero": lambda: 0.0, "negzero": lambda: -0.0, "minus1": lambda: -1.0,
            "sub": lambda: 5e-324, "big": lambda: 1e15, "frac": lambda: rng.random()}[kind]()


def optcue(rng, present=None, lab=None):
    if present is None:
        present = rng.random() < 0.6
    if not present:
        return "none"
    return "some %s %s %s" % (hexs(label(rng, lab)), dbits(dbl(rng)), color(rng))


def optloop(rng, present=None, lab=None):
    if present is None:
        present = rng.random() < 0.6
    if not present:
        return "none"
    a = dbl(rng)
    return "some %s %s %s %s" % (hexs(label(rng, lab)), dbits(a), dbits(a + rng.randrange(1, 100000)), color(rng))


def grid(rng, kind=None):
    kind = kind or rng.choice(["empty", "two", "two", "many", "one", "unsorted"])
    if kind == "empty":
        return "0"
    if kind == "one":
        return "1 0 %s" % dbits(100.0)
    if kind == "unsorted":
        return "2 4 %s 0 %s" % (dbits(500.0), dbits(100.0))
    k = 2 if kind == "two" else rng.randrange(3, 9)
    idx, off, spb = rng.choice([-4, 0, 0]), float(rng.randrange(-5000, 5000)), float(rng.randrange(1000, 40000))
    out = []
    for _ in range(k):
        out.append("%d %s" % (idx, dbits(off)))
        step = rng.choice([1, 4, 16, 64])
        idx += step
        off += step * spb
    return "%d %s" % (k, " ".join(out))


def waveform(rng, n=None):
    if n is None:
        n = rng.choice([0, 0, 1, 7, 64, 1024])
    if n == 0:
        return "-"
    return bytes(rng.randrange(256) for _ in range(6 * n)).hex()


def snapshot(rng, minimal=False, **over):
    """Text form of a track_snapshot in the order rd_snapshot reads it."""
    def maybe(f, p=0.6):
        return f() if (not minimal and rng.random() < p) else None
    f = {
        "album": ostr(maybe(lambda: label(rng, "short"))),
        "artist": ostr(maybe(lambda: label(rng, rng.choice(["short", "utf8", "empty"])))),
        "average_loudness": (lambda v: "none" if v is None else dbits(v))(maybe(lambda: rng.random())),
        "beatgrid": "0" if minimal else grid(rng, rng.choice(["empty", "two", "many"])),
        "bitrate": (lambda v: "none" if v is None else str(v))(maybe(lambda: rng.choice([0, 128, 320, 2 ** 31 - 1]))),
        "bpm": (lambda v: "none" if v is None else dbits(v))(maybe(lambda: rng.choice([120.0, 93.5, 0.0, 300.25]))),
        "comment": ostr(maybe(lambda: label(rng, "short"))),
        "composer": ostr(maybe(lambda: label(rng, "short"))),
        "duration": (lambda v: "none" if v is None else str(v))(maybe(lambda: rng.choice([0, 1, 999, 1000, 215000, 3600001]))),
        "file_bytes": (lambda v: "none" if v is None else str(v))(maybe(lambda: rng.choice([0, 1, 1234567, 2 ** 40]))),
        "genre": ostr(maybe(lambda: label(rng, "short"))),
        "hot_cues": "0" if minimal else (lambda n: "%d %s" % (n, " ".join(optcue(rng, lab="short") for _ in range(n))) if n else "0")(rng.choice([0, 0, 3, 8])),
        "key": (lambda v: "none" if v is None else str(v))(maybe(lambda: rng.randrange(0, 24))),
        "last_played_at": (lambda v: "none" if v is None else str(v))(maybe(lambda: rng.choice([0, 1, 1600000000]) * 10 ** 9)),
        "loops": "0" if minimal else (lambda n: "%d %s" % (n, " ".join(optloop(rng, lab="short") for _ in range(n))) if n else "0")(rng.choice([0, 0, 2, 8])),
        "main_cue": (lambda v: "none" if v is None else dbits(v))(maybe(lambda: float(rng.randrange(1, 100000)))),
        "publisher": ostr(maybe(lambda: label(rng, "short"))),
        "rating": (lambda v: "none" if v is None else str(v))(maybe(lambda: rng.choice([0, 1, 20, 60, 100]))),
        "relative_path": ostr(b"../music/" + label(rng, "short").replace(b" ", b"_") + b".mp3"),
        "sample_count": "none", "sample_rate": "none",
        "title": ostr(maybe(lambda: label(rng, "short"))),
        "track_number": (lambda v: "none" if v is None else str(v))(maybe(lambda: rng.choice([0, 1, 7, 99]))),
        "waveform": "-",
        "year": (lambda v: "none" if v is None else str(v))(maybe(lambda: rng.choice([0, 1999, 2024]))),
    }
    if not minimal and rng.random() < 0.6:
        f["sample_count"] = str(rng.choice([1, 44100, 9000000, 12345678]))
        f["sample_rate"] = dbits(rng.choice([44100.0, 48000.0, 96000.0, 22050.0]))
    f.update(over)
    order = ["album", "artist", "average_loudness", "beatgrid", "bitrate", "bpm", "comment", "composer", "duration",
             "file_bytes", "genre", "hot_cues", "key", "last_played_at", "loops", "main_cue", "publisher", "rating",
             "relative_path", "sample_count", "sample_rate", "title", "track_number", "waveform", "year"]
    return " ".join(f[k] for k in order)
