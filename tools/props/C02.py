"""C02 — Written blobs agree with an independent decoder of the Engine format."""
import random
from common import *
import runner
from props import _codecs as cd

ID = "C02"
LEAN_MODULES = ["Properties.C02"]
THEOREMS = ["EngineModel.Properties.C02." + t for t in [
    "C02_v2_track_decode_agrees", "C02_v2_beat_decode_agrees", "C02_v2_ovw_decode_agrees",
    "C02_v2_cues_decode_agrees", "C02_v2_loops_decode_agrees",
    "C02_v2_track_encode_agrees", "C02_v2_beat_encode_agrees", "C02_v2_ovw_encode_agrees",
    "C02_v2_cues_encode_agrees", "C02_v2_loops_encode_agrees",
    "C02_v1_track_decode_agrees", "C02_v1_ovw_decode_agrees", "C02_v1_hires_decode_agrees",
    "C02_v1_cues_decode_agrees", "C02_v1_loops_decode_agrees", "C02_v1_beat_decode_agrees_of_spec",
    "C02_v1_beat_decode_agrees_partial", "C02_v1_beat_decode_agrees_counterexample", "C02_v1_track_encode_agrees",
    "C02_v1_ovw_encode_agrees", "C02_v1_hires_encode_agrees", "C02_v1_loops_encode_agrees",
    "C02_v1_cues_encode_agrees", "C02_v1_beat_encode_agrees",
    "C02_inflate_stored", "C02_unframe_frame",
]]
ASSUMPTIONS = [
    "the Spec layouts (lean/EngineModel/Format/V2.lean, V1.lean) and the Lean inflate (Zlib/Inflate.lean, RFC 1950/1951) "
    "are our reading of the Engine format and of the RFCs; they are the oracle and are trusted as such (no Engine "
    "hardware in the loop)",
    "the framing of the independent side is proved self-consistent (inflate (deflateStored x ++ r) = (x, r) for every "
    "byte list); its agreement with libz is tied by execution on every run: real blobs (incl. multi-buffer streams of "
    "17-100 KB incompressible payloads) are inflated by the Lean decoder, and stored-block streams made by the Lean "
    "encoder are read by the real library",
    "1.x beat data: the library accepts one family of payloads the Spec rejects (valid first grid, second count missing "
    "-> 'no grids', the try/catch of beat_data::decode); Model = Spec is proved outside that explicitly characterised "
    "family and the witness is replayed every run",
]
MANIFEST = dict(
    text="The independent implementation is a set of declarative layouts in Lean (codec combinators with generic laws) "
         "plus an RFC 1950/1951 inflate and a stored-block encoder written in Lean. Theorems: for every value and every "
         "byte string the Model of the C++ decoder returns exactly the Spec decoder's verdict (same value, same "
         "remainder, rejection otherwise) and the Model encoder returns exactly the Spec's bytes or rejects, for each of "
         "the eleven kinds (five 2.x, six 1.x) — so endianness, widths and field order are pinned to the Spec; the Lean "
         "inflate provably inverts the Lean stored-block encoder (multi-block, Adler-32). Tie, both directions on every run: blobs written "
         "by the real library are inflated by the Lean inflate and decoded by the Spec to the value written (and equal "
         "the Spec encoder's payload byte for byte; the 4-byte prefix equals the payload length); payloads from the Spec "
         "encoder framed by the Lean stored-deflate are decoded by the real library to the same value.",
    note="Trusted: the Spec is our reading of the format. Compressed bytes are never compared. Hardware is not in the loop.",
    technique="Lean 4 theorems (Impl = Spec, both directions) + execution tie through an independent inflate written in Lean",
    ref="6/C02")
TRUSTED_EXTRA = ["lean/EngineModel/Zlib/Inflate.lean as executable oracle for the framing"]


# model regenerated from the C++ sources + its equality with the hand model (see props/_implgen.py)
from props import _implgen
LEAN_MODULES = LEAN_MODULES + _implgen.LEAN_MODULES
THEOREMS = THEOREMS + _implgen.THEOREMS_FOR[ID]
ASSUMPTIONS = ASSUMPTIONS + _implgen.ASSUMPTIONS
TRUSTED_EXTRA = TRUSTED_EXTRA + _implgen.TRUSTED_EXTRA
TRANSLATORS = dict(globals().get("TRANSLATORS", {}), **_implgen.TRANSLATORS)


def H(lines, watchdog=20):
    sc = runner.shard(lines, NCPU)
    return [o for (outs, _) in runner.run_harness(sc, stateless=True, watchdog=watchdog) for o in outs]


def M(lines):
    sc = runner.shard(lines, NCPU)
    return [o for outs in runner.run_model(sc) for o in outs]


def tie(ctx):
    rng = random.Random(ctx.seed * 86028121 + 2)
    hist = {}
    vals = cd.gen_values(rng, ctx.tier, hist, per_kind=40 if ctx.tier == "quick" else 1000)
    n = len(vals)
    enc_lines = ["enc %s %s" % (k, cd.enc_text(k, v)) for (k, v) in vals]
    senc_lines = ["senc %s %s" % (k, cd.enc_text(k, v)) for (k, v) in vals]
    henc = H(enc_lines)
    mo = M(enc_lines + senc_lines)
    menc, senc = mo[:n], mo[n:]
    divergences, violations = [], []

    def viol(i, why, extra):
        violations.append({"tag": "oracle", "signature": None, "header": {"kind": "input", "what": why},
                           "body": [enc_lines[i]] + extra})

    second = []       # model-side lines: unframe + sdec of what the library wrote; stz of what the Spec wrote
    idx = []
    stats = {"lib_written": 0, "spec_written": 0, "both_reject": 0}
    for i, (k, v) in enumerate(vals):
        h, s = henc[i], senc[i]
        ht, st = h.split(), s.split()
        hcmp = " ".join(ht[:2]) if ht and ht[0] == "ok" else h
        if hcmp != menc[i]:
            divergences.append({"input": enc_lines[i][:400], "impl": h[:200], "model": menc[i][:200]})
        hok = bool(ht) and ht[0] == "ok"
        sok = bool(st) and st[0] == "ok"
        if not (hok or h.startswith("throw")):
            viol(i, "encoder crashed: " + h, [])
            continue
        if hok != sok:
            viol(i, "library and independent encoder disagree on whether the value is encodable",
                 ["impl: " + h[:200], "spec: " + s[:200]])
            continue
        if not hok:
            stats["both_reject"] += 1
            continue
        if len(ht) < 3 or ht[1] == "UNFRAMED":
            viol(i, "blob is not a 4-byte length + one complete zlib stream of that length " +
                 cd.size_note(k, ht[2] if len(ht) > 2 else ""), ["impl: " + h[:300]])
            continue
        payload_h, blob_h = ht[1], ht[2]
        if payload_h != st[1]:
            viol(i, "payload written by the library differs from the independent encoder's",
                 ["impl: " + payload_h[:600], "spec: " + st[1][:600]])
            continue
        if k not in cd.RAW_KINDS:
            plen = 0 if payload_h == "-" else len(payload_h) // 2
            if int(blob_h[:8], 16) != plen:
                viol(i, "4-byte big-endian prefix is not the uncompressed length", ["impl: " + h[:200]])
                continue
            second.append("unframe " + blob_h)
        else:
            second.append("#raw")
            if blob_h != payload_h:
                viol(i, "loops blob is not stored uncompressed", ["impl: " + h[:200]])
                continue
        second.append("sdec %s %s" % (k, payload_h))
        second.append("stz " + st[1] if k not in cd.RAW_KINDS else "#raw")
        idx.append(i)
        stats["lib_written"] += 1
    so = M(second) if second else []
    decz_lines, decz_idx = [], []
    for j, i in enumerate(idx):
        k, v = vals[i]
        unf, sdec, stz = so[3 * j], so[3 * j + 1], so[3 * j + 2]
        payload_h = henc[i].split()[1]
        if k not in cd.RAW_KINDS and unf != "ok " + payload_h:
            viol(i, "the independent inflate does not recover the payload from the blob the library wrote",
                 ["impl: " + henc[i][:300], "lean inflate: " + unf[:200]])
            continue
        if cd.format_can_hold(k, v):
            want = "ok " + cd.expected_readback(k, v)
            if sdec != want:
                viol(i, "the independent decoder reads the library's payload as a different value",
                     ["impl payload: " + payload_h[:600], "spec decode: " + sdec[:400], "written:     " + want[:400]])
                continue
        blob_s = senc[i].split()[1] if k in cd.RAW_KINDS else (stz.split()[1] if stz.startswith("ok") else None)
        if blob_s is None:
            viol(i, "stored-deflate framing failed", [stz])
            continue
        decz_lines.append("decz %s %s" % (k, blob_s))
        decz_idx.append(i)
    hd = H(decz_lines) if decz_lines else []
    md = M(decz_lines) if decz_lines else []
    distinct = set()
    for j, i in enumerate(decz_idx):
        k, v = vals[i]
        if hd[j] != md[j]:
            divergences.append({"input": decz_lines[j][:400], "impl": hd[j][:200], "model": md[j][:200]})
        stats["spec_written"] += 1
        if cd.format_can_hold(k, v):
            want = "ok " + cd.expected_readback(k, v)
            if hd[j] != want:
                viol(i, "the library decodes the independent encoder's blob to a different value",
                     [decz_lines[j], "impl: " + hd[j][:400], "want: " + want[:400]])
            elif cd.nontrivial(k, v):
                distinct.add(enc_lines[i])
    # witness of C02_v1_beat_decode_agrees_counterexample (Properties/C02.lean `beatMissingSecondGrid`): header, one
    # grid of two markers, no second grid.  The library's try/catch accepts it as "no grids", the Spec rejects it.
    wit = bytes([0] * 16 + [1] + [0] * 7 + [2] + [0] * 8 + [0] * 8 + [4, 0, 0, 0] + [0] * 4 +
                [0, 0, 0, 0, 0, 0, 0x59, 0x40] + [4] + [0] * 7 + [0] * 4 + [0] * 4)
    wl = ["dec v1.beat " + cd.hexb(wit)]
    hw, mw, sw = H(wl)[0], M(wl)[0], M(["sdec v1.beat " + cd.hexb(wit)])[0]
    if hw != mw:
        divergences.append({"input": wl[0], "impl": hw[:200], "model": mw[:200]})
    hist["witness:v1_beat_missing_second_grid impl=%s spec=%s" % (hw[:20].replace(" ", "_"), sw[:12])] = 1
    hist.update({"class:" + k: v for k, v in stats.items()})
    kinds = {}
    for (k, _) in vals:
        kinds[k] = kinds.get(k, 0) + 1
    hist.update({"kind:" + k: v for k, v in kinds.items()})
    return {
        "ok": not divergences and not violations,
        "evaluations": len(enc_lines) * 2 + len(second) + 2 * len(decz_lines),
        "distinct_nontrivial": len(distinct),
        "rule": "seeded values of all 11 kinds (as C03). Direction 1: real to_blob/encode -> (payload = Spec encoder's "
                "payload byte for byte; prefix = length; Lean inflate of the stored blob = payload; Spec decode = value "
                "written). Direction 2: Spec encode + Lean stored-deflate framing -> real from_blob/decode = value. "
                "non-trivial = distinct accepted value with at least one entry that passed both directions",
        "samples": [enc_lines[0][:200], enc_lines[n // 2][:200], (decz_lines or ["-"])[0][:200]],
        "histograms": hist,
        "divergences": divergences[:20],
        "violations": cd.diverse(violations),
    }


replay = cd.replay
