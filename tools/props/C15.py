"""C15 — No public call has undefined behaviour, whatever its arguments.
Assembled from the no-ub theorems of the four API models (tracks / crates x
schema 1.x / 2.x) and an adversarial-call search on the sanitizer harness."""
from props import _combine

_combine.install(globals(), "C15", ["C15_sites", "C15_tracks_v1", "C15_tracks_v2", "C15_crates_v1", "C15_crates_v2", "C15_tableapi", "C15_search"], dict(
    text="Partial: theorems `forall reachable / invariant-satisfying state, forall operation with ANY argument values, "
         "outcome != ub` over the four executable API models (tracks / crates x schema 1.x / 2.x), in which every "
         "undefined-behaviour source of the library's own code (vector index, empty-optional dereference, signed "
         "overflow, double->int cast range, division by zero, fixed-size buffer, missing chain tail, unbounded walk / "
         "recursion) is an explicit `ub` outcome or the guard the code has; stale-handle theorems (is_valid = false, "
         "id / copy ok).  Tied on every run by adversarial scripts executed on the sanitizer harness and on the models "
         "(outcome classes incl. `ub` must agree) with the direct oracle `no call ends in ub`.",
    note="Limits: memory safety of SQLite, sqlite_modern_cpp, libstdc++ internals and zlib under these calls is observed "
         "by ASan / UBSan / _GLIBCXX_ASSERTIONS during the tie only; the blob codecs are C05's theorems; crates 2.x "
         "ordered queries assume the chain / forest invariant proved reachable by C09 / C11; 1.x calls through a stale "
         "track handle are compared as defined-vs-undefined only.  See design/C15.md.",
    technique="Lean 4 no-ub theorems over the executable API models (every modelled undefined-behaviour source is an "
              "explicit `ub` outcome) + sanitizer-instrumented differential replay with adversarial arguments",
    ref="6/C15"))
# a claimed check needs at least one theorem-carrying part; the search alone is not a proof
REGISTERED = bool(THEOREMS)
