"""C15 — No public call has undefined behaviour, whatever its arguments.
Assembled from the no-ub theorems of the four API models (tracks / crates x
schema 1.x / 2.x) and an adversarial-call search on the sanitizer harness."""
from props import _combine

_combine.install(globals(), "C15", ["C15_tracks_v1", "C15_tracks_v2", "C15_crates_v1", "C15_crates_v2", "C15_search"], dict(
    text="",
    note="see design/C15.md",
    technique="Lean 4 no-ub theorems over the executable API models (every modelled undefined-behaviour source is an "
              "explicit `ub` outcome) + sanitizer-instrumented differential replay with adversarial arguments",
    ref="6/C15"))
# a claimed check needs at least one theorem-carrying part; the search alone is not a proof
REGISTERED = bool(THEOREMS)
