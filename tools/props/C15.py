"""C15 — No public call has undefined behaviour, whatever its arguments.
Assembled from the no-ub theorems of the four API models (tracks / crates x
schema 1.x / 2.x) and an adversarial-call search on the sanitizer harness."""
from props import _combine

_combine.install(globals(), "C15", ["C15_sites", "C15_tracks_v1", "C15_tracks_v2", "C15_crates_v1", "C15_crates_v2", "C15_faults", "C15_tableapi", "C15_search"], dict(
    text="Partial: theorems `forall reachable / invariant-satisfying state, forall public call with ANY argument values, "
         "outcome != ub` over the executable API models (tracks / crates x schema 1.x / 2.x, 2.x table API), in which every "
         "undefined-behaviour source of the library's own code (vector index, empty-optional dereference, signed overflow, "
         "double->int cast range, division by zero, fixed-size buffer, missing chain tail, unbounded walk / recursion / "
         "recursive view) is an explicit `ub` outcome behind the guard the C++ has; the guards of the track, crate and "
         "track_utils call paths are REGENERATED from the typed AST of the source on every run (Gen/C15Guards.lean, "
         "Gen/TrackUtilsGen.lean) and the theorems `guarded dispatcher = model dispatcher, never ub` are re-proved against "
         "them; a complete site inventory (191 sites) fails closed on unconfirmed sites.  Stale handles: invalid along "
         "every later history on 2.x (AUTOINCREMENT), on 1.x until the id is reissued (partial + registered "
         "counterexample = the recorded finding).  Tied on every run by adversarial scripts executed on the sanitizer "
         "harness and on the guarded models (outcome classes incl. `ub` must agree) with the direct oracle `no call ends "
         "in ub`.",
    note="Limits: memory safety of SQLite, sqlite_modern_cpp, libstdc++ internals (incl. std::chrono conversions) and zlib "
         "under these calls is observed by ASan / UBSan / _GLIBCXX_ASSERTIONS during the tie only; the blob codecs are C05's "
         "theorems; uuid / version_name / directory / verify / crate::db and handle copy / assign / move / destroy have no "
         "model content (tie only); 74 of the 191 sites are covered by hand-mirrored guards of the package models (textual "
         "drift fails closed), 6 by the sanitizers only; reachable = histories from the empty library (2.x crates: any state "
         "satisfying PlInv).  See design/C15.md and design/C15_sites.md.",
    technique="Lean 4 no-ub theorems over executable API models whose guards are regenerated from clang's typed AST "
              "(translator + fail-closed site inventory) + sanitizer-instrumented differential replay with adversarial "
              "arguments",
    ref="6/C15"))
# a claimed check needs at least one theorem-carrying part; the search alone is not a proof
REGISTERED = bool(THEOREMS)
