"""Binding cross-check of property C18 (DESIGN 6/C18, REVIEW "trust in the translator").

The theorems see (column, member, conversion) triples already paired by tools/tr_bindings.py.
This module determines the member <-> column pairing of every statement of the 2.x table API
*by experiment on the real library*, without reading the C++ source and without the translator:

  INSERT / UPDATE   rows whose members all hold distinct, recognisable values are written through
                    the real API; the raw columns are read through the C API; a column is paired
                    with the member whose values it holds in every probe row;
  SELECT / get_*    every column is overwritten with a distinct value by raw SQL (tt.sql, C API);
                    the row is read through the real API; a member is paired with the column whose
                    planted values it shows in every probe row;
  set_*             a distinct value per member through the real setter, raw columns read back.

Booleans hold one bit, so each boolean member gets its own bit pattern across the probe rows.
Triggers that would overwrite a probed column (the 2.20.3+ last-edit stamp) are dropped in the
probe library first; origin pairs are set, so the fix-origin trigger does not fire.

The observed pairing is compared with
  * the Spec (lean Table/Names.lean, printed by `c18.spec …`): a difference is a property violation
    (the real statement binds a member to another member's column) with the probe script as replay;
  * the regenerated binding tables (lean Gen/Bindings.lean as compiled into the driver, printed by
    `c18.bind …`): a difference with the Spec-conform observation means the translator mis-paired
    (reported as a divergence of the correspondence).
Runs on all seven 2.x schema versions on every run (a few hundred harness commands each).
"""
import re, struct
from common import *
import runner
from props import _codecs as cd
from props import _tableapi as T

NROWS = 4        # bit patterns of up to 16 boolean members


def _bits(code, j):
    return (code >> j) & 1


class Probe:
    """Distinct values per (generation g, member index k, row j)."""

    def __init__(self, fields):
        self.fields = fields
        self.bools = [f for f, ty in fields if ty == "bool"]

    def val(self, f, ty, g, j):
        k = [x for x, _ in self.fields].index(f)
        n = 100000 * g + 1000 * (j + 1) + k + 100
        if ty in ("i64", "oi64"):
            return n
        if ty == "oi32":
            return n
        if ty in ("str", "ostr"):
            return b"P%d_%d_%d" % (g, k, j)
        if ty == "odbl":
            return cd.dbits(float(n) + 0.5)
        if ty == "bool":
            return bool(_bits(self.bools.index(f) + g, j))
        if ty in ("time", "otime"):
            return n * 10 ** 9
        if ty == "blob:v2.track":
            return dict(sr=cd.dbits(44100.0), samples=n, key=3, lo=cd.ZERO, mid=cd.ZERO, hi=cd.ZERO, extra=b"")
        if ty == "blob:v2.ovw":
            return dict(spp=cd.dbits(float(n)), pts=b"", mx=b"\0\0\0", extra=b"")
        if ty == "blob:v2.beat":
            return dict(sr=cd.dbits(44100.0), samples=cd.dbits(float(n)), flag=0, dflt=[], adj=[], extra=b"")
        if ty == "blob:v2.cues":
            return dict(cues=[], adj=cd.dbits(float(n)), flag=0, dflt=cd.ZERO, extra=b"")
        if ty == "blob:v2.loops":
            return dict(loops=[], extra=b"L%d" % n)
        raise KeyError(ty)


def stored(ty, v):
    """What the raw dump shows for a member value of declared type ty bound to its column
    (written from the documented conversions: optional -> value, bool -> 0/1, time -> seconds)."""
    if ty in ("i64", "oi64", "oi32"):
        return "i%d" % v
    if ty in ("str", "ostr"):
        return "s" + cd.hexb(v)
    if ty == "odbl":
        return "f" + v
    if ty == "bool":
        return "i1" if v else "i0"
    if ty in ("time", "otime"):
        return "i%d" % (v // 10 ** 9)
    if ty == "timeText":
        return "s" + cd.hexb(ft_text(v).encode())
    if ty.startswith("blob:"):
        return "b[" + cd.text(ty[5:], v) + "]"
    raise KeyError(ty)


def ft_text(ns):
    import datetime
    sec = ns // 10 ** 9
    d = datetime.datetime(1970, 1, 1) + datetime.timedelta(seconds=sec)
    return d.strftime("%Y-%m-%d %H:%M:%S") + ".%09d" % (ns % 10 ** 9)


def shown(ty, planted):
    """What the API prints for a member of declared type ty read from a column holding the planted
    raw value (('i', n) | ('s', bytes) | ('f', float)), or None when that storage class cannot
    be what a member of this type was read from."""
    k, x = planted
    if ty in ("i64", "oi64", "oi32"):
        return str(x) if k == "i" else None
    if ty == "str":
        return cd.hexb(x) if k == "s" else None
    if ty == "ostr":
        return "s" + cd.hexb(x) if k == "s" else None
    if ty == "odbl":
        return cd.dbits(x) if k == "f" else None
    if ty == "bool":
        return ("1" if x else "0") if k == "i" and x in (0, 1) else None
    if ty in ("time", "otime"):
        return str(x * 10 ** 9) if k == "i" else None
    if ty == "timeText":
        return None     # planted separately
    return None


def sql_lit(planted):
    k, x = planted
    if k == "i":
        return str(x)
    if k == "f":
        return repr(float(x))
    return "'" + x.decode() + "'"


def hexsql(s):
    return s.encode().hex()


def parse_rows(h):
    """'ok seq=(n) {c=v c=v ...} {...}' -> list of dict column -> printed value.  Blob values contain
    spaces: a new column starts at ' <identifier>='."""
    out = []
    for m in re.finditer(r"\{(.*?)\}(?= \{|$)", h[h.index("{"):] if "{" in h else ""):
        row, body = {}, m.group(1)
        parts = re.split(r"(?:^| )([A-Za-z_][A-Za-z_0-9]*)=", body)
        for i in range(1, len(parts) - 1, 2):
            row[parts[i]] = parts[i + 1]
        out.append(row)
    return out


def run(lines):
    out, rep = runner.run_harness_script(lines, stateless=False, watchdog=60)
    return out


def match_cols_to_fields(fields, rows_written, raw_rows):
    """INSERT / UPDATE / set_: column -> member whose stored values it holds in every row."""
    obs = {}
    cols = [c for c in raw_rows[0] if c != "id"]
    for c in cols:
        vec = [r.get(c) for r in raw_rows]
        hits = [f for f, ty in fields if [stored(ty, rw[f]) for rw in rows_written] == vec]
        obs[c] = hits[0] if len(hits) == 1 else ("-" if not hits else "?" + ",".join(hits))
    return obs


def pairs_w(obs):
    return sorted("%s:%s" % (f, c) for c, f in obs.items() if f != "-")


def parse_pairs(line, drop_const=True):
    if not line.startswith("ok"):
        return None
    items = line[2:].split()
    return sorted(i for i in items if not (drop_const and (i.startswith("-:") or i.endswith(":-"))))


# ---------------------------------------------------------------------------------- Track
def probe_track(schema, model):
    """-> (script lines, impl outputs, findings) ; findings = list of (kind, statement, detail)"""
    fields = [(f, ty) for f, ty in T.TRACK_FIELDS if f != "id"]
    present = [(f, ty) for f, ty in fields if f not in T.TRACK_GUARD or T.sge(schema, T.TRACK_GUARD[f])]
    P = Probe(T.TRACK_FIELDS)
    rows = {g: [dict([("id", 0 if g == 1 else j + 1)] + [(f, P.val(f, ty, g, j)) for f, ty in fields])
                for j in range(NROWS)] for g in (1, 2)}
    L = ["#mode tableapi", "tt.create " + schema, "tt.uuid " + cd.hexb(b"probe-lib"), "tt.clock 1700000000",
         "tt.sql " + hexsql("DROP TRIGGER IF EXISTS trigger_after_update_Track_timestamp")]
    i_ins = []
    for j in range(NROWS):
        L.append("tt.add " + T.fmt_row(T.TRACK_FIELDS, rows[1][j]))
    L.append("tt.raw"); k_ins = len(L) - 1
    for j in range(NROWS):
        L.append("tt.update " + T.fmt_row(T.TRACK_FIELDS, rows[2][j]))
    L.append("tt.raw"); k_upd = len(L) - 1
    H = run(L)
    findings = []
    if any(not h.startswith(("ok", "skip")) for h in H):
        bad = [(l[:60], h) for l, h in zip(L, H) if not h.startswith(("ok", "skip"))][:3]
        return L, H, [("probe-error", "track write probe", str(bad))]
    raw1, raw2 = parse_rows(H[k_ins]), parse_rows(H[k_upd])
    obs_ins = match_cols_to_fields(present, rows[1], raw1)
    obs_upd = match_cols_to_fields(present, rows[2], raw2)
    # ---- SELECT and getters: plant every non-blob column by raw SQL
    kinds = {}
    for c in raw2[0]:
        if c == "id":
            continue
        vs = [r[c] for r in raw2]
        if all(v.startswith("b") for v in vs):
            kinds[c] = "b"
        elif all(v in ("i0", "i1") for v in vs):
            kinds[c] = "bit"
        elif all(v.startswith("i") for v in vs):
            kinds[c] = "i"
        elif all(v.startswith("f") for v in vs):
            kinds[c] = "f"
        elif all(v.startswith("s") for v in vs):
            kinds[c] = "s"
        else:
            kinds[c] = "?"
    cols = [c for c in raw2[0] if c != "id"]
    bitcols = [c for c in cols if kinds[c] == "bit"]
    planted = []
    L2 = []
    for j in range(NROWS):
        pl = {}
        for k, c in enumerate(cols):
            n = 300000 + 1000 * (j + 1) + k + 100
            if kinds[c] == "bit":
                pl[c] = ("i", _bits(bitcols.index(c) + 5, j))
            elif kinds[c] == "i":
                pl[c] = ("i", n)
            elif kinds[c] == "f":
                pl[c] = ("f", float(n) + 0.25)
            elif kinds[c] == "s":
                pl[c] = ("s", b"Q%d_%d" % (k, j))
        planted.append(pl)
        L2.append("tt.sql " + hexsql("UPDATE Track SET " + ", ".join("%s = %s" % (c, sql_lit(v)) for c, v in pl.items())
                                     + " WHERE id = %d" % (j + 1)))
    L2.append("tt.raw"); k_raw3 = len(L) + len(L2) - 1
    g0 = len(L) + len(L2)
    for j in range(NROWS):
        L2.append("tt.get %d" % (j + 1))
    gc0 = len(L) + len(L2)
    for f, ty in fields:
        for j in range(NROWS):
            L2.append("tt.getc %s %d" % (f, j + 1))
    # ---- setters
    sc0 = len(L) + len(L2)
    setvals = {}
    for f, ty in fields:
        aty = T.TRACK_ACC_TY[f]
        for j in range(NROWS):
            v = P.val(f, ty, 4, j)
            setvals[(f, j)] = v
            L2.append("tt.setc %s %d %s" % (f, j + 1, T.tok(aty, v)))
    L2.append("tt.raw"); k_raw4 = len(L) + len(L2) - 1
    H2 = run(L + L2)
    L, H = L + L2, H2
    raw3 = parse_rows(H[k_raw3])
    got = []
    for j in range(NROWS):
        h = H[g0 + j]
        if not h.startswith("ok ") or h == "ok none":
            return L, H, [("probe-error", "track get", h)]
        got.append(T.split_row(T.TRACK_FIELDS, h[3:]))

    def match_field(f, ty, vec):
        hits = []
        for c in cols:
            if kinds[c] == "b":
                if ty.startswith("blob:") and ["b[" + v + "]" for v in vec] == [r[c] for r in raw3]:
                    hits.append(c)
            elif c in planted[0]:
                if [shown(ty, planted[j][c]) for j in range(NROWS)] == vec:
                    hits.append(c)
        return hits[0] if len(hits) == 1 else ("-" if not hits else "?" + ",".join(hits))
    obs_sel = {f: match_field(f, ty, [got[j][f] for j in range(NROWS)]) for f, ty in fields}
    obs_get = {}
    unsupported_ok = True
    p = gc0
    for f, ty in fields:
        vec = []
        for j in range(NROWS):
            vec.append(H[p]); p += 1
        if f in T.TRACK_GUARD and not T.sge(schema, T.TRACK_GUARD[f]):
            obs_get[f] = "-" if all(v.startswith("throw ") for v in vec) else "?answers-without-column"
            continue
        if not all(v.startswith("ok ") for v in vec):
            obs_get[f] = "?" + vec[0][:40]
            continue
        obs_get[f] = match_field(f, T.TRACK_ACC_TY[f], [v[3:] for v in vec])
    raw4 = parse_rows(H[k_raw4])
    obs_set = {}
    for c in cols:
        vec = [r.get(c) for r in raw4]
        hits = [f for f, ty in present if [stored(T.TRACK_ACC_TY[f] if T.TRACK_ACC_TY[f] != "otime" or ty == "otime" else "time",
                                                  setvals[(f, j)]) for j in range(NROWS)] == vec]
        obs_set[c] = hits[0] if len(hits) == 1 else ("-" if not hits else "?" + ",".join(hits))
    # ---- compare
    spec = parse_pairs(model("c18.spec track " + schema))
    spec_w = sorted(p for p in spec if not p.startswith("id:"))
    spec_r = spec
    checks = [
        ("INSERT", pairs_w(obs_ins), spec_w, parse_pairs(model("c18.bind track ins " + schema))),
        ("UPDATE", pairs_w(obs_upd), spec_w, parse_pairs(model("c18.bind track upd " + schema))),
        ("SELECT", sorted(["id:id"] + ["%s:%s" % (f, c) for f, c in obs_sel.items() if c != "-"]), spec_r,
         parse_pairs(model("c18.bind track sel " + schema))),
        ("getters", sorted("%s:%s" % (f, c) for f, c in obs_get.items() if c != "-"), spec_w,
         [p for p in parse_pairs(model("c18.bind track getters " + schema))
          if p.split(":")[0] not in T.TRACK_GUARD or T.sge(schema, T.TRACK_GUARD[p.split(":")[0]])]),
        ("setters", pairs_w(obs_set), spec_w,
         [p for p in parse_pairs(model("c18.bind track setters " + schema))
          if p.split(":")[0] not in T.TRACK_GUARD or T.sge(schema, T.TRACK_GUARD[p.split(":")[0]])]),
    ]
    return L, H, compare("track", schema, checks)


def compare(table, schema, checks):
    out = []
    for stmt, obs, spec, gen in checks:
        if obs != spec:
            d = sorted(set(obs) ^ set(spec))
            out.append(("probe", "%s %s (%s)" % (table, stmt, schema),
                        "observed on the real library (member:column) but not the Spec's pairing, or vice versa: " + " ".join(d)))
        if gen is None:
            out.append(("translator", "%s %s (%s)" % (table, stmt, schema), "the driver could not print the binding table"))
        elif gen != obs:
            d = sorted(set(obs) ^ set(gen))
            out.append(("translator", "%s %s (%s)" % (table, stmt, schema),
                        "Gen/Bindings.lean pairs differently from what the real library does: " + " ".join(d)))
    return out


# ---------------------------------------------------------------------------------- Playlist
PL_FIELDS = [("id", "i64"), ("title", "str"), ("parent_list_id", "i64"), ("is_persisted", "bool"),
             ("next_list_id", "i64"), ("last_edit_time", "timeText"), ("is_explicitly_exported", "bool")]


def probe_playlist(schema, model):
    fields = [(f, ty) for f, ty in PL_FIELDS if f != "id"]
    n = 2

    def row(g, j, rid, parent=None, nxt=None):
        return dict(id=rid, title=b"T%d_%d" % (g, j), parent_list_id=parent if parent is not None else 7000 + 100 * g + j,
                    is_persisted=bool((j + g) % 2), next_list_id=nxt if nxt is not None else 8000 + 100 * g + j,
                    last_edit_time=(1500000000 + 1000 * g + j) * 10 ** 9, is_explicitly_exported=bool((j + g + 1) % 2))

    def fmt(r):
        return "%d %s %d %d %d %d %d" % (r["id"], cd.hexb(r["title"]), r["parent_list_id"], 1 if r["is_persisted"] else 0,
                                         r["next_list_id"], r["last_edit_time"], 1 if r["is_explicitly_exported"] else 0)
    r1 = [row(1, j, 0) for j in range(n)]
    r2 = [row(2, j, j + 1) for j in range(n)]                                   # moved: full update
    r3 = [row(3, j, j + 1, r2[j]["parent_list_id"], r2[j]["next_list_id"]) for j in range(n)]   # same place: simple
    L = ["#mode tableapi", "tt.create " + schema] + ["tpl.add " + fmt(r) for r in r1] + ["tpl.raw"]
    k1 = len(L) - 1
    L += ["tpl.update " + fmt(r) for r in r2] + ["tpl.raw"]
    k2 = len(L) - 1
    L += ["tpl.update " + fmt(r) for r in r3] + ["tpl.raw"]
    k3 = len(L) - 1
    # SELECT: plant
    planted = []
    for j in range(n):
        pl = dict(title=("s", b"Z%d" % j), parentListId=("i", 9100 + j), isPersisted=("i", j % 2), nextListId=("i", 9200 + j),
                  lastEditTime=("s", ft_text((1600000000 + j) * 10 ** 9).encode()), isExplicitlyExported=("i", (j + 1) % 2))
        planted.append(pl)
        L.append("tt.sql " + hexsql("UPDATE Playlist SET " + ", ".join("%s = %s" % (c, sql_lit(v)) for c, v in pl.items())
                                    + " WHERE id = %d" % (j + 1)))
    g0 = len(L)
    L += ["tpl.get %d" % (j + 1) for j in range(n)]
    H = run(L)
    if any(not h.startswith(("ok", "skip")) for h in H):
        return L, H, [("probe-error", "playlist probe", str([(l[:60], h) for l, h in zip(L, H) if not h.startswith(("ok", "skip"))][:3]))]
    obs_ins = match_cols_to_fields(fields, r1, parse_rows(H[k1]))
    obs_full = match_cols_to_fields(fields, r2, parse_rows(H[k2]))
    raw2, raw3 = parse_rows(H[k2]), parse_rows(H[k3])
    # the simple update: only columns whose value changed between the two dumps count
    obs_simple = {}
    for c in raw3[0]:
        if c == "id":
            continue
        vec = [r[c] for r in raw3]
        hits = [f for f, ty in fields if [stored(ty, rw[f]) for rw in r3] == vec and [r[c] for r in raw2] != vec]
        obs_simple[c] = hits[0] if len(hits) == 1 else ("-" if not hits else "?" + ",".join(hits))
    got = [T.split_row(PL_FIELDS, H[g0 + j][3:]) for j in range(n)]
    obs_sel = {}
    for f, ty in fields:
        vec = [got[j][f] for j in range(n)]
        hits = []
        for c in planted[0]:
            if ty == "timeText":
                exp = [str((1600000000 + j) * 10 ** 9) for j in range(n)] if c == "lastEditTime" else None
            else:
                exp = [shown(ty, planted[j][c]) for j in range(n)]
            if exp == vec:
                hits.append(c)
        obs_sel[f] = hits[0] if len(hits) == 1 else ("-" if not hits else "?" + ",".join(hits))
    spec = parse_pairs(model("c18.spec playlist"))
    spec_w = sorted(p for p in spec if not p.startswith("id:"))
    simple_fields = ("title", "is_persisted", "last_edit_time", "is_explicitly_exported")
    checks = [
        ("INSERT", pairs_w(obs_ins), spec_w, parse_pairs(model("c18.bind playlist ins"))),
        ("UPDATE (position changed)", pairs_w(obs_full), spec_w, parse_pairs(model("c18.bind playlist updfull"))),
        ("UPDATE (position unchanged)", pairs_w(obs_simple), sorted(p for p in spec_w if p.split(":")[0] in simple_fields),
         parse_pairs(model("c18.bind playlist updsimple"))),
        ("SELECT", sorted(["id:id"] + ["%s:%s" % (f, c) for f, c in obs_sel.items() if c != "-"]), spec,
         parse_pairs(model("c18.bind playlist sel"))),
    ]
    return L, H, compare("playlist", schema, checks)


# ---------------------------------------------------------------------------------- PlaylistEntity
EN_FIELDS = [("id", "i64"), ("list_id", "i64"), ("track_id", "i64"), ("database_uuid", "str"),
             ("next_entity_id", "i64"), ("membership_reference", "i64")]


def probe_entity(schema, model):
    n = 2
    fields = [(f, ty) for f, ty in EN_FIELDS if f != "id"]
    r1 = [dict(id=0, list_id=500 + j, track_id=600 + j, database_uuid=b"U%d" % j, next_entity_id=700 + j,
               membership_reference=800 + j) for j in range(n)]
    L = ["#mode tableapi", "tt.create " + schema]
    for r in r1:
        L.append("tpe.add 0 %d %d %s %d %d 0" % (r["list_id"], r["track_id"], cd.hexb(r["database_uuid"]),
                                                r["next_entity_id"], r["membership_reference"]))
    L.append("tpe.raw"); k1 = len(L) - 1
    planted = []
    for j in range(n):
        pl = dict(listId=("i", 910 + j), trackId=("i", 920 + j), databaseUuid=("s", b"V%d" % j), nextEntityId=("i", 0),
                  membershipReference=("i", 940 + j))
        planted.append(pl)
        L.append("tt.sql " + hexsql("UPDATE PlaylistEntity SET " + ", ".join("%s = %s" % (c, sql_lit(v)) for c, v in pl.items())
                                    + " WHERE id = %d" % (j + 1)))
    g0 = len(L)
    for j in range(n):
        L.append("tpe.get %d %d" % (910 + j, 920 + j))
    for j in range(n):
        L.append("tpe.get3 %d %d %s" % (910 + j, 920 + j, cd.hexb(b"V%d" % j)))
    for j in range(n):
        L.append("tpe.list %d" % (910 + j))
    # remove: which columns does the WHERE clause consult, and bound to which argument?
    # rows now: id 1 = (list 910, …), id 2 = (list 911, …)
    r0 = len(L)
    L += ["tpe.remove 911 1",      # entity 1 under the list of entity 2: must not delete (pair mismatch)
          "tpe.raw",
          "tpe.remove 1 910",      # arguments swapped: must not delete
          "tpe.raw",
          "tpe.remove 910 1",      # the pair: deletes exactly entity 1
          "tpe.raw"]
    H = run(L)
    bad = [(l[:60], h) for l, h in list(zip(L, H))[:r0] if not h.startswith(("ok", "skip"))]
    if bad:
        return L, H, [("probe-error", "entity probe", str(bad[:3]))]
    obs_ins = match_cols_to_fields(fields, r1, parse_rows(H[k1]))

    def sel(rows_txt):
        got = [T.split_row(EN_FIELDS, t) for t in rows_txt]
        obs = {}
        for f, ty in fields:
            vec = [g[f] for g in got]
            hits = [c for c in planted[0] if [shown(ty, planted[j][c]) for j in range(n)] == vec]
            obs[f] = hits[0] if len(hits) == 1 else ("-" if not hits else "?" + ",".join(hits))
        return sorted(["id:id"] + ["%s:%s" % (f, c) for f, c in obs.items() if c != "-"])
    try:
        s2 = sel([H[g0 + j][3:] for j in range(n)])
        s3 = sel([H[g0 + n + j][3:] for j in range(n)])
        sl = sel([H[g0 + 2 * n + j][4:-1] for j in range(n)])
    except (ValueError, IndexError) as e:
        return L, H, [("probe-error", "entity read probe", str(e))]
    ids_after = [sorted(r["id"] for r in parse_rows(H[r0 + k])) for k in (1, 3, 5)]
    where_obs = []
    if H[r0] == "ok" or ids_after[0] != ["i1", "i2"]:
        where_obs.append("remove(other list, entity) deleted or succeeded: WHERE does not test listId against list_id")
    if H[r0 + 2] == "ok" or ids_after[1] != ["i1", "i2"]:
        where_obs.append("remove(entity id, list id) deleted or succeeded: WHERE arguments transposed")
    if H[r0 + 4] != "ok" or ids_after[2] != ["i2"]:
        where_obs.append("remove(list, entity) of an existing pair did not delete exactly that row")
    spec = parse_pairs(model("c18.spec entity"))
    spec_w = sorted(p for p in spec if p.split(":")[0] not in ("id", "next_entity_id"))
    checks = [
        ("INSERT", pairs_w(obs_ins), spec_w, parse_pairs(model("c18.bind entity ins"))),
        ("SELECT get(list, track)", s2, spec, parse_pairs(model("c18.bind entity sel"))),
        ("SELECT get(list, track, uuid)", s3, spec, parse_pairs(model("c18.bind entity sel3"))),
        ("SELECT get_for_list", sl, spec, parse_pairs(model("c18.bind entity sellist"))),
    ]
    out = compare("entity", schema, checks)
    gen_where = model("c18.bind entity removewhere")
    if where_obs:
        out.append(("probe", "entity remove WHERE (%s)" % schema, "; ".join(where_obs)))
        if gen_where == "ok listId:0 id:1":
            out.append(("translator", "entity remove WHERE (%s)" % schema,
                        "Gen/Bindings.lean says WHERE listId = list_id AND id = entity_id but the real library behaves otherwise"))
    elif gen_where != "ok listId:0 id:1":
        out.append(("translator", "entity remove WHERE (%s)" % schema, "the real library selects by the pair, Gen/Bindings.lean says " + gen_where))
    return L, H, out


# ---------------------------------------------------------------------------------- Information
IN_FIELDS = [("id", "i64"), ("uuid", "str"), ("schema_version_major", "i64"), ("schema_version_minor", "i64"),
             ("schema_version_patch", "i64"), ("current_played_indicator", "i64"),
             ("last_rekord_box_library_import_read_counter", "i64")]
IN_COLS = ["id", "uuid", "schemaVersionMajor", "schemaVersionMinor", "schemaVersionPatch", "currentPlayedIndiciator",
           "lastRekordBoxLibraryImportReadCounter"]


def probe_info(schema, model):
    pl = {c: ("i", 4100 + k) for k, c in enumerate(IN_COLS) if c not in ("id", "uuid")}
    pl["uuid"] = ("s", b"W-uuid")
    L = ["#mode tableapi", "tt.create " + schema,
         "tt.sql " + hexsql("UPDATE Information SET " + ", ".join("%s = %s" % (c, sql_lit(v)) for c, v in pl.items())),
         "inf.get", "inf.raw", "inf.setcpi 424242", "inf.raw"]
    H = run(L)
    if any(not h.startswith(("ok", "skip")) for h in H):
        return L, H, [("probe-error", "information probe", str(list(zip(L, H))[:4]))]
    got = T.split_row(IN_FIELDS, H[3][3:])
    pl["id"] = ("i", 1)
    obs = {}
    for f, ty in IN_FIELDS:
        hits = [c for c in pl if shown(ty, pl[c]) == got[f]]
        obs[f] = hits[0] if len(hits) == 1 else ("-" if not hits else "?" + ",".join(hits))
    a, b = parse_rows(H[4])[0], parse_rows(H[6])[0]
    changed = sorted(c for c in a if a[c] != b[c])
    out = compare("information", schema, [
        ("SELECT", sorted("%s:%s" % (f, c) for f, c in obs.items() if c != "-"), parse_pairs(model("c18.spec info")),
         parse_pairs(model("c18.bind info sel")))])
    if changed != ["currentPlayedIndiciator"] or b.get("currentPlayedIndiciator") != "i424242":
        out.append(("probe", "information update_current_played_indicator (%s)" % schema,
                    "columns changed by the call: %s" % changed))
    gen = model("c18.bind info setcpi")
    if gen != "ok " + (changed[0] if len(changed) == 1 else "?"):
        out.append(("translator", "information update_current_played_indicator (%s)" % schema,
                    "Gen/Bindings.lean names %s, the real library changed %s" % (gen, changed)))
    return L, H, out


PROBES = {"track": probe_track, "playlist": probe_playlist, "entity": probe_entity, "info": probe_info}


class Model:
    """Answers `c18.spec` / `c18.bind` queries from the compiled driver (batched)."""

    def __init__(self):
        self.cache = {}

    def prefetch(self, schemas):
        qs = []
        for s in schemas:
            qs += ["c18.spec track " + s] + ["c18.bind track %s %s" % (w, s) for w in ("ins", "upd", "sel", "getters", "setters")]
        qs += ["c18.spec playlist", "c18.spec entity", "c18.spec info", "c18.bind playlist ins", "c18.bind playlist updsimple",
               "c18.bind playlist updfull", "c18.bind playlist sel", "c18.bind entity ins", "c18.bind entity sel",
               "c18.bind entity sel3", "c18.bind entity sellist", "c18.bind entity removewhere", "c18.bind info sel",
               "c18.bind info setcpi"]
        out = runner.run_model_script(["#mode tableapi"] + qs)
        for q, o in zip(qs, out[1:]):
            self.cache[q] = o

    def __call__(self, q):
        if q not in self.cache:
            self.cache[q] = runner.run_model_script(["#mode tableapi", q])[1]
        return self.cache[q]


def run_all(schemas, list_schemas=None):
    """-> (violations, divergences, histogram).  Track on every schema of `schemas`; the list tables and
    Information (identical statements in all versions) on `list_schemas` (default: first and last)."""
    from concurrent.futures import ThreadPoolExecutor
    m = Model()
    m.prefetch(schemas)
    jobs = [("track", s) for s in schemas]
    for s in (list_schemas or [schemas[0], schemas[-1]]):
        jobs += [("playlist", s), ("entity", s), ("info", s)]
    with ThreadPoolExecutor(NCPU) as ex:
        res = list(ex.map(lambda ts: (ts, PROBES[ts[0]](ts[1], m)), jobs))
    violations, divergences, hist = [], [], {"probes": len(jobs), "commands": 0, "findings": {}}
    for (table, schema), (L, H, findings) in res:
        hist["commands"] += len(L)
        for kind, stmt, detail in findings:
            hist["findings"][kind] = hist["findings"].get(kind, 0) + 1
            if kind == "probe":
                violations.append({"tag": "probe", "signature": {"table": table, "kind": "binding-probe", "statement": stmt},
                                   "header": {"kind": "probe", "what": "%s: %s" % (stmt, detail[:300])},
                                   "body": ["#probe %s %s" % (table, schema)] + L[1:] +
                                           ["oracle (binding probe, %s): %s" % (stmt, detail)]})
            else:
                divergences.append({"input": "binding cross-check: " + stmt, "impl": detail[:600], "model": kind})
    return violations, divergences, hist


def replay(table, schema):
    m = Model()
    L, H, findings = PROBES[table](schema, m)
    out = ["probe %s on %s: %d commands" % (table, schema, len(L))]
    for kind, stmt, detail in findings:
        out.append("%s: %s: %s" % (kind.upper(), stmt, detail))
    return not findings, "\n".join(out)
