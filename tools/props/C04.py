"""C04 — Re-encoding a decoded foreign blob preserves every byte."""
import random, struct, zlib
from common import *
import runner
from props import _codecs as cd

ID = "C04"
LEAN_MODULES = ["Properties.C04"]
THEOREMS = ["EngineModel.Properties.C04." + t for t in [
    "C04_v2_track_reencode", "C04_v2_beat_reencode", "C04_v2_ovw_reencode", "C04_v2_loops_reencode",
    "C04_v2_cues_reencode", "C04_normBool_one_byte", "C04_normBool_id",
    "C04_setter_frame_hot_cue_at", "C04_setter_frame_loop_at", "C04_setter_frame_main_cue",
    "C04_setter_frame_hot_cues", "C04_setter_frame_average_loudness", "C04_setter_frame_key",
    "C04_setter_frame_sample_count", "C04_setter_frame_sample_rate", "C04_setter_frame_beatgrid",
    "C04_setter_frame_loops", "C04_setter_frame_waveform", "C04_setter_frame_column_setters",
    "C04_stored_payloads", "C04_written_payloads", "C04_setter_untouched_columns", "C04_column_only_setters",
    "C04_column_only_setters_bytes", "C04_fixed_field_setters_bytes", "C04_slot_setters_bytes",
]]
ASSUMPTIONS = [
    "payload level: compressed bytes are not compared (the harness recovers the payload of the re-encoded blob with "
    "zlib's own uncompress)",
    "track.update(snapshot) rebuilds all blobs by design and is out of scope",
    "the setter-frame theorems are about applySetter of the 2.x track lens model (EngineModel/TracksV2/Lens.lean, owned "
    "by the tracks-v2 package; its agreement with track_impl is the C06 tie) related to stored bytes through the Spec "
    "encoders; the setter-frame stream checks the real library directly (planted foreign blobs, raw read-back)",
]
MANIFEST = dict(
    text="Lean theorems for the five 2.x codecs and every byte string: if the Model decoder accepts b as (v, extra) then "
         "the Model encoder returns exactly b for (v, extra) — for quick cues exactly normBool b, which is proved to "
         "differ from b in the single is_main_cue_adjusted byte (non-zero -> 1) and to be the identity when that byte "
         "is 0 or 1. Derived from the generic byte-preservation law of the codec combinators and the Impl=Spec agreement "
         "theorems. Tie: foreign payloads (arbitrary counts, flag values, unknown fields, trailing bytes), boundary "
         "payloads and mutated valid payloads go through the real from_blob -> to_blob (sanitizer build) and through "
         "the Model; outputs must be equal, and the direct oracle compares the library's re-encoded payload with the "
         "input byte for byte (modulo the one flag byte, located by an independent parser). Setter frame: for each of "
         "the eleven read-modify-write setters of the 2.x track (hot_cue_at, loop_at, main_cue, hot_cues, "
         "average_loudness, key, sample_count, sample_rate, beatgrid, loops, waveform) a theorem over the 2.x track lens model states "
         "that every other BLOB column's payload is byte-identical and that in the named column only the byte range of "
         "the named field differs (slot setters: pre ++ entry ++ post with the same pre/post; scalar fields: "
         "AgreeOutside a b); tied by planting foreign blobs (0..12 entries, labelled/coloured empty slots, odd flags, "
         "trailing bytes) into the five BLOB columns of real 2.x tracks through the raw connection, calling every "
         "setter through the public API and reading the columns back raw (independent inflate + Spec decode). The frame "
         "theorems are also stated about STORED BYTES (decode the five stored payloads, apply the setter, encode: the "
         "stored payloads agree outside the named field; quick cues up to normBool), every column a setter does not name "
         "is proved untouched for all 26 setters, and the fifteen column-only setters change none of the five.",
    note="set_loops / set_waveform used to rebuild their column and drop foreign extra_data (former known finding, repaired "
         "by fix: bee2c23; now frame theorems C04_setter_frame_loops / _waveform). Compressed bytes are never compared.",
    technique="Lean 4 theorems (generic Exact law of codec combinators) + byte-exact differential run on foreign blobs",
    ref="6/C04")
TRUSTED_EXTRA = []


# model regenerated from the C++ sources + its equality with the hand model (see props/_implgen.py)
from props import _implgen
LEAN_MODULES = LEAN_MODULES + _implgen.MODULES_FOR[ID]
THEOREMS = THEOREMS + _implgen.THEOREMS_FOR[ID]
ASSUMPTIONS = ASSUMPTIONS + _implgen.ASSUMPTIONS
TRUSTED_EXTRA = list(globals().get("TRUSTED_EXTRA", [])) + _implgen.TRUSTED_EXTRA
TRANSLATORS = dict(globals().get("TRANSLATORS", {}), **_implgen.TRANSLATORS)


def cues_flag_offset(p):
    """offset of the is_main_cue_adjusted byte in a 2.x quick-cues payload, or None"""
    if len(p) < 25:
        return None
    n = struct.unpack(">q", p[:8])[0]
    if n < 0 or n > len(p):
        return None
    i = 8
    for _ in range(n):
        if i >= len(p):
            return None
        i += 1 + p[i] + 12
    if i + 17 > len(p):
        return None
    return i + 8


def norm_bool(kind, p):
    if kind != "v2.cues":
        return p
    o = cues_flag_offset(p)
    if o is None:
        return p
    b = bytearray(p)
    b[o] = 1 if b[o] else 0
    return bytes(b)


def gen_payloads(rng, tier, hist):
    g = cd.Gen(rng, hist)
    vals = []
    per = 40 if tier == "quick" else 1200
    for k in cd.KINDS_V2:
        n, tries = per, 0
        while n > 0 and tries < per * 20:
            tries += 1
            v = g.value(k)
            if cd.format_can_hold(k, v):
                vals.append((k, v))
                n -= 1
    enc_lines = ["enc %s %s" % (k, cd.enc_text(k, v)) for (k, v) in vals]
    mo = [o for outs in runner.run_model(runner.shard(enc_lines, NCPU)) for o in outs]
    items = []
    for (k, v), o in zip(vals, mo):
        t = o.split()
        if not t or t[0] != "ok":
            continue
        p = b"" if t[1] == "-" else bytes.fromhex(t[1])
        items.append((k, p, "foreign_spec"))
        # trailing / unknown data the library never writes
        items.append((k, p + bytes(rng.getrandbits(8) for _ in range(rng.choice([1, 2, 9, 40]))), "foreign_trailing"))
        if k == "v2.cues":
            o2 = cues_flag_offset(p)
            if o2 is not None:
                for f in (0, 1, 2, 0x80, 0xff, rng.randrange(2, 256)):
                    b = bytearray(p)
                    b[o2] = f
                    items.append((k, bytes(b), "foreign_flag"))
        if len(p) < 4000:
            for _ in range(4 if tier == "quick" else 12):
                items.append((k, cd.mutate(p, rng), "mutated"))
    for k in cd.KINDS_V2:
        for b in cd.boundary_payloads(k, rng):
            items.append((k, b, "boundary"))
    return items


# ------------------------------------------------------------------ setter frame on planted foreign blobs
COLS = ["trackData", "overviewWaveFormData", "beatData", "quickCues", "loops"]
COLKIND = {"trackData": "v2.track", "overviewWaveFormData": "v2.ovw", "beatData": "v2.beat", "quickCues": "v2.cues",
           "loops": "v2.loops"}
KNOWN_REBUILD_SIG = {"family": "v2", "setter": "set_loops/set_waveform",
                     "effect": "trailing extra_data of the rebuilt blob column is dropped"}
BLOB_SETTERS = ["hot_cue_at", "loop_at", "main_cue", "hot_cues", "average_loudness", "key", "sample_count",
                "sample_rate", "beatgrid"]
REBUILD_SETTERS = ["loops", "waveform"]


def _hx(t):
    return t.encode().hex()


READ = "rawq " + _hx("SELECT trackData, overviewWaveFormData, beatData, quickCues, loops FROM Track WHERE id = 1")


def _frame_blob(kind, payload):
    if kind == "v2.loops":
        return payload
    return struct.pack(">I", len(payload)) + zlib.compress(payload, 6)


def _unframe_blob(kind, blob):
    """independent reading of a stored column: None when it is not length + one complete zlib stream"""
    if kind == "v2.loops":
        return blob
    if len(blob) == 0:
        return b""
    if len(blob) < 4:
        return None
    n = struct.unpack(">I", blob[:4])[0]
    if n == 0:
        return b""
    try:
        d = zlib.decompressobj()
        out = d.decompress(blob[4:])
        if not d.eof or d.unused_data or len(out) != n:
            return None
        return out
    except zlib.error:
        return None


def _fields(kind, text):
    """canonical Spec-decoded text -> dict of named fields (lists for entries)"""
    t = text.split()
    if kind == "v2.track":
        return dict(zip(["sr", "samples", "key", "lo", "mid", "hi", "extra"], t))
    if kind == "v2.ovw":
        return dict(zip(["spp", "pts", "mx", "extra"], t))
    if kind == "v2.beat":
        d = {"sr": t[0], "samples": t[1], "flag": t[2]}
        i = 3
        for g in ("dflt", "adj"):
            n = int(t[i]); i += 1
            d[g] = [" ".join(t[i + 4 * k:i + 4 * k + 4]) for k in range(n)]
            i += 4 * n
        d["extra"] = t[i]
        return d
    if kind == "v2.cues":
        n = int(t[0])
        d = {"entries": [" ".join(t[1 + 6 * k:7 + 6 * k]) for k in range(n)]}
        i = 1 + 6 * n
        d.update(adj=t[i], flag=t[i + 1], dflt=t[i + 2], extra=t[i + 3])
        return d
    if kind == "v2.loops":
        n = int(t[0])
        d = {"entries": [" ".join(t[1 + 9 * k:10 + 9 * k]) for k in range(n)]}
        d["extra"] = t[1 + 9 * n]
        return d
    raise KeyError(kind)


def _allowed(field, value):
    """column -> what the setter may change there: set of field names, or ('entry', i)"""
    if field == "average_loudness": return {"trackData": {"lo", "mid", "hi"}}
    if field == "key": return {"trackData": {"key"}}
    if field == "sample_count": return {"trackData": {"samples"}, "beatData": {"samples"}}
    if field == "sample_rate": return {"trackData": {"sr"}, "beatData": {"sr"}}
    if field == "main_cue": return {"quickCues": {"adj", "flag", "dflt"}}
    if field == "hot_cues": return {"quickCues": {"entries"}}
    if field == "beatgrid": return {"beatData": {"flag", "dflt", "adj"}}
    if field == "hot_cue_at": return {"quickCues": ("entry", int(value.split()[0]))}
    if field == "loop_at": return {"loops": ("entry", int(value.split()[0]))}
    if field == "loops": return {"loops": {"entries"}}
    if field == "waveform": return {"overviewWaveFormData": {"spp", "pts", "mx"}}
    return {}


def _frame_breach(col, allowed, old, new):
    """None when `new` differs from `old` only where `allowed` permits; else a description"""
    kind = COLKIND[col]
    bad = []
    if isinstance(allowed, tuple):
        i = allowed[1]
        a, b = old["entries"], new["entries"]
        if len(a) != len(b):
            bad.append("entry count %d -> %d" % (len(a), len(b)))
        else:
            bad += ["entry %d" % k for k in range(len(a)) if k != i and a[k] != b[k]]
        bad += [f for f in old if f != "entries" and old[f] != new[f]]
    else:
        bad += [f for f in old if f not in allowed and old[f] != new.get(f)]
    return ", ".join(bad) if bad else None


def gen_foreign_blobs(rng, tier, hist, n):
    """n sets of five foreign payloads (Spec-encoded, never shapes the library writes)"""
    from props.parts import _tracksv2_gen as G
    g = cd.Gen(rng, hist)
    sets, enc = [], []
    for _ in range(n):
        vals = {}
        vals["trackData"] = dict(sr=cd.dbits(rng.choice([44100.0, 48000.0, 96000.0])), samples=rng.randrange(1, 10 ** 9),
                                 key=g.i32(), lo=g.f(), mid=g.f(), hi=g.f(), extra=g.extra())
        vals["overviewWaveFormData"] = g.v2_ovw()
        vals["beatData"] = g.v2_beat()
        ncue = rng.choice([0, 1, 3, 7, 8, 8, 8, 9, 12])
        cues = []
        for _ in range(ncue):
            if rng.random() < 0.45:      # an "empty" slot (offset -1) that still carries a label and/or a colour
                cues.append((g.label(rng.choice([0, 0, 3, 17])), cd.NEG1, rng.choice([(0, 0, 0, 0), g.color()])))
            else:
                cues.append((g.label(rng.choice([0, 1, 5, 255])), g.f(), g.color()))
        vals["quickCues"] = dict(cues=cues, adj=g.f(), flag=rng.choice([0, 1, 1, 2, 255]), dflt=g.f(), extra=g.extra())
        nl = rng.choice([0, 1, 3, 7, 8, 8, 8, 9, 12])
        loops = []
        for _ in range(nl):
            if rng.random() < 0.45:
                loops.append((g.label(rng.choice([0, 0, 3, 17])), cd.NEG1, cd.NEG1, rng.choice([0, 0, 1, 7]),
                              rng.choice([0, 0, 1]), rng.choice([(0, 0, 0, 0), g.color()])))
            else:
                loops.append((g.label(rng.choice([0, 1, 5, 255])), g.f(), g.f(), g.u8(), g.u8(), g.color()))
        vals["loops"] = dict(loops=loops, extra=g.extra())
        sets.append(vals)
        enc += ["senc %s %s" % (COLKIND[c], cd.enc_text(COLKIND[c], vals[c])) for c in COLS]
    mo = [o for outs in runner.run_model(runner.shard(enc, NCPU)) for o in outs]
    out = []
    for i in range(n):
        pay = {}
        for j, c in enumerate(COLS):
            t = mo[5 * i + j].split()
            pay[c] = (b"" if len(t) < 2 or t[1] == "-" else bytes.fromhex(t[1])) if t and t[0] == "ok" else None
        if all(v is not None for v in pay.values()):
            out.append(pay)
    return out


def gen_setter_step(rng, tier, uniq, ncue, nloop):
    from props.parts import _tracksv2_gen as G
    c = rng.random()
    want = rng.choice(BLOB_SETTERS) if c < 0.72 else (rng.choice(REBUILD_SETTERS) if c < 0.8 else None)
    for _ in range(400):
        f, v = G.gen_setter(rng, tier, uniq)
        if want is None and f not in BLOB_SETTERS and f not in REBUILD_SETTERS and f != "relative_path":
            return f, v
        if f == want:
            if f in ("hot_cue_at", "loop_at") and rng.random() < 0.8:
                n = ncue if f == "hot_cue_at" else nloop
                if n:
                    v = "%d %s" % (rng.randrange(n), v.split(" ", 1)[1])
            return f, v
    return "title", "none"


def setter_frame_stream(ctx, rng, hist, divergences, violations):
    """Foreign blobs planted in the five BLOB columns of a 2.x track through the raw connection; every
    single-field setter is then called through the public API and the columns are read back raw.  Oracle:
    each column still is length + one complete zlib stream, every column the setter does not name has the
    identical payload, and in the named column(s) the Spec decoder sees a change only in the named field(s)."""
    from props.parts import _tracksv2_gen as G
    nscripts = 10 if ctx.tier == "quick" else 120
    nsteps = 14 if ctx.tier == "quick" else 30
    blobs_all = gen_foreign_blobs(rng, ctx.tier, hist, 2 * nscripts)
    blobs, blobs2 = blobs_all[:len(blobs_all) // 2], blobs_all[len(blobs_all) // 2:]
    scripts, meta = [], []
    for k, pay in enumerate(blobs):
        schema = G.SCHEMAS[(ctx.seed + k) % len(G.SCHEMAS)] if ctx.tier == "quick" else G.SCHEMAS[k % len(G.SCHEMAS)]
        snap = G.gen_snapshot(rng, ctx.tier, 7000 + k, valid_bias=1.0)
        snap["relative_path"] = b"frame/t%d.mp3" % k
        G.storable_waveform(snap)
        if isinstance(snap.get("sample_rate"), str) and snap.get("waveform"):
            snap["sample_rate"] = 44100.0
        sets = ", ".join("%s = X'%s'" % (c, _frame_blob(COLKIND[c], pay[c]).hex()) for c in COLS)
        # the handle has already looked at its pad data when the foreign blobs arrive (another writer - Engine DJ
        # itself - rewrote the columns behind the handle's back), and a second foreign writer does so again half-way
        # through; on every other script two handle objects onto the track are used alternately (`+alias`).  A
        # setter must work on what is STORED, not on what its handle remembers (round 5, seeded C04-5).
        L = ["create %s mem%s" % (schema, " +alias" if k % 2 else ""), "mktrack ta " + G.fmt_snapshot(snap),
             "get ta hot_cues", "get ta loops", "get ta main_cue", "get ta hot_cue_at 0", "get ta loop_at 0",
             "rawx " + _hx("UPDATE Track SET %s WHERE id = 1" % sets), READ]
        steps = []
        ncue = struct.unpack(">q", pay["quickCues"][:8])[0]
        nloop = struct.unpack("<q", pay["loops"][:8])[0]
        for j in range(nsteps):
            if j == nsteps // 2 and k < len(blobs2):
                pay2 = blobs2[k]
                sets2 = ", ".join("%s = X'%s'" % (c, _frame_blob(COLKIND[c], pay2[c]).hex()) for c in COLS)
                L += ["rawx " + _hx("UPDATE Track SET %s WHERE id = 1" % sets2), READ]
                ncue = struct.unpack(">q", pay2["quickCues"][:8])[0]
                nloop = struct.unpack("<q", pay2["loops"][:8])[0]
            f, v = gen_setter_step(rng, ctx.tier, 7000 * 100 + k * 100 + j, ncue, nloop)
            steps.append((len(L), f, v))
            L += ["set ta %s %s" % (f, v), READ]
        scripts.append(L)
        meta.append(steps)
    n, d = judge_frames(scripts, meta, hist, violations)
    return n, d


def judge_frames(scripts, meta, hist, violations):
    """run the scripts on the real library and apply the frame oracle to every setter step"""
    res = runner.run_harness(scripts, stateless=False, watchdog=30)
    # collect the payloads of every read; Spec-decode the changed ones in one batch
    def parse_read(o):
        if not o.startswith("ok ("):
            return None
        body = o[4:].rstrip(")").split(",")
        if len(body) != 5:
            return None
        out = {}
        for c, x in zip(COLS, body):
            raw = bytes.fromhex(x[1:]) if x.startswith("b") and len(x) > 1 else (b"" if x in ("b", "b-") else None)
            out[c] = None if raw is None else _unframe_blob(COLKIND[c], raw)
        return out
    checks, sdec = [], []
    for si, (L, (outs, _)) in enumerate(zip(scripts, res)):
        if len(outs) < 4 or not outs[1].startswith("ok") or not outs[2].startswith("ok"):
            hist["frame:script_not_started"] = hist.get("frame:script_not_started", 0) + 1
            continue
        for (li, f, v) in meta[si]:
            if li + 1 >= len(outs) or L[li - 1] != READ:
                break
            # every setter line stands between two raw reads of the five columns
            prev, so, cur = parse_read(outs[li - 1]), outs[li], parse_read(outs[li + 1])
            replay = L[:li + 2]
            if so.startswith("ub") or so.startswith("skipped"):
                violations.append({"tag": "oracle", "signature": None,
                                   "header": {"kind": "script", "what": "setter crashed: " + so}, "body": replay})
                break
            if prev is None or cur is None:
                break
            hist["frame:setter:" + f] = hist.get("frame:setter:" + f, 0) + 1
            allowed = _allowed(f, v) if so.startswith("ok") else {}
            for c in COLS:
                if cur[c] is None:
                    violations.append({"tag": "oracle", "signature": None, "header": {
                        "kind": "script", "what": "after set_%s the %s column is no longer a length-prefixed complete "
                                                  "zlib stream" % (f, c)}, "body": replay})
                elif prev[c] is not None and cur[c] != prev[c]:
                    if c not in allowed:
                        violations.append({"tag": "oracle", "signature": None, "header": {
                            "kind": "script", "what": "set_%s changed the payload of column %s, which it does not name"
                                                      % (f, c)},
                            "body": replay + ["before: " + cd.hexb(prev[c])[:400], "after:  " + cd.hexb(cur[c])[:400]]})
                    else:
                        checks.append((si, li, f, v, c, allowed[c], prev[c], cur[c], replay))
                        sdec += ["sdec %s %s" % (COLKIND[c], cd.hexb(prev[c])), "sdec %s %s" % (COLKIND[c], cd.hexb(cur[c]))]
                        hist["frame:changed:" + c] = hist.get("frame:changed:" + c, 0) + 1
    mo = [o for outs in runner.run_model(runner.shard(sdec, NCPU)) for o in outs] if sdec else []
    distinct = set()
    for k, (si, li, f, v, c, al, old, new, replay) in enumerate(checks):
        a, b = mo[2 * k], mo[2 * k + 1]
        if not (a.startswith("ok") and b.startswith("ok")):
            violations.append({"tag": "oracle", "signature": None, "header": {
                "kind": "script", "what": "after set_%s the %s payload is rejected by the independent decoder" % (f, c)},
                "body": replay + ["after: " + cd.hexb(new)[:400], "spec: " + b[:100]]})
            continue
        br = _frame_breach(c, al, _fields(COLKIND[c], a[3:]), _fields(COLKIND[c], b[3:]))
        if br is None:
            distinct.add((si, li))
            continue
        sig = None      # (set_loops / set_waveform dropping `extra` was a known finding until fix: bee2c23)
        violations.append({"tag": "oracle", "signature": sig, "header": {
            "kind": "script", "what": "set_%s altered bytes of column %s outside the field it names: %s" % (f, c, br)},
            "body": replay + ["before: " + cd.hexb(old)[:600], "after:  " + cd.hexb(new)[:600]]})
    return sum(len(L) for L in scripts) + len(sdec), len(distinct)


def replay(ctx, hdr, body):
    """script replays (setter frame) run on the real library only and are judged by the frame oracle;
    byte-string replays run the recorded line on library and Model."""
    import re
    lines = [l for l in body if not re.match(r"^[A-Za-z_()0-9 ]{1,20}: ", l)]
    if hdr.get("kind") == "script":
        steps = []
        for i, l in enumerate(lines):
            t = l.split(" ", 3)
            if t[0] == "set" and 0 < i and i + 1 < len(lines) and lines[i + 1] == READ and lines[i - 1] == READ:
                steps.append((i, t[2], t[3] if len(t) > 3 else ""))
        viol, hist = [], {}
        judge_frames([lines], [steps], hist, viol)
        unknown = [v for v in viol if v["signature"] is None]
        txt = "\n".join(["%d setter steps judged on the working tree" % len(steps)] +
                        ["  %s" % v["header"]["what"] for v in viol] +
                        ["recorded verdict: %s" % hdr.get("what", "(none)")])
        return (not unknown), txt
    hout, _ = runner.run_harness_script(lines, stateless=True)
    mout = runner.run_model_script(lines)
    ok, out = True, []
    for l, h, m in zip(lines, hout, mout):
        good = h == m
        if l.startswith("reenc") and h.startswith("ok"):
            k, px = l.split()[1], l.split()[2]
            pb = b"" if px == "-" else bytes.fromhex(px)
            if l.startswith("reencz "):     # a stored blob: the payload is what the stream inflates to
                pb = zlib.decompress(pb[4:])
            t = h.split()
            got = b"" if len(t) < 2 or t[1] == "-" else (None if t[1] == "UNFRAMED" else bytes.fromhex(t[1]))
            good = good and got == norm_bool(k, pb)
        ok = ok and good
        out.append("%s\n   impl:  %s\n   model: %s%s" % (l[:300], h[:300], m[:300], "" if good else "   <-- violates"))
    out.append("recorded verdict: %s" % hdr.get("what", "(none)"))
    return ok, "\n".join(out)


def tie(ctx):
    rng = random.Random(ctx.seed * 49979687 + 4)
    hist = {}
    items = gen_payloads(rng, ctx.tier, hist)
    lines = ["reenc %s %s" % (k, cd.hexb(p)) for (k, p, _) in items]
    scripts = runner.shard(lines, NCPU)
    hout = [o for (outs, _) in runner.run_harness(scripts, stateless=True) for o in outs]
    mout = [o for outs in runner.run_model(scripts) for o in outs]
    divergences, violations = [], []
    st = {}
    distinct = set()
    accepted = {}
    for (k, p, stream), l, h, m in zip(items, lines, hout, mout):
        st[stream] = st.get(stream, 0) + 1
        if h != m:
            divergences.append({"input": l[:400], "impl": h[:200], "model": m[:200]})
        if h.startswith("ok"):
            t = h.split()
            got = b"" if len(t) < 2 or t[1] == "-" else (None if t[1] == "UNFRAMED" else bytes.fromhex(t[1]))
            want = norm_bool(k, p)
            accepted[k] = accepted.get(k, 0) + 1
            if got != want:
                violations.append({"tag": "oracle", "signature": None,
                                   "header": {"kind": "bytes",
                                              "what": "re-encoding an accepted blob changed its payload"},
                                   "body": [l, "impl: " + h[:600], "want: ok " + cd.hexb(want)[:600]]})
            elif stream != "foreign_spec" or k == "v2.cues":
                distinct.add(l)
        elif not h.startswith("throw"):
            violations.append({"tag": "oracle", "signature": None,
                               "header": {"kind": "bytes", "what": "from_blob/to_blob crashed: " + h},
                               "body": [l, "impl: " + h]})
    # stored blobs whose 4-byte length prefix disagrees with what their zlib stream inflates to (an inconsistent
    # foreign writer): whatever the decoder accepts must re-encode to the payload the STREAM holds, byte for byte
    # (round 5, seeded C04-4: output buffer sized from the prefix and never trimmed - spurious zero bytes landed in
    # extra_data and were written back)
    pref_items = []
    cand = [(k, p) for (k, p, stream), h in zip(items, hout) if k != "v2.loops" and h.startswith("ok") and len(p) > 0]
    rng.shuffle(cand)
    for (k, p) in cand[:(50 if ctx.tier == "quick" else 600)]:
        z = zlib.compress(p, rng.choice([1, 6, 9]))
        for d in rng.sample([1, 2, 6, 100, 16384, -1, -3, len(p), 0], 3):
            n = len(p) + d
            if 1 <= n < 2 ** 24:
                pref_items.append((k, p, struct.pack(">I", n) + z, d))
    plines = ["reencz %s %s" % (k, cd.hexb(b)) for (k, p, b, d) in pref_items]
    if plines:
        psc = runner.shard(plines, NCPU)
        pho = [o for (outs, _) in runner.run_harness(psc, stateless=True) for o in outs]
        pmo = [o for outs in runner.run_model(psc) for o in outs]
        for (k, p, b, d), l, h, m in zip(pref_items, plines, pho, pmo):
            key = "prefix:" + ("exact" if d == 0 else "over" if d > 0 else "under")
            hist[key] = hist.get(key, 0) + 1
            if h != m:
                divergences.append({"input": l[:400], "impl": h[:200], "model": m[:200]})
            if h.startswith("ok"):
                t = h.split()
                got = b"" if len(t) < 2 or t[1] == "-" else (None if t[1] == "UNFRAMED" else bytes.fromhex(t[1]))
                hist[key + ":accepted"] = hist.get(key + ":accepted", 0) + 1
                if got != norm_bool(k, p):
                    violations.append({"tag": "oracle", "signature": None,
                                       "header": {"kind": "bytes",
                                                  "what": "re-encoding an accepted blob whose length prefix is off by %d "
                                                          "changed its payload" % d},
                                       "body": [l, "impl: " + h[:600], "want: ok " + cd.hexb(norm_bool(k, p))[:600]]})
                elif d != 0:
                    distinct.add(l)
            elif not h.startswith("throw"):
                violations.append({"tag": "oracle", "signature": None,
                                   "header": {"kind": "bytes", "what": "from_blob/to_blob crashed: " + h},
                                   "body": [l, "impl: " + h]})
    hist.update({"stream:" + k: v for k, v in st.items()})
    hist.update({"accepted:" + k: v for k, v in accepted.items()})
    fr_eval, fr_distinct = setter_frame_stream(ctx, random.Random(ctx.seed * 6700417 + 44), hist, divergences, violations)
    seen_sig, vout = set(), []
    for v in violations:
        key = repr(v["signature"])
        if v["signature"] is not None and key in seen_sig:
            continue
        seen_sig.add(key)
        vout.append(v)
    violations = vout
    unknown = [v for v in violations if v["signature"] is None]
    return {
        "ok": not divergences and not unknown,
        "evaluations": len(lines) + len(plines) + fr_eval,
        "distinct_nontrivial": len(distinct) + fr_distinct,
        "rule": "2.x payloads from the Spec/Model encoder with arbitrary entry counts (0..12), flag bytes (0..255), unknown "
                "int fields and extra_data, the same with trailing bytes appended, every flag value planted in quick "
                "cues, boundary payloads of every count field, and structurally mutated valid payloads; each goes "
                "through real from_blob -> to_blob and through the Model; non-trivial = accepted payload that the "
                "library itself would not have written (trailing data / foreign flag / mutated / boundary) re-encoded "
                "byte-identically. Setter frame: foreign payloads (0..12 entries, labelled / coloured empty slots, flag "
                "bytes 0/1/2/255, unknown fields, trailing bytes) planted in the five BLOB columns of a 2.x track "
                "through the raw connection; every track setter called through the public API; columns read back raw "
                "and inflated independently; non-named columns must be byte-identical, named columns may differ only "
                "in the named field as seen by the Spec decoder; non-trivial = setter call that changed a column and "
                "passed",
        "samples": [lines[0][:200], lines[len(lines) // 2][:200], lines[-1][:200]],
        "histograms": hist,
        "divergences": divergences[:20],
        "violations": violations[:8],
    }
