"""C04 — Re-encoding a decoded foreign blob preserves every byte."""
import random, struct
from common import *
import runner
from props import _codecs as cd

ID = "C04"
LEAN_MODULES = ["Properties.C04"]
THEOREMS = ["EngineModel.Properties.C04." + t for t in [
    "C04_v2_track_reencode", "C04_v2_beat_reencode", "C04_v2_ovw_reencode", "C04_v2_loops_reencode",
    "C04_v2_cues_reencode", "C04_normBool_one_byte", "C04_normBool_id",
]]
ASSUMPTIONS = [
    "payload level: compressed bytes are not compared (the harness recovers the payload of the re-encoded blob with "
    "zlib's own uncompress)",
    "track.update(snapshot) rebuilds all blobs by design and is out of scope; the read-modify-write setters of "
    "track_impl.cpp are covered by the tie only in so far as they go through from_blob/to_blob (no separate frame theorem)",
]
MANIFEST = dict(
    text="Lean theorems for the five 2.x codecs and every byte string: if the Model decoder accepts b as (v, extra) then "
         "the Model encoder returns exactly b for (v, extra) — for quick cues exactly normBool b, which is proved to "
         "differ from b in the single is_main_cue_adjusted byte (non-zero -> 1) and to be the identity when that byte "
         "is 0 or 1. Derived from the generic byte-preservation law of the codec combinators and the Impl=Spec agreement "
         "theorems. Tie: foreign payloads (arbitrary counts, flag values, unknown fields, trailing bytes), boundary "
         "payloads and mutated valid payloads go through the real from_blob -> to_blob (sanitizer build) and through "
         "the Model; outputs must be equal, and the direct oracle compares the library's re-encoded payload with the "
         "input byte for byte (modulo the one flag byte, located by an independent parser).",
    note="Setter frame (set_* on planted BLOB columns) is not a theorem here; the re-encode law it rests on is.",
    technique="Lean 4 theorems (generic Exact law of codec combinators) + byte-exact differential run on foreign blobs",
    ref="6/C04")
TRUSTED_EXTRA = []


def cues_flag_offset(p):
    """offset of the is_main_cue_adjusted byte in a 2.x quick-cues payload, or None"""
    if len(p) < 25:
        return None
    n = struct.unpack(">q", p[:8])[0]
    if n < 0 or n > len(p):
        return None
    i = 8
    for _ in range(n):
        if i >= len(p):
            return None
        i += 1 + p[i] + 12
    if i + 17 > len(p):
        return None
    return i + 8


def norm_bool(kind, p):
    if kind != "v2.cues":
        return p
    o = cues_flag_offset(p)
    if o is None:
        return p
    b = bytearray(p)
    b[o] = 1 if b[o] else 0
    return bytes(b)


def gen_payloads(rng, tier, hist):
    g = cd.Gen(rng, hist)
    vals = []
    per = 40 if tier == "quick" else 1200
    for k in cd.KINDS_V2:
        n, tries = per, 0
        while n > 0 and tries < per * 20:
            tries += 1
            v = g.value(k)
            if cd.format_can_hold(k, v):
                vals.append((k, v))
                n -= 1
    enc_lines = ["enc %s %s" % (k, cd.enc_text(k, v)) for (k, v) in vals]
    mo = [o for outs in runner.run_model(runner.shard(enc_lines, NCPU)) for o in outs]
    items = []
    for (k, v), o in zip(vals, mo):
        t = o.split()
        if not t or t[0] != "ok":
            continue
        p = b"" if t[1] == "-" else bytes.fromhex(t[1])
        items.append((k, p, "foreign_spec"))
        # trailing / unknown data the library never writes
        items.append((k, p + bytes(rng.getrandbits(8) for _ in range(rng.choice([1, 2, 9, 40]))), "foreign_trailing"))
        if k == "v2.cues":
            o2 = cues_flag_offset(p)
            if o2 is not None:
                for f in (0, 1, 2, 0x80, 0xff, rng.randrange(2, 256)):
                    b = bytearray(p)
                    b[o2] = f
                    items.append((k, bytes(b), "foreign_flag"))
        if len(p) < 4000:
            for _ in range(4 if tier == "quick" else 12):
                items.append((k, cd.mutate(p, rng), "mutated"))
    for k in cd.KINDS_V2:
        for b in cd.boundary_payloads(k, rng):
            items.append((k, b, "boundary"))
    return items


def tie(ctx):
    rng = random.Random(ctx.seed * 49979687 + 4)
    hist = {}
    items = gen_payloads(rng, ctx.tier, hist)
    lines = ["reenc %s %s" % (k, cd.hexb(p)) for (k, p, _) in items]
    scripts = runner.shard(lines, NCPU)
    hout = [o for (outs, _) in runner.run_harness(scripts, stateless=True) for o in outs]
    mout = [o for outs in runner.run_model(scripts) for o in outs]
    divergences, violations = [], []
    st = {}
    distinct = set()
    accepted = {}
    for (k, p, stream), l, h, m in zip(items, lines, hout, mout):
        st[stream] = st.get(stream, 0) + 1
        if h != m:
            divergences.append({"input": l[:400], "impl": h[:200], "model": m[:200]})
        if h.startswith("ok"):
            t = h.split()
            got = b"" if len(t) < 2 or t[1] == "-" else (None if t[1] == "UNFRAMED" else bytes.fromhex(t[1]))
            want = norm_bool(k, p)
            accepted[k] = accepted.get(k, 0) + 1
            if got != want:
                violations.append({"tag": "oracle", "signature": None,
                                   "header": {"kind": "bytes",
                                              "what": "re-encoding an accepted blob changed its payload"},
                                   "body": [l, "impl: " + h[:600], "want: ok " + cd.hexb(want)[:600]]})
            elif stream != "foreign_spec" or k == "v2.cues":
                distinct.add(l)
        elif not h.startswith("throw"):
            violations.append({"tag": "oracle", "signature": None,
                               "header": {"kind": "bytes", "what": "from_blob/to_blob crashed: " + h},
                               "body": [l, "impl: " + h]})
    hist.update({"stream:" + k: v for k, v in st.items()})
    hist.update({"accepted:" + k: v for k, v in accepted.items()})
    return {
        "ok": not divergences and not violations,
        "evaluations": len(lines),
        "distinct_nontrivial": len(distinct),
        "rule": "2.x payloads from the Spec/Model encoder with arbitrary entry counts (0..12), flag bytes (0..255), unknown "
                "int fields and extra_data, the same with trailing bytes appended, every flag value planted in quick "
                "cues, boundary payloads of every count field, and structurally mutated valid payloads; each goes "
                "through real from_blob -> to_blob and through the Model; non-trivial = accepted payload that the "
                "library itself would not have written (trailing data / foreign flag / mutated / boundary) re-encoded "
                "byte-identically",
        "samples": [lines[0][:200], lines[len(lines) // 2][:200], lines[-1][:200]],
        "histograms": hist,
        "divergences": divergences[:20],
        "violations": violations[:8],
    }
