"""Additional parts for a plugin that is NOT assembled by _combine.install (C10, C16 ...): the plugin keeps its own
THEOREMS / tie / replay; `extend(globals(), [part names])`, called at the very end of the plugin module, folds the
parts in exactly the way _combine.install folds its parts (a part = tools/props/parts/<name>.py with THEOREMS,
LEAN_MODULES, ASSUMPTIONS, tie(ctx), optionally TRUSTED_EXTRA / TRANSLATORS / MANIFEST_TEXT / replay).
A part whose module does not exist (not merged yet) is skipped and named in EXTRA_PARTS_MISSING."""
from props import _combine


def extend(ns, part_names):
    parts, missing = _combine.load_parts(part_names)
    ns["EXTRA_PARTS"] = [p.__name__.split(".")[-1] for p in parts]
    ns["EXTRA_PARTS_MISSING"] = missing
    if not parts:
        return
    ns["THEOREMS"] = list(ns.get("THEOREMS", [])) + [t for p in parts for t in p.THEOREMS]
    mods = list(ns.get("LEAN_MODULES", []))
    for p in parts:
        for m in p.LEAN_MODULES:
            if m not in mods and _combine._module_exists(m):
                mods.append(m)
    ns["LEAN_MODULES"] = mods
    ns["ASSUMPTIONS"] = list(ns.get("ASSUMPTIONS", [])) + [a for p in parts for a in getattr(p, "ASSUMPTIONS", [])]
    ns["TRUSTED_EXTRA"] = list(ns.get("TRUSTED_EXTRA", [])) + [a for p in parts for a in getattr(p, "TRUSTED_EXTRA", [])]
    tr = dict(ns.get("TRANSLATORS", {}) or {})
    for p in parts:
        tr.update(getattr(p, "TRANSLATORS", {}))
    if tr:
        ns["TRANSLATORS"] = tr
    extra = " ".join(getattr(p, "MANIFEST_TEXT", "") for p in parts).strip()
    if extra and isinstance(ns.get("MANIFEST"), dict):
        m = dict(ns["MANIFEST"])
        m["text"] = (m.get("text", "") + " " + extra).strip()
        ns["MANIFEST"] = m

    base_tie = ns.get("tie")

    def tie(ctx):
        out = base_tie(ctx) if base_tie else {"ok": True, "evaluations": 0, "distinct_nontrivial": 0, "rule": "",
                                              "samples": [], "histograms": {}, "divergences": [], "violations": []}
        out.setdefault("histograms", {})
        out.setdefault("divergences", [])
        out.setdefault("violations", [])
        out.setdefault("samples", [])
        for p in parts:
            name = p.__name__.split(".")[-1]
            r = p.tie(ctx)
            out["ok"] = bool(out.get("ok")) and bool(r.get("ok"))
            out["evaluations"] = int(out.get("evaluations", 0)) + int(r.get("evaluations", 0))
            out["distinct_nontrivial"] = int(out.get("distinct_nontrivial", 0)) + int(r.get("distinct_nontrivial", 0))
            out["rule"] = (out.get("rule", "") + "  [%s] %s" % (name, r.get("rule", ""))).strip()
            out["samples"] = list(out["samples"]) + r.get("samples", [])[:4]
            out["histograms"][name] = r.get("histograms", {})
            out["divergences"] = list(out["divergences"]) + r.get("divergences", [])
            out["violations"] = list(out["violations"]) + r.get("violations", [])
            for k in ("exhaustive", "self_test", "extra", "crash"):
                if k in r:
                    out.setdefault("extra", {})
                    if isinstance(out["extra"], dict):
                        out["extra"]["%s.%s" % (name, k)] = r[k]
        return out
    ns["tie"] = tie

    base_replay = ns.get("replay")

    def replay(ctx, hdr, body):
        for p in parts:
            if hasattr(p, "replay"):
                r = p.replay(ctx, hdr, body)
                if r is not None:
                    return r
        if base_replay:
            return base_replay(ctx, hdr, body)
        return None
    ns["replay"] = replay
