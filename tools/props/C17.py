"""C17 — verify() reports every structural deviation from the schema.

Decision (DESIGN.md 6/C17): the per-version quantifier is finite up to names.  For a schema version
  * the REAL code creates the library; the harness reads its DDL statements and its structural catalog
    (tables / views by name, PRAGMA table_info, index_list, index_info) through the SQLite C API;
  * this plugin enumerates EVERY single-element mutation of that catalog (drop / add / rename each table,
    view, column, index — new names first, between and last in sort order; each column's type,
    nullability, default, primary-key membership; each index's uniqueness and column list), renders the
    mutated DDL (the affected CREATE TABLE / CREATE INDEX is regenerated from the catalog; an unmutated
    regeneration of every table is checked to reproduce the created catalog exactly);
  * the harness rebuilds an empty library from the mutated DDL, runs the real verify() (public:
    load_database + database::verify(); internal: make_schema_creator_validator(v)->verify on the
    library's own kind of connection) and reads the rebuilt catalog back with the independent reader;
  * Lean decides the expected verdict on the catalog actually read back: `verifyDb (expOf created) rebuilt`
    (Spec/Validator.lean, the model of a complete validator; `walk_complete`, `C17_complete_validator_rejects`),
    cross-checked against `sameCat` and the order-free `deviatesPlain`; for mutants that are exactly one
    Lean `Mutation` the driver also checks `apply m created` = the catalog read back (`pure=`).
  Oracle: rebuilt catalog deviates  <=>  verify() throws database_inconsistency.  A mutant the real
  verify() accepts is a violation (replay = the mutated DDL); a mutant SQLite normalises away (rebuilt
  catalog equal to the created one) must pass.  The unmutated created (temporary, on-disk, rebuilt) and
  all reference libraries must pass.
"""
import binascii, glob, hashlib, json, random, re, sys, time
from common import *
import runner

ID = "C17"
LEAN_MODULES = ["Properties.C17", "Properties.C17Tables"]
THEOREMS = ["EngineModel.Properties.C17." + t for t in [
    "walk_complete", "walk_open", "walk_mono",
    "verifyDb_iff", "verifyDb_expOf_iff", "expOf_closed", "sameCat_refl", "verifyDb_expOf_self",
    "mutation_deviates", "mutation_changes", "C17_complete_validator_rejects",
    "C17_closed_tables_unique", "C17_closed_tables_complete",
    "open_block_counterexample", "uncovered_index_counterexample", "sameCat_iff_plain"]] + [
    "EngineModel.Properties.C17Tables." + t for t in ["tables_closed", "C17_tables_complete", "C17_tables_unique", "C17_library_complete"]]
ASSUMPTIONS = [
    "what verify() can look at is the structural catalog: sqlite_master names of tables and views, PRAGMA table_info "
    "of tables, PRAGMA index_list / index_info; SQLite's answers to these are trusted (read through the C API by "
    "harness/djv_verify.cpp, independently of the library's wrappers)",
    "triggers, view bodies (hence the columns of views), column order, foreign keys, CHECK constraints and the shape of "
    "SQLite's own tables (sqlite_sequence) are outside the property text and are not mutated",
    "a mutant is judged on the catalog actually read back from the rebuilt library, not on the intended edit: a mutation "
    "that SQLite normalises away is no deviation; a mutation with side effects (an index disappearing with its column) is "
    "a deviation all the same",
    "the completeness theorems are about the generic walk and a CLOSED expectation table (expOf); that each version's "
    "hand-written tables are closed and describe the created catalog is what the exhaustive enumeration decides",
]
MANIFEST = dict(
    text="Theorems over the Lean model of schema_validate_utils.hpp (std::set by key = toSet, validate/++iter/validate_no_more = walk): "
         "walk_complete (a block closed by validate_no_more accepts exactly its expectation list; walk_open: without it any extension), "
         "verifyDb_iff, mutation_deviates (each of the 12 single-element mutation kinds - drop/add/rename table, view; drop/add/replace "
         "column incl. type, nullability, default, pk; drop/add/replace index incl. uniqueness and column list - changes the catalog's "
         "structure), C17_closed_tables_unique / C17_closed_tables_complete: ANY closed expectation table (all blocks terminated, every "
         "listed table and index described) that accepts a well-formed catalog rejects every applicable single-element mutation of it; "
         "counterexamples for an open block and an uninspected index. The hand-written tables of every version are extracted from "
         "schema_*.cpp on every run (tools/tr_validators.py: regex translator with virtual dispatch resolved, fails closed) into "
         "Gen/ValidatorTables.lean; tables_closed (decide +kernel) + C17_tables_complete: the real tables of all versions reject every "
         "single-element mutation of any well-formed catalog they accept (C17_library_complete lifts this to the music + perfdata pair of "
         "1.x). The catalogs the real creators create and the 57 reference catalogs are emitted as Lean data every run "
         "(Gen/CatalogFacts.lean) and Properties/C17Facts.lean closes by decide +kernel: created_accepted / references_accepted (each "
         "version's tables accept its created catalog and every reference catalog of the version; all well formed), hence "
         "C17_created_complete: for every version and database file, the version's own tables reject every applicable single-element "
         "mutation of the catalog its creator creates, and C17_references_structure (rebuilt by lake only when the facts changed; "
         "kernel_facts.status = skipped beyond the tier's budget). The Lean model of the real validator must also agree with the real "
         "verify() on every mutant. "
         "Decision on the real code: every single-element mutation of the created catalog "
         "(about 1000-1250 per version; all 18 versions in thorough tier, 3 complete + a stratified sample of the rest in quick tier) is "
         "rebuilt from mutated DDL and the real verify() must throw database_inconsistency exactly when the catalog read back deviates "
         "(decided by the Lean model); created, rebuilt-unmutated and all 57 reference libraries must pass.",
    note="Trusted: Lean kernel; SQLite's PRAGMAs; harness/djv_verify.cpp; the DDL regenerator of the plugin (self-checked each run). "
         "The theorems cover the expectation tables as extracted (translator trusted, checked differentially on every mutant) and the generic "
         "walk; SQLite's PRAGMA semantics and the std::set wrappers are modelled. Triggers, "
         "view bodies, column order and SQLite's own tables are outside the property.",
    technique="Lean 4 theorems over a model of the generic validator + exhaustive single-element mutation of the created catalog "
              "against the real verify(), verdict decided by the Lean model on the catalog read back",
    ref="6/C17")
TRUSTED_EXTRA = ["harness/djv_verify.cpp (rebuild from DDL, structural catalog reader) and the DDL regenerator of tools/props/C17.py "
                 "(self-checked on every run: the unmutated regeneration of every table reproduces the created catalog)"]
STATELESS = False


def _translate():
    r = run([sys.executable, os.path.join(VERIF, "tools", "tr_validators.py")])
    return (r.stdout.strip() or r.stderr.strip())[:300]


TRANSLATORS = {"schema_*.cpp validators": _translate}

SCHEMAS = ["schema_1_6_0", "schema_1_7_1", "schema_1_9_1", "schema_1_11_1", "schema_1_13_0", "schema_1_13_1",
           "schema_1_13_2", "schema_1_15_0", "schema_1_17_0", "schema_1_18_0_desktop", "schema_1_18_0_os",
           "schema_2_18_0", "schema_2_20_1", "schema_2_20_2", "schema_2_20_3", "schema_2_21_0", "schema_2_21_1",
           "schema_2_21_2"]
REFBASE = os.path.join(REPO, "testdata", "ref", "engine")


# ------------------------------------------------------------------ text forms
def hexs(s):
    if isinstance(s, str):
        s = s.encode()
    return s.hex() or "-"


def unhex(t):
    return "" if t == "-" else binascii.unhexlify(t).decode("utf-8", "surrogateescape")


class Toks:
    def __init__(self, toks):
        self.t, self.i = toks, 0

    def nxt(self):
        x = self.t[self.i]
        self.i += 1
        return x

    def ostr(self):
        x = self.nxt()
        return None if x == "none" else unhex(x)


def parse_dump(tk):
    """M n (label type name tbl sql)* T n (label tbl k (name type notnull dflt pk)*)* X n (label tbl k (name unique origin partial k (seqno name)*)*)*"""
    assert tk.nxt() == "M"
    M, T, X = [], {}, {}
    for _ in range(int(tk.nxt())):
        db, ty, n, tb, _sql = tk.nxt(), tk.nxt(), unhex(tk.nxt()), unhex(tk.nxt()), tk.ostr()
        M.append((db, ty, n, tb))
    assert tk.nxt() == "T"
    for _ in range(int(tk.nxt())):
        db, tb = tk.nxt(), unhex(tk.nxt())
        cols = []
        for _ in range(int(tk.nxt())):
            cols.append((unhex(tk.nxt()), unhex(tk.nxt()), int(tk.nxt()), tk.ostr(), int(tk.nxt())))
        T[(db, tb)] = cols
    assert tk.nxt() == "X"
    for _ in range(int(tk.nxt())):
        db, tb = tk.nxt(), unhex(tk.nxt())
        idx = []
        for _ in range(int(tk.nxt())):
            n, u, o, p = unhex(tk.nxt()), int(tk.nxt()), unhex(tk.nxt()), int(tk.nxt())
            cs = [(int(tk.nxt()), tk.ostr()) for _ in range(int(tk.nxt()))]
            idx.append((n, u, o, p, cs))
        X[(db, tb)] = idx
    return M, T, X


def parse_base(line):
    """'ok n (label type name tbl sql)*n cat <dump>' -> statements, catalog"""
    toks = line.split(" ")
    assert toks[0] == "ok", line[:200]
    tk = Toks(toks[1:])
    stmts = []
    for i in range(int(tk.nxt())):
        stmts.append(dict(i=i, label=tk.nxt(), type=tk.nxt(), name=unhex(tk.nxt()), tbl=unhex(tk.nxt()), sql=unhex(tk.nxt())))
    assert tk.nxt() == "cat"
    k = tk.i
    cat = parse_dump(tk)
    return stmts, cat, " ".join(toks[1 + k:])


def q(name):
    return '"' + name.replace('"', '""') + '"'


def col_txt(c):
    return "%s %s %d %s %d" % (hexs(c[0]), hexs(c[1]), c[2], "none" if c[3] is None else hexs(c[3]), c[4])


def idx_txt(ix):
    return "%s %d %s %d %d %s" % (hexs(ix[0]), ix[1], hexs(ix[2]), ix[3], len(ix[4]),
                                  " ".join("%d %s" % (s, "none" if n is None else hexs(n)) for s, n in ix[4])) \
        if ix[4] else "%s %d %s %d 0" % (hexs(ix[0]), ix[1], hexs(ix[2]), ix[3])


# ------------------------------------------------------------------ the catalog as python objects
class Table:
    def __init__(self, label, name, cols, idx, stmt):
        self.label, self.name, self.cols, self.idx, self.stmt = label, name, list(cols), list(idx), stmt
        self.autoinc = stmt is not None and "AUTOINCREMENT" in stmt["sql"].upper()

    def auto(self):
        """constraint-made indices (origin u / pk) in declaration order"""
        def num(ix):
            m = re.search(r"_(\d+)$", ix[0])
            return int(m.group(1)) if m else 0
        return sorted([ix for ix in self.idx if ix[2] in ("u", "pk")], key=num)


def table_sql(name, cols, auto, autoinc):
    """CREATE TABLE regenerated from the catalog (columns in cid order, UNIQUE / PRIMARY KEY constraints in the
    order of their automatic indices)."""
    pk = sorted([c for c in cols if c[4] > 0], key=lambda c: c[4])
    has_pk_index = any(ix[2] == "pk" for ix in auto)
    rowid_alias = len(pk) == 1 and pk[0][1].upper() == "INTEGER" and not has_pk_index
    parts = []
    for c in cols:
        s = q(c[0]) + ((" " + c[1]) if c[1] else "")
        if rowid_alias and c is pk[0]:
            s += " PRIMARY KEY" + (" AUTOINCREMENT" if autoinc else "")
        if c[2]:
            s += " NOT NULL"
        if c[3] is not None:
            # PRAGMA table_info gives the default as written, without enclosing parentheses
            simple = re.fullmatch(r"[-+]?[A-Za-z0-9_.]+|'(?:[^']|'')*'|\"[^\"]*\"|\[[^\]]*\]", c[3]) is not None
            s += (" DEFAULT %s" if simple else " DEFAULT (%s)") % c[3]
        parts.append(s)
    done_pk = rowid_alias or not pk
    for ix in auto:
        names = [n for _, n in sorted(ix[4])]
        if ix[2] == "pk":
            if pk:
                parts.append("PRIMARY KEY (%s)" % ", ".join(q(c[0]) for c in pk))
                done_pk = True
        elif names and all(n is not None for n in names):
            parts.append("UNIQUE (%s)" % ", ".join(q(n) for n in names))
    if not done_pk:
        parts.append("PRIMARY KEY (%s)" % ", ".join(q(c[0]) for c in pk))
    return "CREATE TABLE %s (%s)" % (q(name), ", ".join(parts))


def index_regenerable(ix):
    return ix[2] == "c" and ix[3] == 0 and ix[4] and all(n is not None for _, n in ix[4])


def index_sql(tbl, ix):
    return "CREATE %sINDEX %s ON %s (%s)" % ("UNIQUE " if ix[1] else "", q(ix[0]), q(tbl),
                                             ", ".join(q(n) for _, n in sorted(ix[4])))


def word_in(word, sql):
    return re.search(r"(?<![A-Za-z0-9_$])" + re.escape(word) + r"(?![A-Za-z0-9_$])", sql) is not None


def positions(existing):
    """new names placed first, between and last in the bytewise order of `existing`"""
    ex = sorted(existing, key=lambda s: s.encode())
    if not ex:
        return [("only", "n_new")]
    out = []
    first = "0_first"
    if first.encode() < ex[0].encode():
        out.append(("first", first))
    for k in sorted(range(len(ex) - 1), key=lambda k: abs(k - (len(ex) - 1) // 2)):
        cand = ex[k] + "0"
        if ex[k].encode() < cand.encode() < ex[k + 1].encode() and not cand.startswith("sqlite_"):
            out.append(("between", cand))
            break
    last = "zzzz_last" if "zzzz_last".encode() > ex[-1].encode() else "~last"
    if last.encode() > ex[-1].encode():
        out.append(("last", last))
    return out


def case_variant(name, existing):
    """[("case", v)]: v differs from `name` only in the case of one ASCII letter and stands at the SAME place in the
    bytewise order of `existing` (so an ordered walk meets it where it expects `name`); [] if there is none.
    (round 5, seeded C17-5: identifiers compared with sqlite3_stricmp - a case-only rename that keeps its place
    in the sorted catalog was no longer reported)"""
    others = [e for e in existing if e != name]
    low = {e.lower() for e in others}
    rank = sorted(existing, key=lambda x: x.encode()).index(name) if name in existing else None
    for i in range(len(name) - 1, -1, -1):
        ch = name[i]
        if not (ch.isascii() and ch.isalpha()):
            continue
        v = name[:i] + ch.swapcase() + name[i + 1:]
        if v.lower() in low or v.startswith("sqlite_") != name.startswith("sqlite_"):
            continue
        if rank is None or sorted(others + [v], key=lambda x: x.encode()).index(v) == rank:
            return [("case", v)]
    return []


# names an implementation might treat specially: look-alikes of SQLite's internal names (also up to letter case),
# LIKE / GLOB metacharacters, quotes, blanks, non-ASCII, single characters
ADVERSARIAL = ["sqlite3stats", "SQLiteXStatus", "sqlite-stat9", "sqliteXsequence", "sqlite", "a_b%c", "x*y?z", "we[i]rd",
               'quo"te', "apo'strophe", "two words", "T\u00e0bl\u00e9", "%", "_"]


def adversarial(existing, rng=None, k=None):
    """(position-tag, name) for the adversarial pool, minus names SQLite would refuse (equal to an existing one up to case)"""
    low = {e.lower() for e in existing}
    pool = [n for n in ADVERSARIAL if n.lower() not in low]
    if rng is not None and k is not None and len(pool) > k:
        pool = rng.sample(pool, k)
    return [("adv", n) for n in pool]


class Lib:
    def __init__(self, schema, stmts, cat):
        self.schema, self.stmts = schema, stmts
        M, T, X = cat
        self.labels = []
        self.tables, self.views = {}, {}
        for db, ty, n, tb in M:
            if db not in self.labels:
                self.labels.append(db)
        by = {(s["label"], s["type"], s["name"]): s for s in stmts}
        for db, ty, n, tb in M:
            if ty == "table":
                self.tables[(db, n)] = Table(db, n, T.get((db, n), []), X.get((db, n), []), by.get((db, "table", n)))
            elif ty == "view":
                self.views[(db, n)] = by.get((db, "view", n))

    def deps(self, label, tbl, kinds=("index", "trigger")):
        return [s for s in self.stmts if s["label"] == label and s["tbl"] == tbl and s["type"] in kinds]

    def index_stmt(self, label, name):
        for s in self.stmts:
            if s["label"] == label and s["type"] == "index" and s["name"] == name:
                return s
        return None


def mutant(kind, label, what, lean="-", omit=(), repl=(), add=()):
    return dict(kind=kind, label=label, what=what, lean=lean, omit=sorted(set(omit)), repl=list(repl), add=list(add))


def retable(t, cols=None, auto=None, name=None, autoinc=None):
    return table_sql(name or t.name, t.cols if cols is None else cols, t.auto() if auto is None else auto,
                     t.autoinc if autoinc is None else autoinc)


def enumerate_mutants(lib):
    out = []
    for label in lib.labels:
        tables = {n: t for (l, n), t in lib.tables.items() if l == label}
        user = {n: t for n, t in tables.items() if not n.startswith("sqlite_") and t.stmt is not None}
        views = {n: s for (l, n), s in lib.views.items() if l == label and s is not None}
        # ---- identity regeneration of every table (generator self-check, must give an empty delta)
        for n, t in user.items():
            out.append(mutant("identity", label, "regenerate " + n, repl=[(t.stmt["i"], retable(t))]))
        # ---- tables
        for n, t in user.items():
            out.append(mutant("table-drop", label, n, "%s dropTable %s" % (label, hexs(n)),
                              omit=[t.stmt["i"]] + [s["i"] for s in lib.deps(label, n)]))
        out.append(mutant("table-add-analyze", label, "sqlite_stat1 (ANALYZE)", "-", add=["ANALYZE"]))
        for pos, new in positions(list(tables) + list(views)) + adversarial(list(tables) + list(views)):
            out.append(mutant("table-add-" + pos, label, new,
                              "%s addTable %s 1 %s 0" % (label, hexs(new), col_txt(("id", "INTEGER", 0, None, 0))),
                              add=['CREATE TABLE %s ("id" INTEGER)' % q(new)]))
        for ti, (n, t) in enumerate(user.items()):
            # every table is renamed to the three positions; the adversarial names are dealt round over the tables
            adv = adversarial(list(tables) + list(views))
            for pos, new in positions(list(tables) + list(views)) + case_variant(n, list(tables) + list(views)) + \
                    [a for j, a in enumerate(adv) if j % len(user) == ti]:
                omit, repl, pure = [], [(t.stmt["i"], retable(t, name=new))], True
                for s in lib.deps(label, n):
                    ix = next((i for i in t.idx if i[0] == s["name"]), None) if s["type"] == "index" else None
                    if ix is not None and index_regenerable(ix):
                        repl.append((s["i"], index_sql(new, ix)))
                    else:
                        omit.append(s["i"])
                        pure = pure and s["type"] != "index"
                out.append(mutant("table-rename-" + pos, label, "%s -> %s" % (n, new),
                                  "%s renameTable %s %s" % (label, hexs(n), hexs(new)) if pure else "-", omit=omit, repl=repl))
        # ---- views
        for n, s in views.items():
            out.append(mutant("view-drop", label, n, "%s dropView %s" % (label, hexs(n)),
                              omit=[s["i"]] + [d["i"] for d in lib.deps(label, n, ("trigger",))]))
        for pos, new in positions(list(tables) + list(views)) + adversarial(list(tables) + list(views)):
            out.append(mutant("view-add-" + pos, label, new, "%s addView %s" % (label, hexs(new)),
                              add=["CREATE VIEW %s AS SELECT 1 AS x" % q(new)]))
        for vi, (n, s) in enumerate(views.items()):
            adv = adversarial(list(tables) + list(views))
            for pos, new in positions(list(tables) + list(views)) + case_variant(n, list(tables) + list(views)) + \
                    [a for j, a in enumerate(adv) if j % len(views) == vi]:
                sql, k = re.subn(r'^(\s*CREATE\s+VIEW\s+)("[^"]+"|\[[^\]]+\]|`[^`]+`|[A-Za-z0-9_$]+)', lambda m: m.group(1) + q(new),
                                 s["sql"], count=1, flags=re.I)
                if k != 1:
                    continue
                out.append(mutant("view-rename-" + pos, label, "%s -> %s" % (n, new),
                                  "%s renameView %s %s" % (label, hexs(n), hexs(new)),
                                  omit=[d["i"] for d in lib.deps(label, n, ("trigger",))], repl=[(s["i"], sql)]))
        # ---- columns
        for n, t in user.items():
            cn = [c[0] for c in t.cols]

            def col_mut(kind, what, cols, auto=None, lean="-", dropcol=None, rename=None, autoinc=None):
                """replace the table statement; indices that mention a dropped / renamed column are regenerated or omitted"""
                omit, repl = [], [(t.stmt["i"], retable(t, cols=cols, auto=auto, autoinc=autoinc))]
                pure = True
                col = dropcol or (rename[0] if rename else None)
                if col is not None:
                    for s in lib.deps(label, n, ("index",)):
                        ix = next((i for i in t.idx if i[0] == s["name"]), None)
                        uses = (ix is not None and any(cn_ == col for _, cn_ in ix[4])) or word_in(col, s["sql"].split("(", 1)[-1])
                        if not uses:
                            continue
                        pure = False
                        if rename and ix is not None and index_regenerable(ix):
                            ix2 = (ix[0], ix[1], ix[2], ix[3], [(sq, rename[1] if c == col else c) for sq, c in ix[4]])
                            repl.append((s["i"], index_sql(n, ix2)))
                        else:
                            omit.append(s["i"])
                    if any(any(c == col for _, c in ix[4]) for ix in t.auto()):
                        pure = False
                out.append(mutant(kind, label, "%s.%s" % (n, what), lean if pure else "-", omit=omit, repl=repl))

            def auto_without(col, new=None):
                res = []
                for ix in t.auto():
                    cs = [(sq, (new if c == col else c)) for sq, c in ix[4] if not (c == col and new is None)]
                    if cs or ix[2] == "pk":
                        res.append((ix[0], ix[1], ix[2], ix[3], [(k, c) for k, (_, c) in enumerate(cs)]))
                return res

            for c in t.cols:
                rest = [x for x in t.cols if x is not c]
                if rest:
                    # renumber the key ranks of the remaining key columns
                    pk = sorted([x for x in rest if x[4] > 0], key=lambda x: x[4])
                    rest2 = [(x[0], x[1], x[2], x[3], (pk.index(x) + 1) if x[4] > 0 else 0) for x in rest]
                    col_mut("col-drop", c[0], rest2, auto=auto_without(c[0]), dropcol=c[0],
                            lean="%s dropCol %s %s" % (label, hexs(n), hexs(c[0])),
                            autoinc=t.autoinc and c[4] == 0)
                for pos, new in positions(cn) + case_variant(c[0], cn):
                    cols = [((new,) + x[1:]) if x is c else x for x in t.cols]
                    col_mut("col-rename-" + pos, "%s -> %s" % (c[0], new), cols, auto=auto_without(c[0], new), rename=(c[0], new),
                            lean="%s updCol %s %s %s" % (label, hexs(n), hexs(c[0]), col_txt((new,) + c[1:])))

                def upd(kind, newc, what):
                    cols = [newc if x is c else x for x in t.cols]
                    col_mut(kind, "%s %s" % (c[0], what), cols,
                            lean="%s updCol %s %s %s" % (label, hexs(n), hexs(c[0]), col_txt(newc)))
                nt = "TEXT" if c[1].upper() != "TEXT" else "INTEGER"
                upd("col-type", (c[0], nt, c[2], c[3], c[4]), "type %s -> %s" % (c[1], nt))
                if c[1] and c[1].lower() != c[1]:
                    upd("col-type-case", (c[0], c[1].lower(), c[2], c[3], c[4]), "type %s -> %s" % (c[1], c[1].lower()))
                upd("col-notnull", (c[0], c[1], 0 if c[2] else 1, c[3], c[4]), "notnull %d -> %d" % (c[2], 0 if c[2] else 1))
                if c[3] is None:
                    upd("col-default-add", (c[0], c[1], c[2], "7", c[4]), "default NULL -> 7")
                else:
                    upd("col-default-drop", (c[0], c[1], c[2], None, c[4]), "default %s -> NULL" % c[3])
                    nd = "7" if c[3] != "7" else "8"
                    upd("col-default-change", (c[0], c[1], c[2], nd, c[4]), "default %s -> %s" % (c[3], nd))
                # key membership
                pk = sorted([x for x in t.cols if x[4] > 0], key=lambda x: x[4])
                if c[4] > 0:
                    pk2 = [x for x in pk if x is not c]
                    cols = [(x[0], x[1], x[2], x[3], (pk2.index(x) + 1) if x in pk2 else 0) for x in t.cols]
                    auto = [ix for ix in t.auto() if not (ix[2] == "pk" and not pk2)]
                    col_mut("col-pk-remove", "%s pk %d -> 0" % (c[0], c[4]), cols, auto=auto, autoinc=False,
                            lean="%s updCol %s %s %s" % (label, hexs(n), hexs(c[0]), col_txt((c[0], c[1], c[2], c[3], 0))))
                else:
                    cols = [(x[0], x[1], x[2], x[3], len(pk) + 1) if x is c else x for x in t.cols]
                    col_mut("col-pk-add", "%s pk 0 -> %d" % (c[0], len(pk) + 1), cols, autoinc=False,
                            lean="%s updCol %s %s %s" % (label, hexs(n), hexs(c[0]), col_txt((c[0], c[1], c[2], c[3], len(pk) + 1))))
            tix = list(user).index(n)
            for pos, new in positions(cn) + [a for j, a in enumerate(adversarial(cn)) if j % len(user) == tix]:
                newc = (new, "INTEGER", 0, None, 0)
                col_mut("col-add-" + pos, "+" + new, t.cols + [newc],
                        lean="%s addCol %s %s" % (label, hexs(n), col_txt(newc)))
            # ---- indices
            inames = [ix[0] for ix in t.idx]
            other = lambda used: next((x[0] for x in t.cols if x[0] not in used), None)
            for ix in t.idx:
                if ix[2] == "c":
                    s = lib.index_stmt(label, ix[0])
                    if s is None:
                        continue
                    out.append(mutant("index-drop", label, "%s.%s" % (n, ix[0]), "%s dropIdx %s %s" % (label, hexs(n), hexs(ix[0])),
                                      omit=[s["i"]]))
                    for pos, new in positions(inames) + case_variant(ix[0], inames):
                        if index_regenerable(ix):
                            sql = index_sql(n, (new,) + ix[1:])
                        else:
                            sql, k = re.subn(r'^(\s*CREATE\s+(?:UNIQUE\s+)?INDEX\s+)("[^"]+"|\[[^\]]+\]|`[^`]+`|[A-Za-z0-9_$]+)',
                                             lambda m: m.group(1) + q(new), s["sql"], count=1, flags=re.I)
                            if k != 1:
                                continue
                        out.append(mutant("index-rename-" + pos, label, "%s.%s -> %s" % (n, ix[0], new),
                                          "%s updIdx %s %s %s" % (label, hexs(n), hexs(ix[0]), idx_txt((new,) + ix[1:])),
                                          repl=[(s["i"], sql)]))
                    if not index_regenerable(ix):
                        continue

                    def iupd(kind, ix2, what):
                        out.append(mutant(kind, label, "%s.%s %s" % (n, ix[0], what),
                                          "%s updIdx %s %s %s" % (label, hexs(n), hexs(ix[0]), idx_txt(ix2)),
                                          repl=[(s["i"], index_sql(n, ix2))]))
                    iupd("index-unique", (ix[0], 0 if ix[1] else 1, ix[2], ix[3], ix[4]), "unique %d -> %d" % (ix[1], 0 if ix[1] else 1))
                    names = [c for _, c in sorted(ix[4])]
                    renum = lambda ns: [(k, c) for k, c in enumerate(ns)]
                    o = other(names)
                    if o is not None:
                        iupd("index-col-add", ix[:4] + (renum(names + [o]),), "+" + o)
                        iupd("index-col-replace", ix[:4] + (renum([o] + names[1:]),), "%s -> %s" % (names[0], o))
                    if len(names) >= 2:
                        iupd("index-col-drop", ix[:4] + (renum(names[:-1]),), "-" + names[-1])
                        iupd("index-col-swap", ix[:4] + (renum([names[1], names[0]] + names[2:]),), "swap")
                else:
                    # an index made by a UNIQUE / PRIMARY KEY constraint: edit the constraint
                    auto = t.auto()
                    if ix[2] == "u":
                        out.append(mutant("autoindex-drop", label, "%s.%s" % (n, ix[0]), "-",
                                          repl=[(t.stmt["i"], retable(t, auto=[a for a in auto if a is not ix]))]))
                        names = [c for _, c in sorted(ix[4])]
                        o = other(names)
                        if o is not None and all(c is not None for c in names):
                            for kind, ns in (("autoindex-col-add", names + [o]), ("autoindex-col-replace", [o] + names[1:])):
                                ix2 = ix[:4] + ([(k, c) for k, c in enumerate(ns)],)
                                out.append(mutant(kind, label, "%s.%s" % (n, ix[0]),
                                                  "%s updIdx %s %s %s" % (label, hexs(n), hexs(ix[0]), idx_txt(ix2)),
                                                  repl=[(t.stmt["i"], retable(t, auto=[ix2 if a is ix else a for a in auto]))]))
            for pos, new in positions(inames) + [a for j, a in enumerate(adversarial(inames + list(tables) + list(views))) if j % len(user) == tix]:
                c0 = t.cols[0][0]
                ix = (new, 0, "c", 0, [(0, c0)])
                out.append(mutant("index-add-" + pos, label, "%s.+%s" % (n, new),
                                  "%s addIdx %s %s" % (label, hexs(n), idx_txt(ix)), add=[index_sql(n, ix)]))
    return out


def neighbour_mutants(lib, lib2):
    """the library of `lib.schema` rebuilt with the catalog of a NEIGHBOURING version (same generation) while its
    version row stays its own: per database file one mutant that turns the statement list of lib into lib2's
    (replace in place what both have, omit what only lib has, append what only lib2 has).  verify() must judge a
    library against the version it states (round 5, seeded C17-6: verify() fell back to the validator of the next
    patch level 'because Engine upgrades in place and rewrites the version row later')."""
    out = []
    for label in lib.labels:
        a = [s for s in lib.stmts if s["label"] == label]
        b = [s for s in lib2.stmts if s["label"] == label]
        kb = {(s["type"], s["name"]): s for s in b}
        ka = {(s["type"], s["name"]): s for s in a}
        omit = [s["i"] for s in a if (s["type"], s["name"]) not in kb]
        repl = [(s["i"], kb[(s["type"], s["name"])]["sql"]) for s in a
                if (s["type"], s["name"]) in kb and kb[(s["type"], s["name"])]["sql"] != s["sql"]]
        add = [s["sql"] for s in b if (s["type"], s["name"]) not in ka]
        if omit or repl or add:
            out.append(mutant("neighbour-version", label, "%s -> catalog of %s" % (lib.schema, lib2.schema),
                              omit=omit, repl=repl, add=add))
    return out


def exp_text(a):
    """the extracted expectation tables of one database file in the driver's text form (pDbExp)"""
    def lst(xs, f):
        return "%d%s" % (len(xs), "".join(" " + f(x) for x in xs))
    def te(t):
        return "%s %s %d %s %d %s" % (
            hexs(t["name"]),
            lst(t["cols"], lambda c: "%s %s %d %s %d" % (hexs(c[0]), hexs(c[1]), c[2], hexs(c[3]), c[4])), int(t["colsNoMore"] and t["hasCols"]),
            lst(t["idxs"], lambda i: "%s %d %s %d" % (hexs(i[0]), i[1], hexs(i[2]), i[3])), int(t["idxsNoMore"] and t["hasIdxs"]),
            lst(t["idxCols"], lambda x: "%s %s %d" % (hexs(x[0]), lst(x[1], lambda c: "%d %s" % (c[0], hexs(c[1]))), int(x[2]))))
    return "%s %d %s %d %s" % (lst(a["tables"], hexs), int(a["tablesNoMore"]), lst(a["views"], hexs), int(a["viewsNoMore"]),
                               lst(a["perTable"], te))


def extracted_tables():
    """{schema: {label: assembled tables}} from tools/tr_validators.py, or (None, reason)"""
    try:
        import tr_validators
        versions = tr_validators.translate()
        return {v: tr_validators.assemble(b) for v, b in versions.items()}, "ok"
    except Exception as e:      # Unsupported or anything else: fail closed
        return None, "unsupported: %s" % (e,)


def mut_line(m):
    return "sv.mut %s %d %s %d %s %d %s" % (
        m["label"], len(m["omit"]), " ".join(str(i) for i in m["omit"]),
        len(m["repl"]), " ".join("%d %s" % (i, hexs(s)) for i, s in m["repl"]),
        len(m["add"]), " ".join(hexs(s) for s in m["add"]))


def mutated_ddl(lib, m):
    """the full DDL of the mutated database file (for the replay file)"""
    repl = dict(m["repl"])
    out = []
    for s in lib.stmts:
        if s["label"] != m["label"] or s["i"] in m["omit"]:
            continue
        out.append(repl.get(s["i"], s["sql"]) + ";")
    return out + [a + ";" for a in m["add"]]


RES = re.compile(r"^ok load=(\S+) pub=(\S+) int=(\S+) trigskip=(\d+) wrap=(\S+) (minus .*)$")


def run_schema(schema, select, ctx, extracted=None):
    """Create the schema with the real code, enumerate, select, run.  Returns dict."""
    base = ["create %s disk" % schema, "sv.base"]
    outs, _ = runner.run_harness_script(base, watchdog=60)
    res = {"schema": schema, "violations": [], "divergences": [], "hist": {}, "n": 0, "nontrivial": set(), "samples": []}
    try:
        stmts, cat, cat_text = parse_base(outs[1])
    except Exception as e:
        res["divergences"].append({"input": " ; ".join(base), "impl": " | ".join(o[:200] for o in outs), "model": "expected the statement list and catalog (%r)" % (e,)})
        return res
    lib = Lib(schema, stmts, cat)
    allm = enumerate_mutants(lib)
    # the neighbouring versions of the same generation (both directions)
    k = SCHEMAS.index(schema)
    for k2 in (k - 1, k + 1):
        if 0 <= k2 < len(SCHEMAS) and SCHEMAS[k2].split("_")[1] == schema.split("_")[1]:
            o2, _ = runner.run_harness_script(["create %s disk" % SCHEMAS[k2], "sv.base"], watchdog=60)
            try:
                st2, cat2, _t = parse_base(o2[1])
                allm += neighbour_mutants(lib, Lib(SCHEMAS[k2], st2, cat2))
            except Exception as e:
                res["divergences"].append({"input": "create %s disk ; sv.base" % SCHEMAS[k2], "impl": " | ".join(x[:200] for x in o2),
                                           "model": "expected the statement list and catalog (%r)" % (e,)})
    muts = select(allm)
    res["enumerated"] = len(allm)
    lines = ["sv.mut -"] + [mut_line(m) for m in muts]
    shards = runner.shard(lines, max(1, min(NCPU, 1 + len(lines) // 40)))
    hres = runner.run_harness([base + sh for sh in shards], watchdog=60)
    houts = []
    for (o, rep), sh in zip(hres, shards):
        houts += o[2:2 + len(sh)]
    mlines = ["#mode schema", "c17.base b " + cat_text]
    exp = (extracted or {}).get(schema)
    if exp:
        for label in sorted(exp):
            mlines.append("c17.exp b %s %s" % (label, exp_text(exp[label])))
    npre = len(mlines)
    parsed = []
    for l, o, m in zip(lines, houts, [None] + muts):
        mm = RES.match(o)
        parsed.append(mm)
        if mm:
            mlines.append("c17.mut b %s %s" % ((m["lean"] if m else "-"), mm.group(6)))
    mshards = runner.shard(mlines[npre:], max(1, min(NCPU, 1 + len(mlines) // 100)))
    mres = runner.run_model([mlines[:npre] + sh for sh in mshards])
    mouts = []
    for o, sh in zip(mres, mshards):
        mouts += o[npre:npre + len(sh)]
    if exp and mres:
        for l, ans in zip(mlines[2:npre], mres[0][2:npre]):
            res["hist"]["extracted-tables:" + ans[3:]] = res["hist"].get("extracted-tables:" + ans[3:], 0) + 1
            if ans != "ok closed=true accepts=true expOf=true":
                res["divergences"].append({"input": "%s %s" % (schema, l[:40]), "impl": "(tables extracted from schema_*.cpp)",
                                           "model": "the extracted tables should be closed, accept the created catalog and equal expOf: " + ans[:120]})
    mi = 0
    H = res["hist"]

    def bump(k, d=H):
        d[k] = d.get(k, 0) + 1

    for l, o, m, mm in zip(lines, houts, [None] + muts, parsed):
        kind = m["kind"] if m else "unmutated"
        what = m["what"] if m else "rebuilt from the created DDL"
        if not mm:
            res["divergences"].append({"input": "%s %s: %s" % (schema, kind, what), "impl": o[:300],
                                       "model": "the mutated DDL should build (generator / harness problem)"})
            bump("generator-error:" + kind)
            continue
        load, pub, intl, trigskip, wrap, delta = mm.groups()
        bump("wrappers:" + wrap.split(":")[0] + (":" + wrap.split(":")[1] if ":" in wrap else ""))
        if wrap != "same":
            # the model assumes the validator's query wrappers list every table / view / column / index that is there
            res["divergences"].append({"input": "%s %s: %s" % (schema, kind, what),
                                       "impl": "the validator's own listing differs from the independent reader's: " + wrap + " = " +
                                               (unhex(wrap.split(":")[-1]) if wrap.startswith("DIFF") else ""),
                                       "model": "master_list / table_info / index_list / index_info return everything sqlite_master and the PRAGMAs hold"})
        lean = mouts[mi] if mi < len(mouts) else "missing"
        mi += 1
        f = dict(x.split("=", 1) for x in lean.split(" ")[1:]) if lean.startswith("ok ") else {}
        res["n"] += 1
        if not f or f.get("wf") != "true" or f.get("self") != "true" or len({f.get("walk"), f.get("same"), f.get("plain")}) != 1:
            res["divergences"].append({"input": "%s %s: %s" % (schema, kind, what), "impl": o[:200],
                                       "model": "Lean verdicts disagree among themselves or catalog not well formed: " + lean[:200]})
            continue
        deviates = f["walk"] == "false"
        bump(kind)
        bump("load:" + (load if load.startswith("throw") else ("same" if load == schema else "other-schema")))
        if f.get("pure") == "true":
            bump("pure:" + kind.split("-")[0])
        elif m and m["lean"] != "-":
            bump("not-pure:" + kind)
        if kind in ("unmutated", "identity"):
            if deviates:
                res["divergences"].append({"input": "%s %s: %s" % (schema, kind, what), "impl": delta[:300],
                                           "model": "an unmutated regeneration must reproduce the created catalog"})
                continue
        elif not deviates:
            bump("normalised-away:" + kind)
        else:
            res["nontrivial"].add(hashlib.sha1(delta.encode()).hexdigest())
        want = "inconsistency" if deviates else "ok"
        verdict = pub if pub != "na" else intl
        if f.get("real", "na") != "na":
            # the Lean model of the REAL validator (generic walk over the tables extracted from schema_*.cpp) vs the real code
            agree = (f["real"] == "true") == (verdict == "ok")
            bump("model-of-real-validator:" + ("agrees" if agree else "DIFFERS"))
            if not agree:
                res["divergences"].append({"input": "%s %s: %s" % (schema, kind, what), "impl": "verify(): " + verdict,
                                           "model": "verifyDb <extracted tables> says accepts=%s" % f["real"]})
        bad = []
        # the verdict is database::verify()'s whenever load_database() got that far; the validator of the
        # created version run directly on the library's kind of connection decides the rest (a mutant whose
        # Information table can no longer be read never reaches verify())
        if pub != "na":
            if pub != want and not (load != schema and pub == "inconsistency"):
                bad.append("database::verify() after load_database (%s): %s" % (load, pub))
            bump("validator-direct:" + ("same" if intl == pub else intl.split(":")[0] + "-vs-" + pub))
        else:
            bump("public-path-unreachable:" + load)
            if intl != want:
                bad.append("validator of %s (load_database: %s): %s" % (schema, load, intl))
        if len(res["samples"]) < 2 and deviates:
            res["samples"].append("%s %s %s -> load=%s pub=%s int=%s lean %s" % (schema, kind, what, load, pub, intl, lean[3:60]))
        if bad:
            bump(("accepted-deviation:" if deviates else "rejected-valid:") + kind)
            obj = what if m else "created"
            res["violations"].append({
                "tag": "verify", "signature": {"schema": schema, "kind": kind, "object": obj},
                "header": {"kind": "mutated-ddl",
                           "what": ("verify() accepts a structural deviation" if deviates else "verify() rejects a library without deviation")
                                   + " [%s %s %s]: %s" % (schema, kind, what, "; ".join(bad))},
                "body": ["schema: " + schema, "mutation: %s %s" % (kind, what), "database: " + (m["label"] if m else "-"),
                         "expected: " + want, "lean: " + lean, "delta: " + delta[:1500]] + base + [l] +
                        ["-- mutated DDL of database %s:" % (m["label"] if m else "-")] + (mutated_ddl(lib, m) if m else [])})
    return res


ALL_CLASSES = SCHEMAS + ["schema_3_0_0"]     # 3.0.0 is shipped (and has extracted tables) but is not among the 18 supported


def accepting_side(schemas):
    """created (temporary, on-disk, reloaded) and every reference library must pass verify(); also returns the catalogs
    read back (created per class, reference per dump with the schema the library loaded it as) for the kernel facts"""
    scripts, keys = [], []
    for s in ALL_CLASSES:
        scripts.append(["create %s mem" % s, "db.q verify", "schema.dump", "create %s disk" % s, "db.q verify", "load", "db.q verify"])
        keys.append(("c", s))
    refs = []
    for d in sorted(glob.glob(os.path.join(REFBASE, "*", "*"))):
        if os.path.exists(os.path.join(d, "m.db.sql")) or os.path.exists(os.path.join(d, "Database2", "m.db.sql")):
            refs.append(os.path.relpath(d, REFBASE))
    for rel in refs:
        scripts.append(["schema.refload " + hexs(os.path.join(REFBASE, rel)), "schema.ref " + hexs(os.path.join(REFBASE, rel))])
        keys.append(("r", rel))
    viol, n = [], 0
    cats = {"created": {}, "reference": []}

    def cat_of(line):
        toks = line.split(" ")
        return " ".join(toks[toks.index("M"):]) if line.startswith("ok ") and "M" in toks else None
    for k, sc, (o, _) in zip(keys, scripts, runner.run_harness(scripts, watchdog=60)):
        if k[0] == "c":
            good = o[1] == "ok" and o[4] == "ok" and o[6] == "ok"
            name = k[1]
            if cat_of(o[2]):
                cats["created"][k[1]] = cat_of(o[2])
            if k[1] not in schemas:
                continue          # 3.0.0: catalog wanted for the facts, verdict not claimed
        else:
            good = o[0].startswith("ok ") and o[0].endswith("verify=ok")
            name = "ref " + k[1]
            if good and cat_of(o[1]):
                cats["reference"].append((k[1], o[0].split(" ")[1], cat_of(o[1])))
        n += 1
        if not good:
            viol.append({"tag": "accept", "signature": {"kind": "accepting-side", "object": name},
                         "header": {"kind": "accept", "what": "verify() rejects a created / reference library: " + name},
                         "body": ["object: " + name] + sc + [x[:300] for x in o]})
    return viol, n, len(refs), cats


# ------------------------------------------------------------------ the accepting side and the per-version statement in the kernel
CATFACTS = os.path.join(LEAN, "EngineModel", "Gen", "CatalogFacts.lean")
FACTS_BUDGET_S = {"quick": int(os.environ.get("VERIF_C17_KERNEL_BUDGET_QUICK", "60")),
                  "thorough": int(os.environ.get("VERIF_C17_KERNEL_BUDGET", "900"))}
FACT_THEOREMS = ["EngineModel.Properties.C17Facts." + t for t in
                 ("created_accepted", "references_accepted", "created_cover", "C17_created_complete", "C17_references_structure")]


def _lit(s):
    return '(bytes% "' + (s.encode("utf-8", "surrogateescape").hex()) + '")'


def _olit(s):
    return "none" if s is None else "(some %s)" % _lit(s)


def _dump_lean(text):
    M, T, X = parse_dump(Toks(text.split(" ")))
    tabs = {(db, n) for db, ty, n, tb in M if ty == "table"}
    m = ", ".join("⟨%s, %s, %s, %s, none⟩" % (_lit(db), _lit(ty), _lit(n), _lit(tb)) for db, ty, n, tb in M if ty in ("table", "view"))
    t = ", ".join("⟨%s, %s, [%s]⟩" % (_lit(db), _lit(tb), ", ".join(
        "⟨%s, %s, %d, %s, %d⟩" % (_lit(c[0]), _lit(c[1]), c[2], _olit(c[3]), c[4]) for c in cols)) for (db, tb), cols in T.items() if (db, tb) in tabs)
    x = ", ".join("⟨%s, %s, [%s]⟩" % (_lit(db), _lit(tb), ", ".join(
        "⟨%s, %d, %s, %d, [%s]⟩" % (_lit(i[0]), i[1], _lit(i[2]), i[3], ", ".join("⟨%d, %s⟩" % (sq, _olit(c)) for sq, c in i[4])) for i in idx))
        for (db, tb), idx in X.items() if (db, tb) in tabs)
    return "⟨[%s],\n   [%s],\n   [%s]⟩" % (m, t, x)


def emit_catalog_facts(extracted, cats):
    entries = [(v, l) for v in sorted(extracted) for l in sorted(extracted[v])]      # the order of ValidatorTables.all
    pos = {e: k for k, e in enumerate(entries)}
    dumps, index, names = [], {}, []

    def did(text, name):
        if text not in index:
            index[text] = len(dumps)
            dumps.append(text)
            names.append([])
        names[index[text]].append(name)
        return index[text]
    created, reference = [], []
    for v, text in sorted(cats["created"].items()):
        for (vv, l), k in pos.items():
            if vv == v:
                created.append((k, did(text, "created " + v)))
    for rel, v, text in cats["reference"]:
        for (vv, l), k in pos.items():
            if vv == v:
                reference.append((k, did(text, "ref " + rel)))
    L = ["/- GENERATED by tools/props/C17.py from the catalogs read back (sqlite_master names, PRAGMA table_info / index_list /",
         "index_info; no DDL text) from the libraries the real code created and from the hydrated reference dumps.  Do not edit. -/",
         "import EngineModel.Spec.SchemaDump", "import EngineModel.Spec.BytesLit", "namespace EngineModel.Gen.CatalogFacts",
         "open EngineModel.Spec.SchemaDump", "set_option maxRecDepth 1000000", "set_option maxHeartbeats 4000000", ""]
    for j, text in enumerate(dumps):
        L.append("/-- %s -/" % "; ".join(names[j])[:400])
        L.append("noncomputable def c%d : Dump :=\n  %s" % (j, _dump_lean(text)))
    L.append("noncomputable def dumps : List Dump := [%s]" % ", ".join("c%d" % j for j in range(len(dumps))))
    L.append("/-- (index into ValidatorTables.all, index into dumps): the catalog the creator of that version creates -/")
    L.append("def createdFacts : List (Nat × Nat) := [%s]" % ", ".join("(%d, %d)" % f for f in sorted(set(created))))
    L.append("/-- … and the reference catalogs the library loads as that version -/")
    L.append("def referenceFacts : List (Nat × Nat) := [%s]" % ", ".join("(%d, %d)" % f for f in sorted(set(reference))))
    L.append("end EngineModel.Gen.CatalogFacts")
    new = "\n".join(L) + "\n"
    try:
        old = open(CATFACTS).read()
    except OSError:
        old = None
    if old != new:
        with open(CATFACTS, "w") as f:
            f.write(new)
    return {"catalogs": len(dumps), "created_facts": len(set(created)), "reference_facts": len(set(reference)), "entries": len(entries)}


def kernel_facts(extracted, cats, tier):
    import subprocess
    t0 = time.time()
    if not extracted:
        return {"status": "skipped", "why": "the validator tables could not be translated"}
    try:
        stats = emit_catalog_facts(extracted, cats)
    except Exception as e:
        return {"status": "failed", "why": "emitting the facts: %r" % (e,)}
    import signal

    class _P:
        pass
    p = _P()
    timed_out = False
    # own process group: on a timeout stop exactly our lake/lean processes (never another verif tree's)
    proc = subprocess.Popen(["lake", "build", "Properties.C17Facts"], cwd=LEAN, stdout=subprocess.PIPE,
                            stderr=subprocess.STDOUT, text=True, start_new_session=True)
    try:
        out, _ = proc.communicate(timeout=FACTS_BUDGET_S[tier])
        p.returncode, p.stdout = proc.returncode, out
    except subprocess.TimeoutExpired:
        timed_out = True
        try:
            os.killpg(proc.pid, signal.SIGTERM)
        except OSError:
            pass
        try:
            proc.communicate(timeout=20)
        except subprocess.TimeoutExpired:
            try:
                os.killpg(proc.pid, signal.SIGKILL)
            except OSError:
                pass
    if not timed_out and p.returncode != 0 and ("exited with code 143" in p.stdout or "exited with code 137" in p.stdout):
        timed_out = True     # stopped from outside: not a verdict of the kernel
    if timed_out:
        return dict(stats, status="skipped", wall_s=round(time.time() - t0, 1),
                    why="the emitted facts differ from the last ones the kernel closed, and re-closing them exceeded the %s-tier budget "
                        "of %d s (reported, not silent; the compiled model evaluated the same acceptances this run)" % (tier, FACTS_BUDGET_S[tier]))
    if p.returncode != 0:
        return dict(stats, status="failed", why=p.stdout[-1500:], wall_s=round(time.time() - t0, 1))
    import audit as auditmod
    ax = auditmod.axioms_and_statements(FACT_THEOREMS, imports=("Properties.C17Facts",))
    allowed = {"propext", "Classical.choice", "Quot.sound"}
    bad = [n for n in FACT_THEOREMS if ax[n].get("axioms") is None or not set(ax[n]["axioms"]) <= allowed]
    lock = auditmod.load_lock("C17Facts")
    stale = [n for n in FACT_THEOREMS if lock.get(n) != ax[n].get("stmt_sha")]
    if bad or stale:
        return dict(stats, status="failed", why="axioms / statement lock: %r %r" % (bad, stale), wall_s=round(time.time() - t0, 1))
    return dict(stats, status="ok", wall_s=round(time.time() - t0, 1), theorems={n: ax[n].get("axioms") for n in FACT_THEOREMS})


def full_versions(seed):
    """three versions get the complete enumeration in quick tier: one early 1.x, one late 1.x, one 2.x (rotating with the seed)"""
    a, b, c = SCHEMAS[0:5], SCHEMAS[5:11], SCHEMAS[11:18]
    return {a[seed % len(a)], b[seed % len(b)], c[seed % len(c)]}


def tie(ctx):
    rng = random.Random(ctx.seed * 7919 + 17)
    full = set(SCHEMAS) if ctx.tier == "thorough" else full_versions(ctx.seed)

    def selector(schema):
        rng = random.Random(ctx.seed * 7919 + 17 + SCHEMAS.index(schema) * 104729)

        def sel(allm):
            if schema in full:
                return allm
            # quick tier, other versions: everything at table / view level, every "new name last" mutant (the only
            # detector of a missing validate_no_more), one column-list change per index (the only detector of an
            # index whose columns are never inspected), and one mutant of every other kind family PER TABLE
            always = ("identity", "table-", "view-", "index-col-replace", "autoindex-col-replace", "neighbour-version")
            out, groups = [], {}
            for m in allm:
                k = m["kind"]
                if k.startswith(always) or k.endswith(("-add-last", "-add-only", "-adv", "-analyze")):
                    out.append(m)
                else:
                    # a case-only rename is a family of its own (one per table and kind), not one of the rename positions
                    fam = k if k.endswith("-rename-case") else re.sub(r"-(first|between|last|add|drop|change|remove|case)$", "", k)
                    groups.setdefault((fam, m["label"], m["what"].split(".")[0]), []).append(m)
            for g in sorted(groups):
                out.append(rng.choice(groups[g]))
            return out
        return sel
    t0 = time.time()
    violations, divergences, hist, samples = [], [], {}, []
    n, nontrivial, enumerated = 0, 0, {}
    from concurrent.futures import ThreadPoolExecutor
    sels = {s: selector(s) for s in SCHEMAS}       # built in a fixed order: the sample depends on the seed only
    extracted, tr_status = extracted_tables()
    with ThreadPoolExecutor(3) as ex:
        results = list(ex.map(lambda s: run_schema(s, sels[s], ctx, extracted), SCHEMAS))
    for s, r in zip(SCHEMAS, results):
        violations += r["violations"]
        divergences += r["divergences"]
        n += r["n"]
        nontrivial += len(r["nontrivial"])
        enumerated[s] = "%d of %d" % (r["n"], r.get("enumerated", 0))
        samples += r["samples"][:1]
        for k, v in r["hist"].items():
            hist[k] = hist.get(k, 0) + v
    av, an, nrefs, cats = accepting_side(SCHEMAS)
    violations += av
    hist["accepting-side-libraries"] = an
    kf = kernel_facts(extracted, cats, ctx.tier)
    if kf["status"] == "failed":
        divergences.append({"input": "Properties/C17Facts.lean over Gen/CatalogFacts.lean + Gen/ValidatorTables.lean", "impl": "(n/a)",
                            "model": "the kernel does not close the acceptance facts: " + str(kf.get("why"))[-600:]})
    try:
        known = [k.get("signature") for k in json.load(open(os.path.join(VERIF, "known_findings.json")))["known"]
                 if k.get("property") == ID]
    except (OSError, ValueError, KeyError):
        known = []
    ok = not [v for v in violations if v["signature"] not in known] and not divergences
    return {
        "ok": ok,
        "evaluations": n + an,
        "distinct_nontrivial": nontrivial,
        "rule": "one evaluation = one library rebuilt from (mutated) DDL, verified by the real code on the public and the internal "
                "path, its catalog read back and judged by the Lean model of a complete validator (or one created / reference "
                "library verified).  distinct_nontrivial = number of distinct non-empty catalog differences (read back from "
                "the rebuilt libraries) per schema version, summed",
        "samples": samples[:8],
        "histograms": hist,
        "divergences": divergences[:20],
        "violations": violations[:25],
        "exhaustive": ctx.tier == "thorough",
        "extra": {"mutants_run_of_enumerated": enumerated, "complete_enumeration_on": sorted(full),
                  "reference_libraries": nrefs, "wall_tie_s": round(time.time() - t0, 1),
                  "validator_tables_translator": tr_status, "kernel_facts": kf},
    }


def replay(ctx, hdr, body):
    """Rebuild the recorded mutant from the CURRENT tree's created library and ask verify() and Lean again."""
    script = [l for l in body if l.startswith(("create ", "sv.base", "sv.mut "))]
    if not script:
        script = [l for l in body if l and not re.match(r"^[a-z]+: ", l) and not l.startswith("--") and not l.rstrip().endswith(";")]
    outs, _ = runner.run_harness_script(script, watchdog=60)
    txt = []
    ok = True
    for l, o in zip(script, outs):
        txt.append("%s\n   impl: %s" % (l[:200], o[:400]))
    exp = next((l.split(": ", 1)[1] for l in body if l.startswith("expected: ")), None)
    mm = RES.match(outs[-1]) if outs else None
    if mm and exp:
        load, pub, intl = mm.group(1), mm.group(2), mm.group(3)
        if intl != exp or (pub not in ("na", exp) and not (pub == "inconsistency" and exp == "inconsistency")):
            ok = False
            txt.append("STILL FAILS: expected %s, validator says %s, public verify() says %s (loaded as %s)" % (exp, intl, pub, load))
        else:
            txt.append("verdict now as expected (%s)" % exp)
    elif script and script[0].startswith("schema.refload") or (script and script[0].startswith("create ") and len(script) > 1 and script[1] == "db.q verify"):
        ok = all(o == "ok" or o.endswith("verify=ok") or o.startswith("ok schema") for o in outs)
        txt.append("accepting side: " + ("passes now" if ok else "STILL FAILS"))
    else:
        ok = False
        txt.append("could not re-run the recorded mutant")
    return ok, "\n".join(txt)


if __name__ == "__main__" and sys.argv[1:] == ["lock-facts"]:
    import audit as auditmod
    print(auditmod.write_lock("C17Facts", FACT_THEOREMS, imports=("Properties.C17Facts",)))
