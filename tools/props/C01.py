"""C01 — Track data written through a snapshot reads back unchanged.  Assembled from a schema-1.x part and a schema-2.x part."""
from props import _combine

_combine.install(globals(), "C01", [
    "C01_v1",
    "C01_v2",
    "C01_lib2",
], dict(
    text="",
    note="see design/C01.md",
    technique="Lean 4 round-trip / lens theorems over executable models of both schema generations + "
              "differential replay on the real library with raw-row observation",
    ref="6/C01"))
