"""C14 — A failed mutating call leaves no partial update."""
import random, re
from common import *
import runner
import monitors_gen as G

ID = "C14"
LEAN_MODULES = ["Properties.C14"]
THEOREMS = ["EngineModel.Properties.C14." + t for t in [
    "C14_shape_sound", "C14_no_fault_succeeds", "C14_all_writes", "C14_shape_complete", "C14_shape_exact",
    "C14_raise_autocommit", "C14_usable", "C14_next_call", "C14_fault_on_begin", "C14_fault_on_commit",
    "C14_fault_is_reported", "C14_all_or_nothing", "C14_skeleton_decides",
    "C14_crates_v1_program", "C14_crates_v1_shape", "C14_crates_v1_skeleton", "C14_crates_v1_all_or_nothing",
    "C14_crates_v1_self_throw",
    "C14_crates_v2_program", "C14_crates_v2_shape", "C14_crates_v2_skeleton", "C14_crates_v2_all_or_nothing",
    "C14_tracks_v2_program", "C14_tracks_v2_shape", "C14_tracks_v2_skeleton", "C14_tracks_v2_all_or_nothing",
    "C14_set_bpm_unscoped_counterexample", "C14_remove_track_unscoped_counterexample",
    "C14_tracks_v1_program", "C14_tracks_v1_shape", "C14_tracks_v1_all_or_nothing", "C14_shapeOf_atomic"]]
ASSUMPTIONS = [
    "SqliteSemantics (modelled, Spec/Txn.lean): a statement applies completely or not at all; BEGIN fails inside a "
    "transaction, COMMIT fails outside one; ROLLBACK restores the committed database; an error may or may not roll "
    "the open transaction back by itself (both behaviours are covered by every theorem)",
    "every BEGIN/COMMIT/ROLLBACK of the library is issued by util::sqlite_transaction (RAII); the plugin greps "
    "src/djinterop for other occurrences on every run and the model's predicted statement trace under each fault "
    "(prefix, then one ROLLBACK per live scope) is compared with the real one",
    "faults are injected at statement granularity: the k-th non-read-only sqlite3_step of the call (BEGIN, COMMIT, "
    "INSERT/UPDATE/DELETE; ROLLBACK and read-only statements are never failed) returns SQLITE_IOERR once without "
    "executing; trigger programs run inside their statement and are covered by SQLite's statement atomicity",
    "the statement programs of the concrete models correspond to the real calls at the level of the skeleton only "
    "(scope / single autocommit write / no write), checked per observed call; the 1.x track programs and the "
    "single-UPDATE 2.x setters are one write per call",
    "an operation's statement sequence depends only on (schema, prior state, arguments): the shape recorded in the "
    "fault-free run is the one faulted (checked: the faulted run's prefix must equal it)",
]
MANIFEST = dict(
    text="Theorems C14_shape_exact / C14_shape_sound / C14_shape_complete: over a model of SQLite's connection "
         "(statement atomicity, BEGIN/COMMIT/ROLLBACK), the RAII scope of sqlite_transaction.hpp and fault injection "
         "at the k-th faultable statement, the monitor atomicShape accepts a sequence of statement kinds iff every "
         "call issuing it — any write functions, any fault position, with or without SQLite's automatic rollback — "
         "either completes with all surviving writes durable or raises with the database exactly as before and no "
         "transaction open (no bound on the length of the call). Tied to the code by recording the statement kinds "
         "of every public mutating operation on real libraries (observed, not predicted), letting Lean decide the "
         "shape, and injecting SQLITE_IOERR at every position: the call must throw, the full observation (every "
         "getter of every crate and track + raw dump of every table) must equal the one before, the connection must "
         "be in autocommit state, a retry must succeed with the fault-free result; Lean's verdict and the observed "
         "verdict must agree. Concrete operations: C14_{crates_v1,crates_v2,tracks_v2,tracks_v1}_program / _shape / "
         "_all_or_nothing give, for the concrete API models (1.x crates incl. the update_path recursion and every loop, "
         "2.x crates / memberships, the statement-level 2.x Track table, 1.x tracks at call granularity), the statement "
         "program of every public mutating call, prove that it composes to the model's step, that its shape is atomic on "
         "every prior state, and that a fault at ANY statement position raises and leaves the tables as before "
         "(C14_fault_is_reported: k < countFaultable => raised); C14_set_bpm_unscoped_counterexample / "
         "C14_remove_track_unscoped_counterexample are the formerly unwrapped calls. The skeleton (reads dropped, writes "
         "of a scope counted once; C14_skeleton_decides) of every observed call must be one its model operation can have.",
    note="Trusted/limits: SQLite's statement atomicity and rollback are assumed (SqliteSemantics); faults are "
         "injected at statement granularity only (sqlite3_step wrapper), not inside a statement or in the OS layer; "
         "the enumeration of operations x prior states x schema versions is dense sampling, the for-all over fault "
         "positions is exhaustive per sampled call and proved for the model.",
    technique="Lean 4 theorems over a transaction/RAII/fault model + exhaustive fault injection at every statement "
              "position of every public mutating operation on the real library (link-time sqlite3_step wrapper)",
    ref="6/C14")
TRUSTED_EXTRA = ["harness/djv_wrap.cpp (sqlite3_step wrapper: statement kinds, fault injection), "
                 "harness/djv_monitors.cpp (full observation), tools/monitors_gen.py (history generator)"]
STATELESS = False
SELF_TEST = {"recorded": "2026-09-29, scratch worktree of /repo, quick tier seeds 1-3 (not re-run by the check)", "seeded_changes": {
    "seeded/C14-2 (independent: 2.x playlist_entity_table::clear removes entity by entity without a scope)": "missed before Hist.enrich, caught since: crate.clear_tracks k=1 partial update",
    "seeded/sv-C14-drop-scope-v2-bpm": "caught: corpus witness v2_set_bpm + sweep",
    "seeded/sv-C14-drop-scope-v1-path (commit before the last statement)": "caught: track.set_relative_path k=4 partial update",
    "seeded/sv-C14-no-rollback-on-unwind": "caught: transaction left open, retry fails",
    "seeded/sv-refactor-reorder-writes, seeded/sv-refactor-getter-in-scope (behaviour preserving)": "green",
    "seeded/sv2-C14-set-name-early-commit (1.x set_name commits before update_path of the children)": "missed until the instance crate.set_name(with sub-crates) existed, caught since: k=3 partial update, skeleton begin,write,commit,write",
    "seeded/sv2-C14-add-back-no-scope (2.x add_back without its scope)": "caught: crate.add_track k=1 partial update",
    "seeded/sv2-refactor-extra-select (behaviour preserving)": "green"}}


# ---- static route (work-package sqlsites, design/sqlsites.md): the skeleton (SQL statement sites, sqlite_transaction
# scopes, commit() calls, calls resolved transitively) of every public mutating entry point is regenerated from
# clang's typed AST on every run (lean/EngineModel/Gen/SqlSites.lean) and `staticAtomic` of each is decided in the kernel
import tr_sqlsites as _sqs
LEAN_MODULES = LEAN_MODULES + ["Properties.C14Sites"]
THEOREMS = THEOREMS + ["EngineModel.Properties.C14Sites." + t for t in [
    "C14_sites_sound", "C14_sites_all_or_nothing", "C14_sites_all_atomic", "C14_sites_coverage", "C14_sites_rejects",
    "C14_sites_unscoped_counterexample"]]
TRANSLATORS = dict(globals().get("TRANSLATORS", {}), **{"sqlsites (engine v1/v2 impl + table classes -> Gen/SqlSites.lean)": _sqs.regenerate})
ASSUMPTIONS = ASSUMPTIONS + [
    "static route: the AST -> skeleton mapping of tools/tr_sqlsites.py is trusted (a `db << <sql>` site is classified by "
    "the leading keyword of its first string literal; a local util::sqlite_transaction opens a scope that ends with its "
    "block; calls are resolved through mangled names, wrappers djinterop::track/crate/database by method name to both "
    "generations; loops / switch / try / row callbacks / recursion are flattened to 'any number, any order'); statements "
    "issued by SQLite triggers belong to their statement; the schema creators / validators are summarised (write* / read*)",
]
MANIFEST = dict(MANIFEST, text=MANIFEST["text"] + " Static route (C14_sites_all_atomic, C14_sites_sound, "
                "C14_sites_all_or_nothing): the skeleton of EVERY public mutating entry point (impl classes behind "
                "djinterop::track / crate / database of both generations, public 2.x table-class methods; SQL statement "
                "sites read/write, sqlite_transaction scopes, commit() calls, calls resolved transitively, loops as 'many') "
                "is regenerated from clang's typed AST on every run; the decidable predicate staticAtomic (abstract "
                "interpretation of the atomicShape monitor, loops by fixpoint) is proved sound — every trace of an accepted "
                "skeleton, cut anywhere by an exception or early return, is an atomic shape, hence all-or-nothing at every "
                "fault position — and holds of every mutating entry point by `decide`: no sampling of operations, states or "
                "schema versions on this route.")


# ------------------------------------------------------------------ the operations under test
def op_instances(rng, h):
    """For the state reached by history h: one applicable instance of every
    public mutating operation.  Returns [(opname, line)]."""
    out = []

    def inst(gen, tries=6, want=None, **kw):
        for _ in range(tries):
            c = h.clone()
            c.rng = rng
            r = getattr(c, "op_" + gen)(**kw)
            if r and (want is None or r[0] == want):
                out.append(r)
                return True
        return False

    inst("mkroot"); inst("mkroot_after"); inst("mksub"); inst("mksub_after"); inst("rename")
    inst("setparent", tries=12, want="crate.set_parent")
    inst("setparent", to_root=True)
    inst("rmcrate"); inst("addtrack"); inst("rmtrackfrom"); inst("cleartracks")
    # re-adding a track that is already a member (1.x: DELETE + INSERT)
    if h.members:
        c, t = rng.choice(sorted(h.members))
        out.append(("crate.add_track(again)", "addtrack %s %s" % (c, t)))
    if h.crates and h.tracks:
        out.append(("crate.add_track(id)", "addtrackid %s %d" % (rng.choice(sorted(h.crates)), 1)))
    # the multi-row cases: a crate holding >= 3 tracks, a track held by >= 3 crates, a subtree of crates holding
    # tracks, a middle sibling (the prior states are enriched so that these exist: monitors_gen.Hist.enrich)
    big = h.biggest_crate()
    if big:
        out.append(("crate.clear_tracks(3+ tracks)", "cleartracks %s" % big))
        ms = h.members_of(big)
        for nm, t in zip(("first", "middle", "last"), (ms[0], ms[len(ms) // 2], ms[-1])) if len(ms) >= 3 else []:
            out.append(("crate.remove_track(%s of 3+)" % nm, "rmtrackfrom %s %s" % (big, t)))
    t0 = h.most_shared_track()
    if t0:
        out.append(("remove_track(in 3+ crates)", "rmtrack %s" % t0))
    sub = h.heaviest_subtree()
    if sub:
        # renaming / moving a crate that has sub-crates rewrites the paths of the whole subtree (1.x update_path)
        out.append(("crate.set_name(with sub-crates)", "rename %s %s" % (sub, G.hx(h.fresh_name(h.crates[sub])))))
        out.append(("remove_crate(subtree with tracks)", "rmcrate %s" % sub))
    # a leaf crate that holds tracks, and a crate that is not the last among its siblings: looked for in the whole
    # state (the enriched prior states contain both; which crate it is does not matter)
    leaves = sorted(c for c in h.crates if not h.descendants(c) and h.members_of(c))
    if leaves:
        out.append(("remove_crate(leaf with tracks)", "rmcrate %s" % leaves[0]))
    done = False
    for par in [sub] + sorted(c for c in h.crates if c != sub) + [None]:
        kids = sorted(h.siblings(par)) if (par is None or par in h.crates) else []
        if len(kids) >= 2 and not done:
            n0 = len(out)
            inst("setparent", tries=12, want="crate.set_parent", c=kids[len(kids) // 2 - (len(kids) % 2 == 0)])
            if len(out) > n0 and out[-1][0] == "crate.set_parent":
                out[-1] = ("crate.set_parent(non-last sibling)", out[-1][1])
                done = True
    inst("mktrack", rich=True); out[-1] = ("create_track(rich)", out[-1][1])
    inst("mktrack", rich=False); out[-1] = ("create_track(minimal)", out[-1][1])
    inst("update"); inst("rmtrack")
    for f in G.SETTER_FIELDS:
        # on the track that has every optional field (so that e.g. set_waveform, which needs a sample count and
        # rate, is applicable in every state); other tracks are covered by the random histories
        inst("set", field=f, t=h.full_track if h.full_track in h.tracks else None)
    return out


MARK = ("#before", "#after", "#retry")


def fault_script(schema, hist_lines, op_line, k):
    return (["create %s mem" % schema] + hist_lines +
            ["#before", "fullobs", "trace on", "fault %d" % k, op_line, "fault.status", "trace get", "trace off",
             "autocommit", "#after", "fullobs", "#retry", op_line, "autocommit", "fullobs"])


def shape_script(schema, hist_lines, op_line):
    return (["create %s mem" % schema] + hist_lines +
            ["#before", "fullobs", "trace on", op_line, "trace get", "trace off", "autocommit", "#after", "fullobs"])


def kinds_of(trace):
    return [] if trace in ("-", "") else trace.split(",")


def parse_obs(o):
    """'ok api=.. uuid=.. raw=.. tables=a:h,b:h' -> dict"""
    if not o.startswith("ok "):
        return None
    d = dict(kv.split("=", 1) for kv in o[3:].split(" ") if "=" in kv)
    d["tables"] = dict(t.rsplit(":", 1) for t in d.get("tables", "").split(",") if ":" in t)
    return d


def changed_tables(a, b):
    return sorted(t for t in set(a["tables"]) | set(b["tables"]) if a["tables"].get(t) != b["tables"].get(t))


def judge_fault(lines, outs):
    """Evaluate one fault experiment from its script and harness outputs.
    Returns dict(status=..., problems=[...], ...).  Pure function of (lines, outs): used by tie and replay."""
    ib, ia, ir = (lines.index(m) for m in MARK)
    if any(o.startswith(("ub ", "skipped-after-crash", "missing-output", "bad-op")) for o in outs[:ib]):
        return {"status": "history-crash"}
    before, fired, trace, auto = parse_obs(outs[ib + 1]), outs[ib + 5], outs[ib + 6], outs[ib + 8]
    opres = outs[ib + 4]
    after = parse_obs(outs[ia + 1])
    retry, auto2, final = outs[ir + 1], outs[ir + 2], parse_obs(outs[ir + 3]) if len(outs) > ir + 3 else None
    r = {"status": "ok", "problems": [], "op_result": opres, "trace": trace[3:] if trace.startswith("ok ") else trace,
         "retry": retry, "final_api": final["api"] if final else None}
    if opres.startswith("ub ") or before is None or after is None:
        r["status"] = "crash"
        return r
    if "fired=1" not in fired:
        r["status"] = "not-fired"
        return r
    if not opres.startswith("throw"):
        r["problems"].append(("not-reported", "the failing statement was not reported: call returned '%s'" % opres[:60]))
    if before["api"] != after["api"] or before["raw"] != after["raw"] or before["uuid"] != after["uuid"] \
            or before.get("held") != after.get("held"):
        what = "API observation differs" if (before["api"] != after["api"] or before.get("held") != after.get("held")) \
            else "raw tables differ (API observation equal)"
        r["problems"].append(("partial-update", "%s after the failed call; tables changed: %s" % (
            what, ",".join(changed_tables(before, after)) or "-")))
        r["api_changed"] = before["api"] != after["api"] or before.get("held") != after.get("held")
    if auto != "ok 1":
        r["problems"].append(("transaction-left-open", "connection not in autocommit state after the failed call (%s)" % auto))
    if not retry.startswith("ok"):
        r["problems"].append(("unusable", "the same call, repeated without fault, fails: %s" % retry[:60]))
    elif auto2 != "ok 1":
        r["problems"].append(("transaction-left-open", "connection not in autocommit state after the retry"))
    return r


def grep_raw_transactions():
    """BEGIN/COMMIT/ROLLBACK/SAVEPOINT statements issued anywhere but util::sqlite_transaction."""
    hits = []
    root = os.path.join(REPO, "src", "djinterop")
    pat = re.compile(r'"\s*(BEGIN|COMMIT|END|ROLLBACK|SAVEPOINT|RELEASE)\b', re.I)
    for dp, _, fs in os.walk(root):
        if os.sep + "schema" in dp:
            continue   # schema creators: DDL run at creation time, outside the public mutating calls
        for f in fs:
            if f.endswith((".cpp", ".hpp")) and f != "sqlite_transaction.hpp":
                for i, l in enumerate(open(os.path.join(dp, f), errors="replace")):
                    if pat.search(l):
                        hits.append("%s:%d" % (os.path.relpath(os.path.join(dp, f), REPO), i + 1))
    return hits


MULTI_ROW_OPS = ["crate.set_name(with sub-crates)", "crate.clear_tracks(3+ tracks)", "crate.remove_track(first of 3+)", "crate.remove_track(middle of 3+)",
                 "crate.remove_track(last of 3+)", "remove_track(in 3+ crates)", "remove_crate(subtree with tracks)",
                 "remove_crate(leaf with tracks)", "crate.set_parent(non-last sibling)"]
EXPECTED_OPS = MULTI_ROW_OPS + ["create_root_crate", "create_root_crate_after", "create_sub_crate", "create_sub_crate_after",
                "crate.set_name", "crate.set_parent", "crate.set_parent(root)", "remove_crate", "crate.add_track",
                "crate.add_track(again)", "crate.remove_track", "crate.clear_tracks", "create_track(rich)",
                "create_track(minimal)", "track.update", "remove_track"] + ["track.set_" + f for f in G.SETTER_FIELDS]


def run_corpus():
    """Witnesses of repaired defects (corpus/C14/*.txt): each must now pass."""
    d = os.path.join(VERIF, "corpus", "C14")
    res, viol = {}, []
    if not os.path.isdir(d):
        return res, viol
    files = sorted(f for f in os.listdir(d) if f.endswith(".txt"))
    scripts = []
    for f in files:
        body = open(os.path.join(d, f)).read().split("----\n", 1)[1].split("\n")
        scripts.append([l for l in body if l.strip() and not l.startswith("# ")])
    for f, sc, (o, _) in zip(files, scripts, runner.run_harness(scripts)):
        j = judge_fault(sc, o)
        res[f] = j["status"] if j["status"] != "ok" else ("clean" if not j["problems"] else "+".join(t for t, _ in j["problems"]))
        for tag, text in j.get("problems", []):
            fam, opn = f[:2], f[3:-4]
            viol.append({"tag": tag, "signature": {"family": fam, "op": ("track." if opn.startswith("set_") else "") + opn, "effect": tag},
                         "header": {"kind": "script", "what": "corpus witness %s: %s" % (f, text)}, "body": sc})
    return res, viol


def tie(ctx):
    rng = random.Random(ctx.seed * 1000003 + 14)
    thorough = ctx.tier == "thorough"
    schemas = G.pick_schemas(ctx.tier, ctx.seed)
    n_states = 4 if thorough else 2
    # ---- pass 1: record the shape of every operation in every state
    cases = []   # dict(schema, state, hist, opname, line)
    state_shapes = []
    newest = {G.SCHEMAS_V1[-1], G.SCHEMAS_V2[-1]}
    for sch in schemas:
        # quick: two prior states on the newest version of each generation (every operation, every fault position),
        # one on the seeded other version; thorough: four on all 18
        for si in range(n_states if (thorough or sch in newest) else 1):
            h = G.gen_history(rng, sch, [6, 14, 24, 34][(si + ctx.seed) % 4], enrich=True)
            state_shapes.append(dict(h.shape(), schema=sch, calls=len(h.lines)))
            for opname, line in op_instances(rng, h):
                cases.append({"schema": sch, "state": si, "hist": list(h.lines), "op": opname, "line": line})
    outs1 = runner.run_harness([shape_script(c["schema"], c["hist"], c["line"]) for c in cases])
    hist_status, shapes = {}, {}
    for c, (o, _) in zip(cases, outs1):
        s = shape_script(c["schema"], c["hist"], c["line"])
        ib, ia = s.index("#before"), s.index("#after")
        res = o[ib + 3]
        c["result"] = res
        if any(x.startswith(("ub ", "skipped", "missing", "bad-op")) for x in o[:ib]):
            c["status"] = "history-crash"
        elif res.startswith("ub ") or res.startswith("skipped") or res.startswith("bad-op"):
            c["status"] = "crash" if not res.startswith("bad-op") else "bad-op"
        else:
            c["status"] = "ok" if res.startswith("ok") else "rejected"
            c["trace"] = o[ib + 4][3:]
            c["before"], c["after"] = parse_obs(o[ib + 1]), parse_obs(o[ia + 1])
            c["autocommit"] = o[ib + 6]
        hist_status[c["status"]] = hist_status.get(c["status"], 0) + 1
    # ---- Lean: decide the shapes, predict every faulted run
    shape_set = sorted({c["trace"] for c in cases if c.get("trace") is not None})
    mlines = []
    for s in shape_set:
        mlines += ["txn.shape " + s, "txn.faults " + s, "txn.closed " + s]
    mo = runner.run_model_script(mlines) if mlines else []
    lean = {}
    for i, s in enumerate(shape_set):
        lean[s] = {"atomic": mo[3 * i] == "ok atomic", "n": int(mo[3 * i + 1].split()[1]) if mo[3 * i + 1].startswith("ok ") else -1,
                   "closed": mo[3 * i + 2] == "ok closed", "raw": mo[3 * i:3 * i + 3]}
    divergences, violations = [], []
    corpus_res, corpus_viol = run_corpus()
    violations += corpus_viol
    for s in shape_set:
        if lean[s]["n"] < 0 or not lean[s]["raw"][0].startswith("ok "):
            divergences.append({"input": "txn.shape " + s, "impl": "observed statement kinds", "model": " | ".join(lean[s]["raw"])})
    plines = []
    for s in shape_set:
        for k in range(max(lean[s]["n"], 0)):
            plines.append("txn.exec %d 0 %s" % (k, s))
    po = runner.run_model_script(plines) if plines else []
    pred = {}
    for l, o in zip(plines, po):
        _, k, _, s = l.split(" ")
        m = re.match(r"ok raised=(\d) changed=(\d) autocommit=(\d) durable=(\S+) trace=(\S+)", o)
        pred[(s, int(k))] = dict(raised=m.group(1) == "1", changed=m.group(2) == "1", autocommit=m.group(3) == "1",
                                 trace=m.group(5)) if m else None
    # sanity of the driver against the exactness theorem: atomic <-> no plan changes anything / leaves a txn open
    for s in shape_set:
        if lean[s]["n"] >= 0 and lean[s]["closed"]:
            allgood = all(pred.get((s, k)) and not pred[(s, k)]["changed"] and pred[(s, k)]["autocommit"]
                          for k in range(lean[s]["n"]))
            if allgood != lean[s]["atomic"]:
                divergences.append({"input": s, "impl": "txn.exec sweep says %s" % allgood, "model": "txn.shape says %s" % lean[s]["atomic"]})
    # ---- the concrete statement programs (Lean: Api/CratesV1Stmts, Db/V2CratesStmts, ...): the skeleton of every
    # observed call (reads dropped, the writes of one scope counted once — C14_skeleton_decides) must be one the
    # model's operation can have (C14_crates_v1_skeleton, C14_crates_v2_skeleton, ...)
    sk_lines = ["c14.skel " + s for s in shape_set]
    sk_out = runner.run_model_script(sk_lines) if sk_lines else []
    skel = {s: (o[3:] if o.startswith("ok ") else None) for s, o in zip(shape_set, sk_out)}
    op_keys = sorted({(G.family(c["schema"]), re.sub(r"\(.*\)$", "", c["op"])) for c in cases})
    al_out = runner.run_model_script(["c14.allowed %s %s" % k for k in op_keys]) if op_keys else []
    allowed = {k: (o[3:].split("|") if o.startswith("ok ") and o != "ok unmodelled" else None) for k, o in zip(op_keys, al_out)}
    skel_hist, unmodelled = {}, set()
    for c in cases:
        if c["status"] != "ok":
            continue
        key = (G.family(c["schema"]), re.sub(r"\(.*\)$", "", c["op"]))
        sk = skel.get(c["trace"])
        skel_hist.setdefault("%s %s" % key, {})
        skel_hist["%s %s" % key][sk] = skel_hist["%s %s" % key].get(sk, 0) + 1
        if allowed.get(key) is None:
            unmodelled.add("%s %s" % key)
        elif sk not in allowed[key]:
            divergences.append({"input": "%s | %s | %s" % (c["schema"], c["op"], c["line"][:60]),
                                "impl": "observed statements %s, skeleton %s" % (c["trace"][:80], sk),
                                "model": "the model's statement program has skeleton %s" % " or ".join(allowed[key])})
    if unmodelled:
        divergences.append({"input": "c14.allowed", "impl": "public mutating operations exercised: " + ", ".join(sorted(unmodelled))[:300],
                            "model": "no concrete statement program for them (Lean driver answers 'unmodelled')"})
    # ---- fault-free run checks
    for c in cases:
        if c["status"] == "rejected":
            if c["before"] and c["after"] and (c["before"]["api"] != c["after"]["api"] or c["before"]["raw"] != c["after"]["raw"]):
                violations.append(mk_violation(c, None, "self-throw-partial",
                                               "the call threw by itself (%s) and changed the database: %s" % (
                                                   c["result"], ",".join(changed_tables(c["before"], c["after"])))))
        if c["status"] in ("ok", "rejected") and c["autocommit"] != "ok 1":
            violations.append(mk_violation(c, None, "transaction-left-open", "a transaction is open after the call returned"))
    # ---- pass 2: a fault at every position of every recorded call
    exps = []
    for c in cases:
        if c["status"] == "ok":
            for k in range(max(lean[c["trace"]]["n"], 0)):
                exps.append((c, k))
    outs2 = runner.run_harness([fault_script(c["schema"], c["hist"], c["line"], k) for c, k in exps])
    verdict_hist, op_positions, shape_hist = {}, {}, {}
    per_case = {}
    for (c, k), (o, _) in zip(exps, outs2):
        script = fault_script(c["schema"], c["hist"], c["line"], k)
        j = judge_fault(script, o)
        p = pred.get((c["trace"], k))
        key = (c["op"], G.family(c["schema"]))
        op_positions[key] = op_positions.get(key, 0) + 1
        st = j["status"]
        if st == "ok":
            tags = [t for t, _ in j["problems"]]
            st = "clean" if not tags else "+".join(sorted(set(tags)))
            # model of the faulted run vs the real statement trace (non-read kinds)
            real = [x for x in kinds_of(j["trace"]) if x not in ("read",)]
            model = [x for x in kinds_of(p["trace"]) if x not in ("read",)] if p else None
            if model is not None and real != model:
                divergences.append({"input": "%s | fault %d | %s" % (c["schema"], k, c["line"][:80]),
                                    "impl": "trace " + ",".join(real), "model": "trace " + ",".join(model)})
            changed = any(t == "partial-update" for t in tags)
            if p and not p["changed"] and changed:
                divergences.append({"input": "%s | fault %d | %s" % (c["schema"], k, c["line"][:80]),
                                    "impl": "database changed", "model": "unchanged for shape " + c["trace"]})
            if p and p["changed"] and not changed:
                st = "latent(model:changed,observed:unchanged)"
            # a retry must give the fault-free answer and state
            if not j["problems"] and (j["retry"] != c["result"] or (j["final_api"] and c["after"] and j["final_api"] != c["after"]["api"])):
                j["problems"].append(("retry-differs", "repeating the call after the failure gives '%s' / a different state "
                                      "than the fault-free call '%s'" % (j["retry"][:40], c["result"][:40])))
                st = "retry-differs"
            for tag, text in j["problems"]:
                violations.append(mk_violation(c, k, tag, text, script, o))
        elif st == "not-fired":
            divergences.append({"input": "%s | fault %d | %s" % (c["schema"], k, c["line"][:80]),
                                "impl": "fault did not fire (statement sequence not reproducible)", "model": c["trace"]})
        verdict_hist[st] = verdict_hist.get(st, 0) + 1
        per_case.setdefault(id(c), []).append(st)
    # ---- agreement of the two verdicts per recorded call
    agree = {"atomic&clean": 0, "nonatomic&partial": 0, "nonatomic&latent": 0, "atomic&partial": 0}
    for c in cases:
        if c["status"] != "ok":
            continue
        sts = per_case.get(id(c), [])
        bad = any(("partial-update" in s or "transaction-left-open" in s or "not-reported" in s) for s in sts)
        atomic = lean[c["trace"]]["atomic"]
        kk = ("atomic" if atomic else "nonatomic") + "&" + ("partial" if bad else ("clean" if atomic else "latent"))
        agree[kk] = agree.get(kk, 0) + 1
        fam = G.family(c["schema"])
        shape_hist.setdefault("%s %s" % (fam, c["op"]), {}).setdefault(
            ",".join(x for x in kinds_of(c["trace"]) if x != "read") or "-", 0)
        shape_hist["%s %s" % (fam, c["op"])][",".join(x for x in kinds_of(c["trace"]) if x != "read") or "-"] += 1
        if atomic and bad:
            divergences.append({"input": "%s | %s" % (c["schema"], c["line"][:80]), "impl": "partial update observed",
                                "model": "atomicShape accepts " + c["trace"]})
    writes_per_call = {}
    for c in cases:
        if c["status"] == "ok":
            k = "%s %s" % (G.family(c["schema"]), c["op"])
            n = sum(1 for x in kinds_of(c["trace"]) if x == "write")
            writes_per_call.setdefault(k, {})
            writes_per_call[k][str(n)] = writes_per_call[k].get(str(n), 0) + 1
    raw_txn = grep_raw_transactions()
    if raw_txn:
        divergences.append({"input": "grep BEGIN/COMMIT/ROLLBACK outside util::sqlite_transaction", "impl": ", ".join(raw_txn[:5]),
                            "model": "all scopes are RAII"})
    # one violation per (op, family, tag)
    seen, vout = set(), []
    for v in violations:
        key = (v["signature"]["op"], v["signature"]["family"], v["signature"]["effect"])
        if key not in seen:
            seen.add(key)
            vout.append(v)
    ops_covered = sorted({c["op"] for c in cases if c["status"] == "ok"})
    uncovered = sorted("%s %s" % (fam, o) for fam in ("v1", "v2") for o in EXPECTED_OPS
                       if not any(c["status"] == "ok" and c["op"] == o and G.family(c["schema"]) == fam for c in cases))
    if uncovered:
        divergences.append({"input": "coverage of the operation list", "impl": "never exercised successfully: " + ", ".join(uncovered),
                            "model": "every public mutating operation in both generations"})
    distinct = len({(c["schema"], c["op"], c["trace"], k) for c, k in exps})
    return {
        "ok": not divergences and not vout,
        "evaluations": len(exps),
        "distinct_nontrivial": distinct,
        "rule": "fault experiments = (schema version, prior state, public mutating operation, position k of the failing "
                "statement), every k of every recorded call; distinct = distinct (schema, operation, observed shape, k); "
                "non-trivial = the fault fired inside the call",
        "samples": [fault_script(c["schema"], c["hist"][:3] + ["..."], c["line"][:100], k)[-14:-9] for c, k in exps[:2]],
        "histograms": {
            "schemas": schemas, "states_per_schema": n_states, "operations_recorded": len(cases),
            "operation_status": hist_status, "operations_covered": ops_covered, "operations_uncovered": uncovered,
            "corpus": corpus_res,
            "fault_enumeration": {"operations_x_states": sum(1 for c in cases if c["status"] == "ok"),
                                  "fault_positions_total": len(exps),
                                  "positions_per_op_family": {"%s %s" % (f, o): n for (o, f), n in sorted(op_positions.items())}},
            "prior_state_shapes": state_shapes,
            "writing_statements_per_call(op -> {number of writes: calls})": writes_per_call,
            "calls_with_3+_writes": sum(v for d in writes_per_call.values() for n, v in d.items() if int(n) >= 3),
            "fault_verdicts": verdict_hist, "lean_vs_observed": agree,
            "observed_shapes(non-read kinds)": shape_hist,
            "lean_shapes": {s: ("atomic" if lean[s]["atomic"] else "nonatomic") for s in shape_set},
            "skeletons(op -> observed skeleton: calls)": skel_hist,
            "model_skeletons(op -> allowed by the concrete statement program)": {"%s %s" % k: v for k, v in allowed.items() if v},
            "operations_without_concrete_program": sorted(unmodelled),
        },
        "divergences": divergences[:20],
        "violations": vout,
        "self_test": SELF_TEST,
        "exhaustive": True,
    }


def mk_violation(c, k, tag, text, script=None, outs=None):
    fam = G.family(c["schema"])
    opn = re.sub(r"\(.*\)$", "", c["op"])
    body = []
    if script:
        body += script
    else:
        body += shape_script(c["schema"], c["hist"], c["line"])
    body += ["# operation: %s   schema: %s   fault position k: %s" % (c["op"], c["schema"], k),
             "# observed statement kinds of the fault-free call: %s" % c.get("trace"),
             "# verdict: %s" % text]
    if outs:
        body += ["# harness output: %s -> %s" % (l[:60], o[:160]) for l, o in zip(script, outs) if not l.startswith(("create", "mk", "#"))][-12:]
    return {"tag": tag, "signature": {"family": fam, "op": opn, "effect": tag},
            "header": {"kind": "script", "schema": c["schema"], "what": "%s: %s (k=%s): %s" % (fam, c["op"], k, text)},
            "body": body}


def replay(ctx, hdr, body):
    script = [l for l in body if not l.startswith("# ")]
    outs, _ = runner.run_harness_script(script)
    text = []
    for l, o in zip(script, outs):
        text.append("%s\n   -> %s" % (l[:200], o[:300]))
    if "#retry" in script:
        j = judge_fault(script, outs)
        ok = j["status"] == "ok" and not j["problems"]
        text.append("status: %s" % j["status"])
        for t, m in j.get("problems", []):
            text.append("PROBLEM %s: %s" % (t, m))
    else:
        ib, ia = script.index("#before"), script.index("#after")
        b, a = parse_obs(outs[ib + 1]), parse_obs(outs[ia + 1])
        res = outs[ib + 3]
        ok = not (res.startswith("throw") and b and a and (b["api"] != a["api"] or b["raw"] != a["raw"])) and outs[ib + 6] == "ok 1"
    text.append("recorded: %s" % hdr.get("what", ""))
    text.append("replay verdict: %s" % ("property holds on this input" if ok else "property violated on this input"))
    return ok, "\n".join(text)
