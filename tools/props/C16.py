"""C16 — Observing a library never modifies it."""
import os, random, re
from common import *
import runner
import monitors_gen as G

ID = "C16"
LEAN_MODULES = ["Properties.C16"]
THEOREMS = ["EngineModel.Properties.C16." + t for t in [
    "C16_observers_pure", "C16_observer_answer", "C16_observers_pure_any_plan", "C16_repeat", "C16_frame",
    "C16_no_write_no_change", "C16_api_observer", "C16_api_history", "C16_api_answers", "C16_crates_v1", "C16_crates_v2",
    "C16_tracks_v2", "C16_tracks_v1", "C16_load_database_pure", "C16_database_exists_pure", "C16_engine_library_load_pure",
    "C16_create_or_load_existing_pure", "C16_dir_repeat", "C16_load_unguarded_counterexample",
    "C16_engine_library_load_unguarded_counterexample"]]
ASSUMPTIONS = [
    "SqliteSemantics (modelled, Spec/Txn.lean): a statement SQLite classifies read-only (sqlite3_stmt_readonly) leaves "
    "the connection state as it was.  Checked on every monitored application against sqlite3_total_changes, the raw "
    "dump of every table of every attached database (C API, no library code) and the SHA-256 of the database files",
    "the statements of a call are the ones stepped through sqlite3_step (link-time wrapper); the plugin greps "
    "src/djinterop on every run for sqlite3_exec / other entry points that would bypass it",
    "the list of observing operations is complete: on every run the public headers (database.hpp, crate.hpp, "
    "track.hpp, engine.hpp, engine/v2/*_table.hpp, engine_library.hpp) are scanned and every member function must be "
    "classified observer (then it must have been exercised) or mutator",
    "directory shapes: file content is abstracted to absent / valid (written by the real creators) / zero bytes / "
    "garbage; symbolic links, permissions, concurrent writers and hot journals are not enumerated",
    "an observer's statement sequence may depend on the state (all distinct observed sequences are recorded and each "
    "one is decided by Lean)",
]
MANIFEST = dict(
    text="Theorems C16_observers_pure / C16_observer_answer / C16_repeat / C16_frame: in the uniform step over public "
         "operations (statement sequences on the modelled SQLite connection), an operation classified as observer — "
         "every statement it steps is read-only — is the identity on the connection state by proof, answers from the "
         "unchanged database, and any sequence of observers can be repeated / inserted / dropped without effect; "
         "C16_no_write_no_change extends this to calls that open scopes but never write, under every fault plan; "
         "C16_api_history / C16_api_answers (instances C16_crates_v1, C16_crates_v2, C16_tracks_v2) put the accessors of "
         "the concrete API models (1.x crates, 2.x crates, 2.x tracks) into that alphabet: interleaved anywhere in a "
         "history of the model's mutating calls they leave the state the mutating calls alone produce and answer from "
         "it. Tied to the code by applying "
         "every read-only operation of database, crate, track, the engine entry points (database_exists, load_database, "
         "create_or_load_database on an existing library) and the 2.x table API twice on every visited state of "
         "generated histories on on-disk libraries: the observed statement-kind sequence of each application is decided "
         "by Lean's isObserver (so the theorem applies to exactly the observed shape) and, independently, "
         "sqlite3_total_changes delta = 0, equal answers, raw dump of every table identical, SHA-256 of the database "
         "files unchanged. Directory model (Spec/Dir.lean): C16_load_database_pure / C16_database_exists_pure / "
         "C16_engine_library_load_pure / C16_create_or_load_existing_pure: over a model of the library directory (m.db, "
         "p.db, Database2/, Database2/m.db each absent / valid / zero bytes / garbage) whose primitives create files as "
         "SQLite does, the static entry points leave every directory as it was (counterexamples for the code before "
         "fix 6269a0f and for seeded C16-2); tied by applying every static entry point that takes a directory twice to a "
         "fresh copy of all 81 directory shapes with a recursive listing + SHA-256 before/after as oracle and the model's "
         "answers + resulting directory compared on every probe. C16_tracks_v1: accessors of the 1.x track model.",
    note="Trusted/limits: the classification of a real statement as read-only is SQLite's sqlite3_stmt_readonly (checked "
         "against change counter, raw dump and file hash on every application, not proved); states are sampled "
         "(generated histories, every prefix), the for-all over states is proved for the model only; table-API states "
         "are those reachable through the public API plus table-API setter perturbations (tableapi.touch).",
    technique="Lean 4 theorems over an operation/connection model + run-time monitors on the real library (link-time "
              "sqlite3_step wrapper, total_changes, raw dumps through the C API, SHA-256 of the files)",
    ref="6/C16")
TRUSTED_EXTRA = ["harness/djv_wrap.cpp (sqlite3_step wrapper: statement kinds), harness/djv_monitors.cpp (observer "
                 "list, change counters, raw dumps, SHA-256), tools/monitors_gen.py (history generator)"]
STATELESS = False
SELF_TEST = {"recorded": "2026-09-29, scratch worktree of /repo, quick tier seed 1 (not re-run by the check)", "seeded_changes": {
    "seeded/sv-C16-getter-cache (2.x filename() rewrites the filename column)": "caught: track.filename, sqlite3_total_changes grew",
    "seeded/sv-C16-load-stamp (load_database increments a counter in Information)": "caught: engine.database_exists / load_database / create_or_load, SHA-256 of the files changed",
    "seeded/sv-C16-verify-analyze (verify() runs ANALYZE; also killed by the unit-test suite)": "caught: db.verify, raw dump differs",
    "seeded/sv-C16-exists-creates (database_exists through create_or_load_database)": "caught: engine.database_exists(no directory), a library appeared",
    "seeded/C16-2 (independent: load_database2_sqlite_database opens instead of path_exists)": "missed by round 1, caught by the directory-shape stream: v2.engine_library.load on 'Database2/ present and empty' creates Database2/m.db",
    "seeded/sv2-C16-revert-pdb-check (reverts fix 6269a0f)": "caught: load_database / database_exists on 'm.db valid, p.db absent' create p.db",
    "seeded/sv2-refactor-extra-select (behaviour preserving)": "green",
    "seeded/sv-refactor-getter-in-scope (behaviour preserving)": "green (no-write, closed shape)",
    "seeded/sv-refactor-reorder-writes (behaviour preserving)": "green"}}

# ---- static route (work-package sqlsites, design/sqlsites.md): no observing entry point can reach a writing statement
import tr_sqlsites as _sqs
LEAN_MODULES = LEAN_MODULES + ["Properties.C16Sites"]
THEOREMS = THEOREMS + ["EngineModel.Properties.C16Sites." + t for t in [
    "C16_sites_sound", "C16_sites_readonly_sound", "C16_sites_observers_read_only", "C16_sites_coverage"]]
TRANSLATORS = dict(globals().get("TRANSLATORS", {}), **{"sqlsites (engine v1/v2 impl + table classes -> Gen/SqlSites.lean)": _sqs.regenerate})
ASSUMPTIONS = ASSUMPTIONS + [
    "static route: the AST -> skeleton mapping of tools/tr_sqlsites.py is trusted (statement sites classified read / write "
    "by the leading SQL keyword of the first string literal, SELECT / PRAGMA = read; calls resolved transitively through "
    "mangled names; the schema validators are summarised as read*); the static entry points that take a directory "
    "(database_exists, load_database, ...) are not on this route (directory model + tie)",
]
MANIFEST = dict(MANIFEST, text=MANIFEST["text"] + " Static route (C16_sites_observers_read_only, C16_sites_sound): the "
                "skeleton of EVERY observing entry point (getters, listings, lookups, snapshot, verify of the impl classes of "
                "both generations; get* / find* / *_ids / exists / all / after / last of the 2.x table classes), calls resolved "
                "transitively, is regenerated from clang's typed AST on every run; none can reach a writing SQL statement "
                "site (`decide`), and a skeleton without one only has traces that leave the committed database unchanged "
                "under every fault plan (proved against Spec/Txn.lean).")

LETTER = {"r": "read", "w": "write", "b": "begin", "c": "commit", "k": "rollback"}


def kinds_text(shape):
    """'rrw' -> 'read,read,write' ('-' stays '-'); None if a letter is unknown (savepoint, ?)"""
    if shape == "-":
        return "-"
    try:
        return ",".join(LETTER[ch] for ch in shape)
    except KeyError:
        return None


# ------------------------------------------------------------------ scripts
def state_block(v2):
    b = ["dirsha", "observers", "observers", "dirsha", "staticops", "dirsha"]
    if v2:
        b += ["tableapi.reads", "tableapi.reads", "dirsha"]
    return b


def build_script(schema, hist_lines, states=None):
    """create + for every prefix (or the prefixes in `states`) the monitor block."""
    v2 = G.family(schema) == "v2"
    sc = ["create %s disk" % schema]
    for i in range(len(hist_lines) + 1):
        if states is None or i in states:
            sc += ["#state %d" % i] + state_block(v2)
        if i < len(hist_lines):
            sc.append(hist_lines[i])
    return sc


ENTRY = re.compile(r"^(\S+?):([rwbcks?|\-]+|none):(-?\d+):([01]):(same|differs|-)$")


def parse_mon(line):
    """'ok name:shapes:changes:stable:files ... answers=h [raw=same n=a+b]' -> dict or None"""
    if not line.startswith("ok "):
        return None
    ent, extra = [], {}
    for tok in line[3:].split(" "):
        m = ENTRY.match(tok)
        if m and m.group(2) == "none":
            continue        # not applied in this state (no crate / track)
        elif m:
            ent.append(dict(name=m.group(1), shapes=m.group(2).split("|"), changes=int(m.group(3)),
                            stable=m.group(4) == "1", files=m.group(5)))
        elif "=" in tok:
            k, v = tok.split("=", 1)
            extra[k] = v
    return {"entries": ent, **extra}


def judge_state(lines, outs):
    """One monitor block (lines/outs from its '#state' marker on).  Pure function of the harness output.
    Returns (problems, entries) with problems = [(tag, observer, text)], entries = [(group, entry)]."""
    problems, entries = [], []
    sha = [o for l, o in zip(lines, outs) if l == "dirsha"]
    cmds = [(l, o) for l, o in zip(lines, outs) if l != "dirsha" and not l.startswith("#")]
    idx = {}
    for l, o in cmds:
        idx.setdefault(l.split(" ")[0], []).append(o)
    for l, o in zip(lines, outs):
        if o.startswith(("ub ", "skipped", "missing", "bad-op", "throw")) and not l.startswith("#"):
            problems.append(("monitor-failed", l, "monitor command '%s' answered '%s'" % (l, o[:80])))
    if problems:
        return problems, entries
    # position of the dirsha lines around each group
    groups, pos, nsha = [], 0, 0
    for l in lines:
        if l == "dirsha":
            nsha += 1
        elif not l.startswith("#"):
            groups.append((l.split(" ")[0], nsha))     # group name, number of dirsha lines before it
    for g in sorted(set(n for n, _ in groups)):
        runs = [parse_mon(o) for o in idx[g]]
        before = min(k for n, k in groups if n == g) - 1
        after = max(k for n, k in groups if n == g)
        for r in runs:
            for e in r["entries"]:
                entries.append((g, e))
                if e["changes"] != 0:
                    problems.append(("modified", e["name"], "sqlite3_total_changes grew by %d while %s was applied" % (e["changes"], e["name"])))
                if not e["stable"]:
                    problems.append(("answers-differ", e["name"], "%s gave two different answers on the same state" % e["name"]))
                if e["files"] == "differs":
                    problems.append(("modified", e["name"], "the SHA-256 of the database files changed while %s was applied" % e["name"]))
            if r.get("raw") == "differs":
                problems.append(("modified", g, "the raw dump of the tables differs after the %s group" % g))
        if len(runs) > 1 and len({r.get("answers") for r in runs}) > 1:
            problems.append(("answers-differ", g, "the %s group answered differently when repeated" % g))
        if 0 <= before < len(sha) and after < len(sha) and sha[before] != sha[after]:
            problems.append(("modified", g, "the SHA-256 of the database files changed across the %s group" % g))
    return problems, entries


def split_states(script, outs):
    """-> [(state index, lines, outs)] for each '#state i' block (up to the next history op)."""
    res, cur = [], None
    for l, o in zip(script, outs):
        if l.startswith("#state "):
            cur = (int(l.split()[1]), [], [])
            res.append(cur)
        elif cur is not None and (l == "dirsha" or l.split(" ")[0] in ("observers", "staticops", "tableapi.reads")):
            cur[1].append(l)
            cur[2].append(o)
        else:
            cur = None
    return res


# ------------------------------------------------------------------ completeness of the observer list
OBS_CORE = {
    "database.hpp": (["crate_by_id", "crates", "crates_by_name", "directory", "root_crate_by_name", "root_crates",
                      "track_by_id", "tracks", "tracks_by_relative_path", "uuid", "verify", "version_name"], "db."),
    "crate.hpp": (["children", "db", "descendants", "id", "is_valid", "name", "parent", "sub_crate_by_name", "tracks"], "crate."),
    "track.hpp": (["album", "artist", "average_loudness", "beatgrid", "bitrate", "bpm", "comment", "composer",
                   "containing_crates", "db", "duration", "file_extension", "filename", "genre", "hot_cue_at", "hot_cues",
                   "id", "is_valid", "key", "last_played_at", "loop_at", "loops", "main_cue", "publisher", "rating",
                   "relative_path", "sample_count", "sample_rate", "snapshot", "title", "track_number", "waveform", "year"], "track."),
}
MUT_CORE = {
    "database.hpp": ["create_root_crate", "create_root_crate_after", "create_track", "remove_crate", "remove_track"],
    "crate.hpp": ["add_track", "add_tracks", "clear_tracks", "create_sub_crate", "create_sub_crate_after", "remove_track",
                  "set_name", "set_parent"],
    "track.hpp": ["update"],
}
TABLE_HDR = {"engine/v2/track_table.hpp": "track.", "engine/v2/playlist_table.hpp": "playlist.",
             "engine/v2/playlist_entity_table.hpp": "playlist_entity.", "engine/v2/information_table.hpp": "information.",
             "engine/v2/change_log_table.hpp": "change_log."}
IGNORE = {"for", "if", "while", "return", "print", "tie", "operator", "sizeof", "noexcept", "explicit", "defined", "what"}


def header_methods(rel):
    try:
        s = open(os.path.join(REPO, "include", "djinterop", rel)).read()
    except OSError:
        return None
    s = re.sub(r"/\*.*?\*/", "", s, flags=re.S)
    s = "\n".join(l.split("//")[0] for l in s.split("\n"))
    return sorted(set(re.findall(r"\b([a-z_][a-z0-9_]*)\s*\(", s)) - IGNORE)


def is_table_observer(n):
    return n.startswith("get") or n in ("exists", "all_ids", "all", "after", "last", "track_ids") or n.startswith("find_") \
        or n.endswith("_ids")


def is_table_mutator(n):
    return n.startswith(("set_", "add", "update", "remove", "clear"))


def check_completeness(seen_core, seen_table, seen_static):
    """Every public member function is an exercised observer or a known mutator."""
    missing = []
    for hdr, (obs, pre) in OBS_CORE.items():
        ms = header_methods(hdr)
        if ms is None:
            missing.append("%s: unreadable" % hdr)
            continue
        cls = hdr[:-4]
        for m in ms:
            if m == cls or m.startswith("set_") or m in MUT_CORE[hdr]:
                continue
            if m in obs:
                if pre + m not in seen_core:
                    missing.append("%s::%s is an observer but was not exercised" % (cls, m))
            else:
                missing.append("%s::%s is not classified (observer or mutator?)" % (cls, m))
    for hdr, pre in TABLE_HDR.items():
        ms = header_methods(hdr)
        if ms is None:
            missing.append("%s: unreadable" % hdr)
            continue
        for m in ms:
            if m.endswith(("_table", "_error")) or is_table_mutator(m):
                continue
            if is_table_observer(m):
                if pre + m not in seen_table:
                    missing.append("%s%s is an observer but was not exercised" % (pre, m))
            else:
                missing.append("%s%s is not classified (observer or mutator?)" % (pre, m))
    for m in ("engine.database_exists", "engine.load_database", "engine.create_or_load_database(existing)", "engine_library.exists"):
        if m not in seen_static:
            missing.append("%s was not exercised" % m)
    for m in ("lib.verify", "lib.directory", "lib.schema", "lib.exists", "lib.database"):
        if m not in seen_table:
            missing.append("engine_library %s was not exercised" % m)
    return missing


def grep_bypass():
    """SQLite entry points that would run statements outside the sqlite3_step wrapper."""
    hits = []
    pat = re.compile(r"\bsqlite3_(exec|get_table|blob_write|backup_step|wal_checkpoint\w*|db_config|file_control)\b")
    for root in (os.path.join(REPO, "src"), os.path.join(REPO, "ext", "sqlite_modern_cpp")):
        for dp, _, fs in os.walk(root):
            for f in fs:
                if f.endswith((".cpp", ".hpp", ".h")):
                    for i, l in enumerate(open(os.path.join(dp, f), errors="replace")):
                        if pat.search(l.split("//")[0]):
                            hits.append("%s:%d" % (os.path.relpath(os.path.join(dp, f), REPO), i + 1))
    return hits


# ------------------------------------------------------------------ static entry points x directory shapes
import itertools

DIR_SHAPES, SHAPE_WORD = G.DIR_SHAPES, G.SHAPE_WORD
# entry points of the harness (c16.entries) -> the public function they call
ENTRY_FUNCTION = {
    "engine.database_exists": "database_exists", "engine.load_database": "load_database",
    "engine.load_database(1-arg)": "load_database", "engine.load_and_observe": "load_database",
    "engine.create_or_load_database(1.x)": "create_or_load_database",
    "engine.create_or_load_database(2.x)": "create_or_load_database",
    "engine.create_or_load_database(3-arg)": "create_or_load_database",
    "v2.engine_library.exists": "exists", "v2.engine_library.load": "load", "v2.engine_library.load_and_observe": "load"}
# public functions that take a library directory: observers (never modify it), conditional observers
# (create_or_load_database: an observer whenever m.db or Database2/m.db is present) and creators
DIR_OBSERVERS = {"database_exists", "load_database", "load", "exists"}
DIR_CONDITIONAL = {"create_or_load_database"}
DIR_CREATORS = {"create_database", "create_database_from_scripts", "create"}
ENGINE_HEADERS_KNOWN = {"engine.hpp", "engine_schema.hpp", "base_engine_library.hpp", "v2/engine_library.hpp",
                        "v2/track_table.hpp", "v2/playlist_table.hpp", "v2/playlist_entity_table.hpp",
                        "v2/information_table.hpp", "v2/change_log_table.hpp", "v2/beat_data_blob.hpp", "v2/loops_blob.hpp",
                        "v2/overview_waveform_data_blob.hpp", "v2/quick_cues_blob.hpp", "v2/track_data_blob.hpp"}
LIB_METHODS_OBS = {"verify", "directory", "schema", "database", "track", "playlist", "playlist_entity", "information",
                   "change_log", "load", "exists"}
LIB_METHODS_OTHER = {"create", "create_temporary", "engine_library", "base_engine_library", "make_shared", "move"}


shape_text, library_present, parse_probe = G.shape_text, G.library_present, G.parse_probe


def judge_probe(sh, entry, d):
    """-> [(tag, text)]: the property text on one probe (observing = directory listing unchanged, same answer twice)"""
    fn = ENTRY_FUNCTION.get(entry, entry)
    if fn in DIR_CONDITIONAL and not library_present(sh):
        return []       # nothing there: create_or_load_database is a creator on this shape (C10's subject)
    out = []
    if d["before"] != d["after"]:
        out.append(("modified", "the directory changed while %s was applied to a directory with %s: [%s] -> [%s]" % (
            entry, shape_text(sh), d["l0"][:160], d["l1"][:200])))
    if d["a1"] != d["a2"]:
        out.append(("answers-differ", "%s answered %s, then %s on a directory with %s" % (entry, d["a1"][:60], d["a2"][:60], shape_text(sh))))
    return out


def scan_engine_headers(seen_functions):
    """every public header under include/djinterop/engine (any namespace: engine, engine::v1, engine::v2, ...) is a
    known one, and every function in them that takes a directory is classified and (observers) was exercised"""
    problems = []
    root = os.path.join(REPO, "include", "djinterop", "engine")
    found = set()
    for dp, _, fs in os.walk(root):
        for f in fs:
            rel = os.path.relpath(os.path.join(dp, f), root)
            found.add(rel)
            if rel not in ENGINE_HEADERS_KNOWN:
                problems.append("public header engine/%s is not classified (new namespace / new entry points?)" % rel)
                continue
            txt = open(os.path.join(dp, f), errors="replace").read()
            txt = re.sub(r"/\*.*?\*/", "", txt, flags=re.S)
            txt = "\n".join(l.split("//")[0] for l in txt.split("\n"))
            for m in re.finditer(r"\b([a-z_][a-z0-9_]*)\s*\(([^()]*)\)", txt):
                name, args = m.group(1), m.group(2)
                if not re.search(r"std::string\s*&\s*(db_)?directory\b", args):
                    continue
                if name in DIR_CREATORS:
                    continue
                if name in DIR_OBSERVERS | DIR_CONDITIONAL:
                    if name not in seen_functions:
                        problems.append("%s (engine/%s) takes a directory but was not exercised on the directory shapes" % (name, rel))
                else:
                    problems.append("%s (engine/%s) takes a directory and is not classified (observer / creator?)" % (name, rel))
    for rel in ("v2/engine_library.hpp", "base_engine_library.hpp"):
        ms = header_methods(os.path.join("engine", rel))
        for m in ms or []:
            if m not in LIB_METHODS_OBS | LIB_METHODS_OTHER and not m.endswith("_table"):
                problems.append("engine/%s: member %s is not classified (observer or mutator?)" % (rel, m))
    return problems


def dir_shape_stream(ctx, rng):
    """Every static entry point that takes a directory, applied twice to every directory shape (fresh copy each),
    with a recursive listing + SHA-256 of every file before / after as the oracle."""
    thorough = ctx.tier == "thorough"
    pairs = [(G.SCHEMAS_V1[-1 - (ctx.seed % 2)], G.SCHEMAS_V2[-1])] if not thorough else \
        [(G.SCHEMAS_V1[-1], G.SCHEMAS_V2[-1]), (G.SCHEMAS_V1[0], G.SCHEMAS_V2[0]), (rng.choice(G.SCHEMAS_V1[1:-1]), rng.choice(G.SCHEMAS_V2[1:-1])),
         (G.SCHEMAS_V1[-2], rng.choice(G.SCHEMAS_V2))]
    if not thorough:
        pairs.append((rng.choice(G.SCHEMAS_V1[:-2]), rng.choice(G.SCHEMAS_V2[:-1])))
    ent_out, _ = runner.run_harness_script(["c16.entries"])
    entries = ent_out[0][3:].split(",") if ent_out and ent_out[0].startswith("ok ") else []
    res = {"violations": [], "divergences": [], "evaluations": 0, "hist": {}, "probes": []}
    if not entries:
        res["divergences"].append({"input": "c16.entries", "impl": str(ent_out)[:80], "model": "the harness lists its directory entry points"})
        return res
    scripts, meta = [], []
    for pi, (s1, s2) in enumerate(pairs):
        # the second quick pair samples the shapes (every shape letter in every position still occurs)
        shapes = DIR_SHAPES if (thorough or pi == 0) else ["N0"] + rng.sample(DIR_SHAPES[1:], 16)
        for sh in shapes:
            scripts.append(["c16.probe %s %s %s %s" % (sh, en, s1, s2) for en in entries])
            meta.append((sh, s1, s2))
    outs = runner.run_harness(scripts, watchdog=30)
    answers = {}
    bad = {}        # (entry, tag) -> [(shape, line, text)]
    for (sh, s1, s2), sc, (o, _) in zip(meta, scripts, outs):
        for en, line, x in zip(entries, sc, o):
            d = parse_probe(x)
            res["evaluations"] += 1
            if d is None:
                res["divergences"].append({"input": line, "impl": x[:100], "model": "the probe answers"})
                continue
            cls = re.sub(r"_schema_\w+|_[0-9a-f]{16}.*", "", d["a1"])[:40]
            answers.setdefault(en, {}).setdefault(cls, 0)
            answers[en][cls] += 1
            res["probes"].append((sh, en, s1, s2, d))
            for tag, text in judge_probe(sh, en, d):
                bad.setdefault((en, tag), []).append((sh, line, text))
    for (en, tag), lst in sorted(bad.items()):
        sh, line, text = lst[0]
        shapes_hit = sorted({x[0] for x in lst})
        res["violations"].append({
            "tag": tag, "signature": {"family": "dir", "op": en, "effect": tag, "shapes": ",".join(shapes_hit)},
            "header": {"kind": "script", "what": "%s (%d directory shapes: %s)" % (text[:300], len(shapes_hit), ",".join(shapes_hit)[:120])},
            "body": [line, "# entry point: %s   directory: %s" % (en, shape_text(sh)), "# verdict: %s" % text,
                     "# all shapes showing it: %s" % ",".join(shapes_hit)]})
    # ---- the directory model (Lean, Spec/Dir.lean) on the same shapes: answers and the directory afterwards
    mlines = ["dir.run %s %s %s %s" % (sh, en, s1, s2) for sh, en, s1, s2, d in res["probes"]]
    mo = runner.run_model_script(mlines) if mlines else []
    agree = 0
    for (sh, en, s1, s2, d), ml, o in zip(res["probes"], mlines, mo):
        m = re.match(r"ok a1=(\S+) a2=(\S+) after=(\S+)$", o)
        if not m:
            res["divergences"].append({"input": ml, "impl": "probe answered", "model": o[:100]})
            continue
        full = en in ("engine.load_and_observe", "v2.engine_library.load_and_observe", "engine.load_database(1-arg)", "engine.create_or_load_database(3-arg)")
        def norm(x):
            return "loaded" if (full and x.startswith("loaded")) else x
        impl = (norm(G.answer_class(d["a1"])), norm(G.answer_class(d["a2"])), G.shape_of_listing(d["l1"]))
        model = (norm(m.group(1)), norm(m.group(2)), m.group(3))
        if en.endswith("load_and_observe") and model[0] == "loaded" and impl[2] == model[2]:
            # the model covers the load; reading a loaded but damaged library (e.g. an empty p.db) may throw
            impl = model
        if impl != model:
            res["divergences"].append({"input": ml, "impl": "a1=%s a2=%s after=%s" % impl, "model": "a1=%s a2=%s after=%s" % model})
        else:
            agree += 1
    res["model_agrees_on"] = agree
    seen_fn = {ENTRY_FUNCTION.get(e, e) for e in entries}
    for pb in scan_engine_headers(seen_fn):
        res["divergences"].append({"input": "public headers under include/djinterop/engine", "impl": pb,
                                   "model": "every public function that takes a directory is an exercised observer or a creator"})
    res["hist"] = {"schema_pairs": ["%s+%s" % p for p in pairs], "shapes": len(DIR_SHAPES), "entry_points": entries,
                   "probes": res["evaluations"], "answers_per_entry": answers, "directory_model_agrees_on(probes)": res.get("model_agrees_on", 0),
                   "create_or_load_judged_as_observer_on": sum(1 for sh in DIR_SHAPES if library_present(sh))}
    return res


# ------------------------------------------------------------------ the tie
def mk_violation(schema, body, tag, observer, text, state):
    fam = G.family(schema)
    return {"tag": tag, "signature": {"family": fam, "op": observer, "effect": tag},
            "header": {"kind": "script", "schema": schema, "what": "%s: %s at state %d: %s" % (fam, observer, state, text)},
            "body": list(body) + ["# schema: %s   observer: %s   state (prefix length): %d" % (schema, observer, state),
                                  "# verdict: %s" % text]}


def attribute(schema, hist_lines, state, group, tag):
    """A group-level problem (raw dump / file hash / repeated answers): find the single observers that reproduce it."""
    names = []
    o, _ = runner.run_harness_script(build_script(schema, hist_lines[:state], states={state}))
    for _, ls, os_ in split_states(build_script(schema, hist_lines[:state], states={state}), o):
        for l, x in zip(ls, os_):
            if l == group:
                r = parse_mon(x)
                names = [e["name"] for e in (r or {}).get("entries", [])]
                break
    culprits = []
    scripts = []
    for n in names:
        scripts.append(["create %s disk" % schema] + hist_lines[:state] + ["#state %d" % state, "dirsha", "%s %s" % (group, n), "%s %s" % (group, n), "dirsha"])
    for n, sc, (o, _) in zip(names, scripts, runner.run_harness(scripts)):
        blk = split_states(sc, o)
        if blk:
            p, _ = judge_state(blk[0][1], blk[0][2])
            if any(t == tag for t, _, _ in p):
                culprits.append((n, sc, p))
    return culprits


def run_corpus(ctx):
    """corpus/C16/*.txt: scripts that once showed a violation on a seeded change of /repo (kept as regression inputs):
    each is replayed first and must satisfy the oracle on the current tree."""
    d = os.path.join(VERIF, "corpus", ID)
    res, viol = {}, []
    if not os.path.isdir(d):
        return res, viol
    for f in sorted(x for x in os.listdir(d) if x.endswith(".txt")):
        txt = open(os.path.join(d, f)).read()
        head, body = txt.split("----\n", 1)
        hdr = dict(l.split(": ", 1) for l in head.split("\n") if ": " in l)
        lines = [l for l in body.split("\n") if l.strip()]
        ok, text = replay(ctx, hdr, lines)
        res[f] = "clean" if ok else "violated"
        if not ok:
            probs = [l for l in text.split("\n") if l.startswith("PROBLEM")]
            viol.append({"tag": "corpus", "signature": {"family": "corpus", "op": f, "effect": "violated"},
                         "header": {"kind": "script", "what": "corpus witness %s: %s" % (f, "; ".join(probs)[:300])},
                         "body": [l for l in lines if not l.startswith("# ")]})
    return res, viol


def tie(ctx):
    rng = random.Random(ctx.seed * 1000003 + 16)
    thorough = ctx.tier == "thorough"
    schemas = G.pick_schemas(ctx.tier, ctx.seed)
    n_hist = 2
    lengths = [70, 36] if thorough else [62, 22]    # history 0: seed + enrich + sweep (every mutating operation) + random
    cases = []
    for sch in schemas:
        for hi in range(n_hist):
            h = G.gen_history(rng, sch, lengths[hi % len(lengths)], enrich="early" if hi % 2 == 0 else False, sweep=hi % 2 == 0)
            lines = list(h.lines)
            if G.family(sch) == "v2":
                # rows the high-level API never produces: table-API setters on every track, twice along the history
                for pos, n in ((len(lines) * 2 // 3, rng.randrange(1000)), (len(lines) // 3, rng.randrange(1000))):
                    lines.insert(pos, "tableapi.touch %d" % n)
                h.ops_used["table-API setters (tableapi.touch)"] = 2
                # ... and a state only the two levels of the API together reach: a member track removed through
                # track_table::remove, which leaves its memberships behind (round 5, seeded C16-5: crate::tracks()
                # "cleaned up" such entries while listing)
                if len(cases) % 2 == 0:
                    lines.insert(len(lines) * 5 // 6, "tableapi.rmtrack")
                    h.ops_used["table-API track removal (tableapi.rmtrack)"] = 1
            cases.append({"schema": sch, "hist": lines, "ops": dict(h.ops_used)})
    scripts = [build_script(c["schema"], c["hist"]) for c in cases]
    outs = runner.run_harness(scripts, watchdog=60)
    violations, divergences = [], []
    corpus_res, corpus_viol = run_corpus(ctx)
    violations += corpus_viol
    shape_use = {}      # shape -> set of (family, observer)
    obs_apps, obs_shapes = {}, {}
    seen_core, seen_table, seen_static = set(), set(), set()
    states_visited, evaluations, distinct = 0, 0, set()
    state_sizes, hist_ops, crashed, rejected = {}, {}, 0, 0
    pending = []        # (case, state, problems)
    for c, sc, (o, reps) in zip(cases, scripts, outs):
        fam = G.family(c["schema"])
        for k, v in c["ops"].items():
            hist_ops[k] = hist_ops.get(k, 0) + v
        bad_hist = [(l, x) for l, x in zip(sc, o) if not l.startswith("#") and l.split(" ")[0] not in ("dirsha", "observers", "staticops", "tableapi.reads")
                    and not x.startswith(("ok", "throw"))]
        rejected += sum(1 for l, x in zip(sc, o) if not l.startswith("#") and x.startswith("throw")
                        and l.split(" ")[0] not in ("dirsha", "observers", "staticops", "tableapi.reads"))
        if bad_hist:
            crashed += 1
            divergences.append({"input": "%s | %s" % (c["schema"], bad_hist[0][0][:80]), "impl": bad_hist[0][1][:80],
                                "model": "generated histories run without crash (an operation may throw: the state after it is visited too)"})
            continue
        for st, ls, os_ in split_states(sc, o):
            states_visited += 1
            problems, entries = judge_state(ls, os_)
            size = None
            for l, x in zip(ls, os_):
                if l == "observers":
                    size = (parse_mon(x) or {}).get("n")
                    ans = (parse_mon(x) or {}).get("answers")
            state_sizes[size] = state_sizes.get(size, 0) + 1
            for g, e in entries:
                evaluations += 1
                key = "%s %s" % (fam, e["name"])
                obs_apps[key] = obs_apps.get(key, 0) + 1
                for s in e["shapes"]:
                    shape_use.setdefault(s, set()).add(key)
                    obs_shapes.setdefault(key, set()).add(s if len(s) <= 12 else "%s*%d" % ("".join(sorted(set(s))), len(s)))
                {"observers": seen_core, "tableapi.reads": seen_table, "staticops": seen_static}[g].add(e["name"])
                if size not in (None, "0+0"):
                    distinct.add((c["schema"], ans, e["name"]))
            if problems:
                pending.append((c, st, problems))
    # ---- Lean decides every observed shape
    shapes = sorted(shape_use)
    mlines, mshapes = [], []
    for s in shapes:
        kt = kinds_text(s)
        if kt is None:
            divergences.append({"input": "statement kinds '%s' of %s" % (s, ", ".join(sorted(shape_use[s]))[:120]),
                                "impl": "a statement kind outside the model's alphabet (savepoint / unknown)", "model": "begin|commit|rollback|write|read"})
        else:
            mlines.append("c16.run " + kt)
            mshapes.append(s)
    mo = runner.run_model_script(mlines) if mlines else []
    lean = {}
    for s, l, o in zip(mshapes, mlines, mo):
        m = re.match(r"ok observer=(\d) unchanged=(\d) repeat=(\d) nowrite=(\d) closed=(\d)", o)
        if not m:
            divergences.append({"input": l[:120], "impl": "observed statement kinds", "model": o[:120]})
            continue
        lean[s] = dict(observer=m.group(1) == "1", unchanged=m.group(2) == "1", repeat=m.group(3) == "1",
                       nowrite=m.group(4) == "1", closed=m.group(5) == "1")
        # the executable model agrees with its own theorem (C16_observers_pure / C16_repeat)
        if lean[s]["observer"] and not (lean[s]["unchanged"] and lean[s]["repeat"]):
            divergences.append({"input": l[:120], "impl": "-", "model": "isObserver but the model's run changed state: " + o})
    lean_hist = {"observer(read-only)": 0, "no-write,closed": 0, "writes-or-open": 0}
    nonobs = {}
    for s, v in lean.items():
        cls = "observer(read-only)" if v["observer"] else ("no-write,closed" if v["nowrite"] and v["closed"] else "writes-or-open")
        lean_hist[cls] += 1
        if cls != "observer(read-only)":
            for key in shape_use[s]:
                nonobs.setdefault(key, []).append((s, cls))
    # ---- violations (direct oracle), with a minimal script each
    bad_observers = set()
    handled = set()     # one minimal script per (family, observer or group, effect): the first state that shows it
    for c, st, problems in pending:
        for tag, who, text in problems:
            fam = G.family(c["schema"])
            if (fam, who, tag) in handled:
                continue
            handled.add((fam, who, tag))
            if tag == "monitor-failed":
                divergences.append({"input": "%s | state %d | %s" % (c["schema"], st, who), "impl": text, "model": "monitor commands answer"})
                continue
            body = build_script(c["schema"], c["hist"][:st], states={st})
            if who in ("observers", "staticops", "tableapi.reads"):
                cul = attribute(c["schema"], c["hist"], st, who, tag)
                if cul:
                    for n, sc2, p2 in cul[:3]:
                        bad_observers.add((fam, n))
                        violations.append(mk_violation(c["schema"], sc2, tag, n, [t for g2, _, t in p2 if g2 == tag][0], st))
                    continue
            bad_observers.add((fam, who))
            violations.append(mk_violation(c["schema"], body, tag, who, text, st))
    # ---- Lean's verdict vs the observed verdict
    for key, lst in sorted(nonobs.items()):
        fam, name = key.split(" ", 1)
        s, cls = lst[0]
        if cls == "no-write,closed":
            continue    # C16_no_write_no_change applies: scopes without a writing statement
        if (fam, name) not in bad_observers:
            divergences.append({"input": "%s %s steps %s" % (fam, name, kinds_text(s)[:100]),
                                "impl": "no modification observed (change counter, raw dump, file hash)",
                                "model": "not an observer shape: no theorem of C16 applies to this operation any more"})
    for fam, name in sorted(bad_observers):
        key = "%s %s" % (fam, name)
        if key in obs_shapes and key not in nonobs and name not in ("observers", "staticops", "tableapi.reads"):
            divergences.append({"input": key, "impl": "modification observed", "model": "every observed shape is read-only: "
                                "C16_observers_pure says unchanged (SQLite's read-only classification is wrong, or a write bypasses sqlite3_step)"})
    # ---- database_exists where there is nothing to load (no directory, empty directory, both layouts present):
    # it must answer, twice the same, and leave the directory as it is (in particular create nothing)
    nolib = []
    for pres in ("N0", "N", "LD"):
        s1, s2 = rng.choice(G.SCHEMAS_V1), rng.choice(G.SCHEMAS_V2)
        nolib.append((pres, ["c10.dir %s %s %s" % (pres, s1, s2), "dirsha", "exists", "exists", "dirsha"]))
    for (pres, sc), (o, _) in zip(nolib, runner.run_harness([x[1] for x in nolib])):
        evaluations += 1
        name = "engine.database_exists(%s)" % {"N0": "no directory", "N": "empty directory", "LD": "both layouts"}[pres]
        seen_static.add(name)
        if any(not x.startswith("ok") for x in o):
            divergences.append({"input": " | ".join(sc), "impl": " | ".join(x[:40] for x in o), "model": "monitor commands answer"})
        elif o[1] != o[4]:
            violations.append(mk_violation(sc[0].split(" ")[3], sc, "modified", name,
                                           "the directory content changed while database_exists was applied (%s -> %s)" % (
                                               o[1].split(" ", 2)[2], o[4].split(" ", 2)[2]), 0))
        elif o[2] != o[3]:
            violations.append(mk_violation(sc[0].split(" ")[3], sc, "answers-differ", name, "database_exists answered %s then %s" % (o[2], o[3]), 0))
    ds = dir_shape_stream(ctx, rng)
    violations += ds["violations"]
    divergences += ds["divergences"]
    evaluations += ds["evaluations"]
    for sh, en, s1, s2, d in ds["probes"]:
        if sh != "N0" and sh != "aaa":
            distinct.add((s1 + "+" + s2, sh, en))
    missing = check_completeness(seen_core, seen_table, seen_static)
    for m in missing:
        divergences.append({"input": "observer list vs public headers", "impl": m, "model": "every public member function is classified and every observer exercised"})
    byp = grep_bypass()
    if byp:
        divergences.append({"input": "grep sqlite3_exec & co in src/", "impl": ", ".join(byp[:5]), "model": "all statements go through sqlite3_step"})
    seen, vout = set(), []
    for v in violations:
        k = (v["signature"]["family"], v["signature"]["op"], v["signature"]["effect"])
        if k not in seen:
            seen.add(k)
            vout.append(v)
    return {
        "ok": not divergences and not vout,
        "evaluations": evaluations,
        "distinct_nontrivial": len(distinct),
        "rule": "evaluation = one observer of one monitor group on one visited state (applied twice to every crate / track / "
                "row of that state); distinct = distinct (schema, state fingerprint = hash of all answers, observer); "
                "non-trivial = the state holds at least one crate or track",
        "samples": [sc[:2] + ["..."] + sc[-8:] for sc in scripts[:2]],
        "histograms": {
            "schemas": schemas, "histories": len(cases), "corpus": corpus_res, "history_crashed": crashed, "history_ops_rejected(states after a throwing call are visited too)": rejected, "states_visited": states_visited,
            "state_sizes(crates+tracks)": {str(k): v for k, v in sorted(state_sizes.items(), key=lambda kv: str(kv[0]))},
            "history_operations": hist_ops,
            "observers_core": sorted(seen_core), "observers_static": sorted(seen_static), "observers_table_api": len(seen_table),
            "applications_per_observer": {"min": min(obs_apps.values()) if obs_apps else 0, "max": max(obs_apps.values()) if obs_apps else 0,
                                          "observers(family x name)": len(obs_apps)},
            "distinct_shapes": len(shapes), "lean_verdicts_on_shapes": lean_hist,
            "shapes_per_observer(sample)": {k: sorted(v)[:4] for k, v in sorted(obs_shapes.items())[:400] if len(v) > 1 or any(x not in ("r", "-") for x in v)},
            "completeness_problems": missing,
            "directory_shapes": ds["hist"],
        },
        "divergences": divergences[:20],
        "violations": vout,
        "self_test": SELF_TEST,
    }


def replay(ctx, hdr, body):
    script = [l for l in body if not l.startswith("# ")]
    outs, _ = runner.run_harness_script(script, watchdog=60)
    text, ok = [], True
    for l, o in zip(script, outs):
        text.append("%s\n   -> %s" % (l[:160], o[:400]))
    for l, o in zip(script, outs):
        if l.startswith("c16.probe "):
            _, sh, en = l.split(" ")[:3]
            d = parse_probe(o)
            if d is None:
                ok = False
                text.append("PROBLEM: the probe did not answer: %s" % o[:100])
            else:
                for tag, t in judge_probe(sh, en, d):
                    ok = False
                    text.append("PROBLEM %s: %s" % (tag, t))
    if script and script[0].startswith("c10.dir") and len(outs) >= 5:
        if outs[1] != outs[4] or outs[2] != outs[3]:
            ok = False
            text.append("PROBLEM: directory %s -> %s, answers %s / %s" % (outs[1][:30], outs[4][:30], outs[2], outs[3]))
    for st, ls, os_ in split_states(script, outs):
        problems, _ = judge_state(ls, os_)
        for tag, who, t in problems:
            ok = False
            text.append("PROBLEM at state %d: %s %s: %s" % (st, tag, who, t))
    text.append("recorded: %s" % hdr.get("what", ""))
    text.append("replay verdict: %s" % ("property holds on this input" if ok else "property violated on this input"))
    return ok, "\n".join(text)


# ---- additional parts (whole-library composite models); missing modules are skipped
from props import _extend
_extend.extend(globals(), [
    "C16_lib1",
    "C16_lib2",
])
