"""Shared generators / canonical text / oracles for the blob-codec properties C02..C05.

A value is a plain Python structure per kind; `text(kind, v)` is its canonical
line-protocol form (identical to harness/djv_values.hpp `wr` and the Lean driver),
so the harness's decoded output can be compared with the original as a string.
Doubles are always 16-hex-digit bit patterns (never Python floats), integers are
Python ints, byte strings are `bytes`.
"""
import random, re, struct

KINDS_V2 = ["v2.track", "v2.beat", "v2.cues", "v2.loops", "v2.ovw"]
KINDS_V1 = ["v1.track", "v1.beat", "v1.cues", "v1.loops", "v1.ovw", "v1.hires"]
KINDS = KINDS_V2 + KINDS_V1
RAW_KINDS = ("v2.loops", "v1.loops")          # stored uncompressed

NEG1 = "bff0000000000000"
ZERO = "0000000000000000"
NEGZERO = "8000000000000000"

I64_EDGES = [0, 1, -1, 2, 255, 256, 65535, 65536, 2 ** 31 - 1, 2 ** 31, -2 ** 31, -2 ** 31 - 1, 2 ** 32 - 1,
             2 ** 32, 2 ** 53, 2 ** 62, 2 ** 63 - 1, -2 ** 63, -2 ** 63 + 1, 0x0102030405060708, -0x0102030405060708]
I32_EDGES = [0, 1, -1, 2, 127, 128, 255, 256, 65535, 65536, 2 ** 31 - 1, -2 ** 31, -2 ** 31 + 1, 0x01020304,
             -0x01020304, 24]


def hexb(b: bytes) -> str:
    return b.hex() if b else "-"


def dbits(x: float) -> str:
    return "%016x" % struct.unpack(">Q", struct.pack(">d", x))[0]


def is_zero(h):
    return h in (ZERO, NEGZERO)


def is_nan(h):
    v = int(h, 16)
    return (v >> 52) & 0x7ff == 0x7ff and (v & ((1 << 52) - 1)) != 0


def f_key(h):
    v = int(h, 16)
    return v if v < 2 ** 63 else -(v - 2 ** 63)


def f_le(a, b):
    """C++ a <= b on bit patterns"""
    return not is_nan(a) and not is_nan(b) and f_key(a) <= f_key(b)


def f_eq(a, b):
    return not is_nan(a) and not is_nan(b) and f_key(a) == f_key(b)


DOUBLE_CLASSES = {
    "pos_zero": [ZERO], "neg_zero": [NEGZERO], "neg_one": [NEG1],
    "one": ["3ff0000000000000"], "pos_inf": ["7ff0000000000000"], "neg_inf": ["fff0000000000000"],
    "qnan": ["7ff8000000000000", "fff8000000000001", "7ffc0000deadbeef"],
    "snan": ["7ff0000000000001", "fff4000000000000", "7ff7ffffffffffff"],
    "subnormal": ["0000000000000001", "800fffffffffffff", "0008000000000000"],
    "min_normal": ["0010000000000000", "8010000000000000"],
    "max_normal": ["7fefffffffffffff", "ffefffffffffffff"],
    "near_neg_one": ["bff0000000000001", "bfefffffffffffff"],
    "typical": [dbits(44100.0), dbits(48000.0), dbits(1234.5), dbits(10584000.0), dbits(-0.125), dbits(1e300)],
}


class Gen:
    def __init__(self, rng, hist=None):
        self.r = rng
        self.hist = hist if hist is not None else {}

    def count(self, key, n=1):
        self.hist[key] = self.hist.get(key, 0) + n

    def f(self, avoid_neg1=False):
        r = self.r
        while True:
            c = r.random()
            if c < 0.45:
                cls = r.choice(list(DOUBLE_CLASSES))
                h = r.choice(DOUBLE_CLASSES[cls])
            elif c < 0.75:
                cls = "random_bits"
                h = "%016x" % r.getrandbits(64)
            else:
                cls = "typical"
                h = dbits(r.uniform(-1e3, 1e8))
            if avoid_neg1 and h == NEG1:
                continue
            self.count("double:" + cls)
            return h

    def i64(self):
        r = self.r
        if r.random() < 0.6:
            return r.choice(I64_EDGES)
        return r.randrange(-2 ** 63, 2 ** 63)

    def i32(self):
        r = self.r
        if r.random() < 0.6:
            return r.choice(I32_EDGES)
        return r.randrange(-2 ** 31, 2 ** 31)

    def u8(self):
        r = self.r
        return r.choice([0, 1, 2, 127, 128, 254, 255, r.randrange(256)])

    def color(self):
        return tuple(self.u8() for _ in range(4))

    def label(self, n=None):
        r = self.r
        if n is None:
            n = r.choice([0, 0, 1, 1, 2, 5, 17, 64, 127, 128, 200, 254, 255, 255, 256, 257, 300, r.randrange(0, 301)])
        c = r.random()
        if c < 0.3:
            b = bytes(r.randrange(256) for _ in range(n))
        elif c < 0.6:
            b = ("Cue é世界;/." * (n // 4 + 1)).encode()[:n]
        else:
            b = bytes(r.choice(b"abcXYZ 019;/.\x00\xff") for _ in range(n))
        self.count("label_len:%s" % ("0" if n == 0 else "1-255" if n <= 255 else ">255"))
        return b

    def extra(self):
        r = self.r
        c = r.random()
        if c < 0.5:
            n = 0
        elif c < 0.7:
            n = 9
        else:
            n = r.choice([1, 2, 3, 8, 16, 100, r.randrange(0, 400)])
        self.count("extra:%s" % ("empty" if n == 0 else "nonempty"))
        if c < 0.7 and n == 9:
            return bytes(9)
        return bytes(r.randrange(256) for _ in range(n))

    def nentries(self):
        n = self.r.choice([0, 0, 1, 2, 3, 7, 8, 8, 8, 9, 10, 11, 12])
        self.count("entries:%d" % n)
        return n

    # ------------------------------------------------------------ v2
    def v2_track(self):
        return dict(sr=self.f(), samples=self.i64(), key=self.i32(), lo=self.f(), mid=self.f(), hi=self.f(),
                    extra=self.extra())

    def v2_marker(self):
        return (self.f(), self.i64(), self.i32(), self.i32())

    def grid_len(self, big):
        r = self.r
        n = r.choice([0, 0, 1, 2, 2, 3, 5, 8, 40]) if not big else r.choice([1000, 5000, 40000])
        self.count("grid_len:%s" % ("0" if n == 0 else "1" if n == 1 else "2-40" if n <= 40 else ">40"))
        return n

    def v2_beat(self, big=False):
        return dict(sr=self.f(), samples=self.f(), flag=self.u8(),
                    dflt=[self.v2_marker() for _ in range(self.grid_len(big))],
                    adj=[self.v2_marker() for _ in range(self.grid_len(False))], extra=self.extra())

    def v2_cues(self, lens=None):
        n = self.nentries() if lens is None else len(lens)
        return dict(cues=[(self.label(None if lens is None else lens[i]), self.f(), self.color()) for i in range(n)],
                    adj=self.f(), flag=self.r.choice([0, 1, 1, 2, 255]), dflt=self.f(), extra=self.extra())

    def v2_loops(self, lens=None):
        n = self.nentries() if lens is None else len(lens)
        return dict(loops=[(self.label(None if lens is None else lens[i]), self.f(), self.f(), self.u8(), self.u8(),
                            self.color()) for i in range(n)], extra=self.extra())

    def wave_len(self, big):
        r = self.r
        n = r.choice([0, 0, 1, 2, 3, 10, 100, 1023, 1024, 1025]) if not big else r.choice([10000, 100000])
        self.count("wave_len:%s" % ("0" if n == 0 else "1-1024" if n <= 1024 else ">1024"))
        return n

    def v2_ovw(self, big=False):
        n = self.wave_len(big)
        return dict(spp=self.f(), pts=bytes(self.r.getrandbits(8) for _ in range(3 * n)),
                    mx=bytes(self.r.getrandbits(8) for _ in range(3)), extra=self.extra())

    # ------------------------------------------------------------ v1
    def optf(self):
        r = self.r
        c = r.random()
        if c < 0.25:
            return None
        if c < 0.33:
            return r.choice([ZERO, NEGZERO])
        return self.f()

    def v1_track(self):
        r = self.r
        sc = None if r.random() < 0.25 else (0 if r.random() < 0.1 else self.i64())
        key = None if r.random() < 0.25 else (0 if r.random() < 0.1 else self.i32())
        return dict(sr=self.optf(), sc=sc, loud=self.optf(), key=key)

    def v1_grid(self, big=False):
        r = self.r
        c = r.random()
        n = self.grid_len(big)
        if n == 0:
            return []
        # mostly valid (strictly increasing), sometimes broken in one specific way
        idx = r.choice([-4, 0, -2 ** 31, 7, r.randrange(-1000, 1000)])
        off = r.uniform(-1e5, 1e5)
        g = []
        for _ in range(n):
            g.append((idx, dbits(off)))
            idx = min(idx + r.choice([1, 4, 4, 16, 1000]), 2 ** 31 - 1)
            off += r.choice([1.0, 22050.0, 0.5, 1e-3])
        # index may have saturated: keep only the strictly increasing prefix
        out = [g[0]]
        for m in g[1:]:
            if m[0] > out[-1][0]:
                out.append(m)
        g = out
        if c < 0.12 and len(g) >= 2:
            k = r.randrange(1, len(g))
            how = r.choice(["dup_index", "dec_index", "dup_off", "dec_off", "nan_off", "wide_gap"])
            i, o = g[k]
            if how == "dup_index":
                g[k] = (g[k - 1][0], o)
            elif how == "dec_index":
                g[k] = (g[k - 1][0] - 1 if g[k - 1][0] > -2 ** 31 else g[k - 1][0], o)
            elif how == "dup_off":
                g[k] = (i, g[k - 1][1])
            elif how == "dec_off":
                g[k] = (i, dbits(-1e9))
            elif how == "nan_off":
                g[k] = (i, "7ff8000000000000")
            elif how == "wide_gap":
                g = [(-2 ** 31, g[0][1]), (2 ** 31 - 1, dbits(1e12))]
            self.count("v1grid:" + how)
        return g

    def v1_beat(self, big=False):
        return dict(sr=self.optf(), sc=self.optf(), dflt=self.v1_grid(big), adj=self.v1_grid())

    def v1_slots(self):
        r = self.r
        n = r.choice([8, 8, 8, 8, 8, 8, 0, 1, 7, 9, 10, 12])
        self.count("entries:%d" % n)
        return n

    def v1_label(self):
        r = self.r
        n = r.choice([1, 1, 2, 5, 17, 64, 127, 128, 200, 254, 255, 255, 0, 256, 300, r.randrange(0, 301)])
        return self.label(n)

    def v1_cues(self, lens=None):
        r = self.r
        n = self.v1_slots() if lens is None else len(lens)
        cs = []
        for i in range(n):
            if lens is None and r.random() < 0.35:
                cs.append(None)
            else:
                off = NEG1 if r.random() < 0.08 else self.f()
                cs.append((self.v1_label() if lens is None else self.label(lens[i]), off, self.color()))
        adj = self.f()
        dflt = adj if r.random() < 0.4 else self.f()
        return dict(cues=cs, adj=adj, dflt=dflt)

    def v1_loops(self, lens=None):
        r = self.r
        n = self.v1_slots() if lens is None else len(lens)
        ls = []
        for i in range(n):
            if lens is None and r.random() < 0.35:
                ls.append(None)
            else:
                st = NEG1 if r.random() < 0.08 else self.f()
                ls.append((self.v1_label() if lens is None else self.label(lens[i]), st, self.f(), self.color()))
        return dict(loops=ls)

    def v1_wave(self, big=False, opaque=False):
        n = self.wave_len(big)
        b = bytearray(self.r.getrandbits(8) for _ in range(6 * n))
        if opaque:
            for i in range(n):
                b[6 * i + 3] = b[6 * i + 4] = b[6 * i + 5] = 255
        return dict(spe=self.f(), wf=bytes(b))

    def value(self, kind, big=False):
        if kind == "v2.track": return self.v2_track()
        if kind == "v2.beat": return self.v2_beat(big)
        if kind == "v2.cues": return self.v2_cues()
        if kind == "v2.loops": return self.v2_loops()
        if kind == "v2.ovw": return self.v2_ovw(big)
        if kind == "v1.track": return self.v1_track()
        if kind == "v1.beat": return self.v1_beat(big)
        if kind == "v1.cues": return self.v1_cues()
        if kind == "v1.loops": return self.v1_loops()
        if kind == "v1.ovw": return self.v1_wave(big, opaque=self.r.random() < 0.7)
        if kind == "v1.hires": return self.v1_wave(big)
        raise KeyError(kind)


# ---------------------------------------------------------------- canonical text
def _col(c):
    return "%d %d %d %d" % c


def _optf(h):
    return "none" if h is None else h


def _opti(i):
    return "none" if i is None else str(i)


def text(kind, v):
    if kind == "v2.track":
        return "%s %d %d %s %s %s %s" % (v["sr"], v["samples"], v["key"], v["lo"], v["mid"], v["hi"], hexb(v["extra"]))
    if kind == "v2.beat":
        def g(l):
            return " ".join([str(len(l))] + ["%s %d %d %d" % m for m in l])
        return "%s %s %d %s %s %s" % (v["sr"], v["samples"], v["flag"], g(v["dflt"]), g(v["adj"]), hexb(v["extra"]))
    if kind == "v2.cues":
        s = [str(len(v["cues"]))] + ["%s %s %s" % (hexb(l), o, _col(c)) for (l, o, c) in v["cues"]]
        return " ".join(s + [v["adj"], "1" if v["flag"] else "0", v["dflt"], hexb(v["extra"])])
    if kind == "v2.loops":
        s = [str(len(v["loops"]))] + ["%s %s %s %d %d %s" % (hexb(l), a, b, f1, f2, _col(c))
                                      for (l, a, b, f1, f2, c) in v["loops"]]
        return " ".join(s + [hexb(v["extra"])])
    if kind == "v2.ovw":
        return "%s %s %s %s" % (v["spp"], hexb(v["pts"]), hexb(v["mx"]), hexb(v["extra"]))
    if kind == "v1.track":
        return "%s %s %s %s" % (_optf(v["sr"]), _opti(v["sc"]), _optf(v["loud"]), _opti(v["key"]))
    if kind == "v1.beat":
        def g(l):
            return " ".join([str(len(l))] + ["%d %s" % m for m in l])
        return "%s %s %s %s" % (_optf(v["sr"]), _optf(v["sc"]), g(v["dflt"]), g(v["adj"]))
    if kind == "v1.cues":
        s = [str(len(v["cues"]))] + ["none" if q is None else "some %s %s %s" % (hexb(q[0]), q[1], _col(q[2]))
                                     for q in v["cues"]]
        return " ".join(s + [v["adj"], v["dflt"]])
    if kind == "v1.loops":
        s = [str(len(v["loops"]))] + ["none" if q is None else "some %s %s %s %s" % (hexb(q[0]), q[1], q[2], _col(q[3]))
                                      for q in v["loops"]]
        return " ".join(s)
    if kind in ("v1.ovw", "v1.hires"):
        return "%s %s" % (v["spe"], hexb(v["wf"]))
    raise KeyError(kind)


def enc_text(kind, v):
    """the token form the `enc` command reads (v2.cues carries the flag as a byte)"""
    if kind == "v2.cues":
        s = [str(len(v["cues"]))] + ["%s %s %s" % (hexb(l), o, _col(c)) for (l, o, c) in v["cues"]]
        return " ".join(s + [v["adj"], str(v["flag"]), v["dflt"], hexb(v["extra"])])
    return text(kind, v)


# ---------------------------------------------------------------- the encodable domain (property text)
def _valid_v1_grid(g):
    if len(g) == 0:
        return True
    if len(g) == 1 or len(g) > 32768:
        return False
    for a, b in zip(g, g[1:]):
        if not (b[0] > a[0]) or b[0] - a[0] > 2 ** 31 - 1:
            return False
        if f_le(b[1], a[1]):       # offsets must be strictly increasing (as the decoder demands)
            return False
    return True


def format_can_hold(kind, v):
    """True when the Engine format has an encoding for exactly this value."""
    if kind in ("v2.track", "v2.beat", "v2.ovw", "v1.hires"):
        return True
    if kind == "v2.cues":
        return all(len(l) <= 255 for (l, _, _) in v["cues"])
    if kind == "v2.loops":
        return all(len(q[0]) <= 255 for q in v["loops"])
    if kind == "v1.track":
        return not ((v["sr"] is not None and is_zero(v["sr"])) or v["sc"] == 0 or
                    (v["loud"] is not None and is_zero(v["loud"])) or v["key"] == 0)
    if kind == "v1.beat":
        return not ((v["sr"] is not None and is_zero(v["sr"])) or (v["sc"] is not None and is_zero(v["sc"]))) \
            and _valid_v1_grid(v["dflt"]) and _valid_v1_grid(v["adj"])
    if kind == "v1.cues":
        return len(v["cues"]) <= 8 and all(q is None or len(q[0]) <= 255 for q in v["cues"])
    if kind == "v1.loops":
        return all(q is None or len(q[0]) <= 255 for q in v["loops"])
    if kind == "v1.ovw":
        return True
    raise KeyError(kind)


def zero_optional(kind, v):
    """1.x optional numeric field holding exactly zero (the known finding)."""
    if kind == "v1.track":
        return ((v["sr"] is not None and is_zero(v["sr"])) or v["sc"] == 0 or
                (v["loud"] is not None and is_zero(v["loud"])) or v["key"] == 0)
    if kind == "v1.beat":
        return (v["sr"] is not None and is_zero(v["sr"])) or (v["sc"] is not None and is_zero(v["sc"]))
    return False


def expected_readback(kind, v):
    """What an accepted value must read back as: the value itself, except for the
    reserved encodings the property allows (1.x cue/loop offset of exactly -1.0 reads
    back absent) and the channels the 1.x overview format does not have (opacity,
    supplied as the constant 255 by the decoder)."""
    if kind == "v1.cues":
        w = dict(v)
        w["cues"] = [None if (q is None or f_eq(q[1], NEG1)) else q for q in v["cues"]]
        return text(kind, w)
    if kind == "v1.loops":
        w = dict(v)
        w["loops"] = [None if (q is None or f_eq(q[1], NEG1)) else q for q in v["loops"]]
        return text(kind, w)
    if kind == "v1.ovw":
        b = bytearray(v["wf"])
        for i in range(len(b) // 6):
            b[6 * i + 3] = b[6 * i + 4] = b[6 * i + 5] = 255
        return text(kind, dict(spe=v["spe"], wf=bytes(b)))
    return text(kind, v)


def nontrivial(kind, v):
    if kind == "v2.track" or kind == "v1.track":
        return True
    if kind == "v2.beat" or kind == "v1.beat":
        return len(v["dflt"]) + len(v["adj"]) > 0
    if kind in ("v2.cues", "v1.cues"):
        return any(q is not None for q in v["cues"])
    if kind in ("v2.loops", "v1.loops"):
        return any(q is not None for q in v["loops"])
    if kind == "v2.ovw":
        return len(v["pts"]) > 0
    return len(v["wf"]) > 0


def gen_values(rng, tier, hist, per_kind=None):
    """The C03/C02 value stream: for every kind, random values plus the sweeps the
    property text names (labels of every length 0..300, 0..12 entries)."""
    g = Gen(rng, hist)
    per_kind = per_kind or (60 if tier == "quick" else 1500)
    out = []
    for kind in KINDS:
        for _ in range(per_kind):
            out.append((kind, g.value(kind)))
    # labels of every length 0..300 (one cue/loop each, all four label-carrying codecs)
    lens = list(range(0, 301))
    for L in lens:
        k4 = [("v2.cues", g.v2_cues([L])), ("v2.loops", g.v2_loops([L]))]
        c1 = g.v1_cues([L] + [1] * 7)
        l1 = g.v1_loops([L, 3])
        k4 += [("v1.cues", c1), ("v1.loops", l1)]
        if tier == "quick":
            k4 = [k4[(L + i) % 4] for i in range(2)] if 2 < L < 250 else k4
        out += k4
    # 0..12 entries
    for n in range(13):
        out.append(("v2.cues", g.v2_cues([g.r.choice([0, 3, 255]) for _ in range(n)])))
        out.append(("v2.loops", g.v2_loops([g.r.choice([0, 3, 255]) for _ in range(n)])))
        out.append(("v1.cues", g.v1_cues([g.r.choice([1, 3, 255]) for _ in range(n)])))
        out.append(("v1.loops", g.v1_loops([g.r.choice([1, 3, 255]) for _ in range(n)])))
    # every double class in every double-typed position of the small codecs
    for cls, hs in DOUBLE_CLASSES.items():
        for h in hs:
            out.append(("v2.track", dict(sr=h, samples=g.i64(), key=g.i32(), lo=h, mid=g.f(), hi=h, extra=b"")))
            out.append(("v1.track", dict(sr=h, sc=g.i64() or 1, loud=h, key=g.i32() or 1)))
            out.append(("v2.cues", dict(cues=[(b"a", h, (1, 2, 3, 4))], adj=h, flag=1, dflt=g.f(), extra=b"")))
            out.append(("v1.cues", dict(cues=[(b"a", h, (1, 2, 3, 4))] + [None] * 7, adj=h, dflt=h)))
            out.append(("v1.loops", dict(loops=[(b"a", h, g.f(), (1, 2, 3, 4)), (b"b", g.f(), h, (0, 0, 0, 0))])))
            out.append(("v2.loops", dict(loops=[(b"", h, h, 1, 0, (1, 2, 3, 4))], extra=b"")))
            out.append(("v2.beat", dict(sr=h, samples=h, flag=1, dflt=[(h, 0, 4, 0), (g.f(), 4, 0, 0)], adj=[], extra=bytes(9))))
            out.append(("v1.ovw", dict(spe=h, wf=bytes([1, 2, 3, 255, 255, 255]))))
            out.append(("v1.hires", dict(spe=h, wf=bytes([1, 2, 3, 4, 5, 6]))))
            out.append(("v2.ovw", dict(spp=h, pts=bytes([1, 2, 3]), mx=bytes([1, 2, 3]), extra=b"")))
    # int edges
    for i in I64_EDGES:
        out.append(("v2.track", dict(sr=g.f(), samples=i, key=g.i32(), lo=g.f(), mid=g.f(), hi=g.f(), extra=b"")))
        out.append(("v1.track", dict(sr=g.optf(), sc=i, loud=g.optf(), key=g.i32())))
        out.append(("v2.beat", dict(sr=g.f(), samples=g.f(), flag=0, dflt=[], adj=[(g.f(), i, g.i32(), g.i32())], extra=b"")))
    for i in I32_EDGES:
        out.append(("v2.track", dict(sr=g.f(), samples=g.i64(), key=i, lo=g.f(), mid=g.f(), hi=g.f(), extra=b"\x01")))
        out.append(("v1.track", dict(sr=g.optf(), sc=g.i64(), loud=g.optf(), key=i)))
        out.append(("v2.beat", dict(sr=g.f(), samples=g.f(), flag=1, dflt=[(g.f(), 1, i, -i if i > -2 ** 31 else 0)], adj=[], extra=b"")))
        out.append(("v1.beat", dict(sr=None, sc=None, dflt=[(i, dbits(0.0)), (min(i + 4, 2 ** 31 - 1), dbits(100.0))], adj=[])))
    if tier == "thorough":
        for kind in ("v2.beat", "v1.beat", "v2.ovw", "v1.ovw", "v1.hires"):
            for _ in range(4):
                out.append((kind, g.value(kind, big=True)))
    out += big_incompressible(rng, tier, hist)
    out += chunk_boundary_values(rng, tier, hist)
    out += grid_cap_values(rng, tier, hist)
    for name, where in THRESHOLDS.items():       # the audit of numeric thresholds, into the evidence
        hist["threshold:%s -> %s" % (name, where)] = 1
    # the witnesses of the Lean `_counterexample` theorems, replayed on the real library on every run
    out.append(("v1.track", dict(sr="3ff0000000000000", sc=255, loud=None, key=0)))     # C03_v1_track_roundtrip_counterexample
    out.append(("v1.beat", dict(sr=NEGZERO, sc=None, dflt=[], adj=[])))                  # C03_v1_beat_roundtrip_counterexample
    return out


def big_incompressible(rng, tier, hist):
    """Values whose payload is 17-100 KB of noise: their deflate stream does not fit one 16 KiB output
    buffer, so the multi-buffer paths of zlib_compress / zlib_uncompress are exercised on every run
    (every compressed kind that can grow: waveforms, extra_data of the 2.x structs, long grids)."""
    g = Gen(rng, hist)

    def noise(n):
        return bytes(rng.getrandbits(8) for _ in range(n))

    sizes = [17000, 24000] if tier == "quick" else [16384, 17000, 24000, 50000, 100000]
    out = []
    for n in sizes:
        out.append(("v2.ovw", dict(spp=g.f(), pts=noise(3 * (n // 3)), mx=noise(3), extra=b"")))
        out.append(("v2.beat", dict(sr=g.f(), samples=g.f(), flag=1, dflt=[], adj=[], extra=noise(n))))
        out.append(("v2.track", dict(sr=g.f(), samples=g.i64(), key=g.i32(), lo=g.f(), mid=g.f(), hi=g.f(),
                                     extra=noise(n))))
        out.append(("v2.cues", dict(cues=[(b"x", g.f(), (1, 2, 3, 4))], adj=g.f(), flag=1, dflt=g.f(), extra=noise(n))))
        out.append(("v1.hires", dict(spe=g.f(), wf=noise(6 * (n // 6)))))
        w = bytearray(noise(6 * (n // 3)))
        for i in range(len(w) // 6):
            w[6 * i + 3] = w[6 * i + 4] = w[6 * i + 5] = 255
        out.append(("v1.ovw", dict(spe=g.f(), wf=bytes(w))))
        # a long valid 1.x grid with noisy offsets (24 bytes per marker)
        m, off, grid = n // 24, 0.0, []
        for i in range(min(m, 32768)):
            off += rng.uniform(0.001, 1e6)
            grid.append((4 * i, dbits(off)))
        out.append(("v1.beat", dict(sr=dbits(44100.0), sc=dbits(1e7), dflt=grid, adj=[])))
    for (k, _) in out:
        hist["big_incompressible:" + k] = hist.get("big_incompressible:" + k, 0) + 1
    return out


# ---------------------------------------------------------------- numeric thresholds of the C++
CHUNK = 16384                       # zlib_compress / zlib_uncompress: input chunk and output buffer size
COMPRESSED_KINDS = [k for k in KINDS if k not in RAW_KINDS]
THRESHOLDS = {
    "zlib chunk 16384 (payload size)": "chunk_boundary_values: k*16384-1, k*16384, k*16384+1 for k=1..4, and 0, 1",
    "label length 255": "Gen.label / v1_label: 254, 255, 256, 257 and the 0..300 sweep",
    "8 cue/loop slots (1.x)": "Gen.v1_slots: 7, 8, 9 and the 0..12 sweep",
    "1.x beat-grid cap 32768 markers": "grid_cap_values: 32767, 32768 (accepted), 32769 (rejected)",
    "1.x grid: 1 marker / index step 2^31-1": "grid_cap_values: 1, 2 markers; step 2^31-1 (accepted), 2^31 (rejected)",
    "overview waveform 1024 entries": "Gen.wave_len: 1023, 1024, 1025 (no codec threshold; track_utils' recommended size)",
    "minimum payload lengths 8/25/27/28/30/33/44": "C05 truncations: every prefix length of valid payloads",
}


def payload_len(kind, v):
    """size in bytes of the uncompressed payload the format defines for v (None: not encodable / fixed)"""
    if kind == "v2.track":
        return 44 + len(v["extra"])
    if kind == "v2.beat":
        return 33 + 24 * (len(v["dflt"]) + len(v["adj"])) + len(v["extra"])
    if kind == "v2.cues":
        return 25 + sum(13 + len(l) for (l, _, _) in v["cues"]) + len(v["extra"])
    if kind == "v2.loops":
        return 8 + sum(23 + len(q[0]) for q in v["loops"]) + len(v["extra"])
    if kind == "v2.ovw":
        return 27 + 3 * (len(v["pts"]) // 3) + len(v["extra"])
    if kind == "v1.track":
        return 28
    if kind == "v1.beat":
        return 33 + 24 * (len(v["dflt"]) + len(v["adj"]))
    if kind == "v1.cues":
        return 129 + sum(len(q[0]) for q in v["cues"] if q is not None)
    if kind == "v1.loops":
        return 8 + 23 * len(v["loops"]) + sum(len(q[0]) for q in v["loops"] if q is not None)
    if kind == "v1.ovw":
        return 27 + 3 * (len(v["wf"]) // 6)
    if kind == "v1.hires":
        return 30 + 6 * (len(v["wf"]) // 6)
    raise KeyError(kind)


def chunk_targets(tier, seed_rot=0):
    """payload sizes around the 16384-byte chunking threshold of zlib_compress: k*16384-1, k*16384, k*16384+1."""
    ks = (1, 2, 3, 4)
    return [0, 1] + [k * CHUNK + d for k in ks for d in (-1, 0, 1)]


def _bytes_like(rng, n, style):
    """n payload bytes: incompressible noise (multi-buffer deflate output), or low-entropy text (one buffer)."""
    if style == "noise":
        return rng.randbytes(n)
    if style == "zeros":
        return bytes(n)
    return (b"Engine DJ performance data " * (n // 27 + 1))[:n]


def value_of_size(kind, t, rng, g, style):
    """a value of `kind` whose payload is exactly t bytes, or None when the format has no such value."""
    if kind == "v2.track":
        if t < 44: return None
        return dict(sr=g.f(), samples=g.i64(), key=g.i32(), lo=g.f(), mid=g.f(), hi=g.f(),
                    extra=_bytes_like(rng, t - 44, style))
    if kind == "v2.beat":
        if t < 33: return None
        m = min((t - 33) // 24, rng.choice([0, 2, 40]))
        mk = [(dbits(100.0 * i), 4 * i, 4, 0) for i in range(m)]
        return dict(sr=g.f(), samples=g.f(), flag=1, dflt=mk[:m // 2], adj=mk[m // 2:],
                    extra=_bytes_like(rng, t - 33 - 24 * m, style))
    if kind == "v2.cues":
        if t < 25: return None
        cs = []
        room = t - 25
        for lab in (b"Cue 1", b"", b"x" * 255):
            if room >= 13 + len(lab) and rng.random() < 0.7:
                cs.append((lab, g.f(), g.color()))
                room -= 13 + len(lab)
        return dict(cues=cs, adj=g.f(), flag=1, dflt=g.f(), extra=_bytes_like(rng, room, style))
    if kind == "v2.ovw":
        if t < 27: return None
        n, x = (t - 27) // 3, (t - 27) % 3
        return dict(spp=g.f(), pts=_bytes_like(rng, 3 * n, style), mx=rng.randbytes(3), extra=_bytes_like(rng, x, "noise"))
    if kind == "v1.beat":
        if t < 33 or (t - 33) % 24: return None
        m = (t - 33) // 24
        if m == 1 or m > 65536: return None
        na = 0 if m < 4 or m <= 32768 and rng.random() < 0.5 else max(2, m - 32768, rng.choice([2, m // 2]))
        nd = m - na
        if nd == 1: nd, na = 2, m - 2
        if nd > 32768 or na > 32768 or na == 1: return None

        def grid(n):
            off, out = rng.uniform(-100.0, 100.0), []
            for i in range(n):
                off += rng.uniform(0.001, 1e6) if style == "noise" else 22050.0
                out.append((4 * i - 4, dbits(off)))
            return out
        return dict(sr=dbits(44100.0), sc=dbits(1e7), dflt=grid(nd), adj=grid(na))
    if kind == "v1.ovw":
        if t < 27 or (t - 27) % 3: return None
        w = bytearray(_bytes_like(rng, 6 * ((t - 27) // 3), style))
        for i in range(len(w) // 6):
            w[6 * i + 3] = w[6 * i + 4] = w[6 * i + 5] = 255
        return dict(spe=g.f(), wf=bytes(w))
    if kind == "v1.hires":
        if t < 30 or (t - 30) % 6: return None
        return dict(spe=g.f(), wf=_bytes_like(rng, t - 30, style))
    return None          # v1.track (28 bytes), v1.cues (<= 2169 bytes): the sizes are out of reach


def _reachable(kind, u):
    return value_of_size(kind, u, random.Random(0), Gen(random.Random(0), {}), "zeros") is not None


def chunk_boundary_sizes(kind, tier):
    """{size: label}: the chunk-boundary payload sizes this layout can have — a target itself (`exact`) or, when the
    layout has no value of that size, the nearest sizes it has on either side (`nearest`)."""
    targets = chunk_targets(tier)
    out = {}
    for t in targets:
        if _reachable(kind, t):
            out[t] = "exact"
    for t in targets:
        if t in out:
            continue
        lo = next((u for u in range(t - 1, max(t - 25, -1), -1) if _reachable(kind, u)), None)
        hi = next((u for u in range(t + 1, t + 25) if _reachable(kind, u)), None)
        for u in (lo, hi):
            if u is not None and u not in out:
                out[u] = "nearest"
    return out


def boundary_label(u):
    if u < CHUNK // 2:
        return "size=%d" % u
    k = (u + CHUNK // 2) // CHUNK
    return "%d*16384%+d" % (k, u - k * CHUNK) if u != k * CHUNK else "%d*16384" % k


def chunk_boundary_values(rng, tier, hist):
    """For every compressed kind, values whose PAYLOAD size sits on the input-chunking threshold of zlib_compress:
    0, 1 and k*16384-1, k*16384, k*16384+1 (k = 1..4) — exactly when the layout can have that size, otherwise the
    nearest sizes the layout has on either side.  Contents alternate between noise (deflate output larger than one
    16 KiB buffer) and text/zeros (one small buffer).  Every hit is printed into the histograms."""
    g = Gen(rng, {})
    out = []
    styles = ["noise", "text", "zeros"]
    for ki, kind in enumerate(COMPRESSED_KINDS):
        sizes = chunk_boundary_sizes(kind, tier)
        if not any(u >= CHUNK // 2 for u in sizes):
            hist["chunk_boundary:%s:out of reach (payload size fixed or capped below 16383)" % kind] = 1
        for ti, u in enumerate(sorted(sizes)):
            v = value_of_size(kind, u, rng, g, styles[(ki + ti) % 3])
            assert v is not None and payload_len(kind, v) == u, (kind, u)
            out.append((kind, v))
            key = "chunk_boundary:%s:%s(%s)" % (kind, boundary_label(u), sizes[u])
            hist[key] = hist.get(key, 0) + 1
    return out


def diverse(violations, per=2, total=8):
    """at most `per` violations of each distinct kind of failure (the `what` text without its parenthesised details),
    `total` overall — so that one failing stream does not crowd out the others in the report"""
    seen, out = {}, []
    for v in violations:
        key = re.sub(r"\(.*?\)", "", v["header"]["what"]).split(":")[0]
        seen[key] = seen.get(key, 0) + 1
        if seen[key] <= per:
            out.append(v)
    return out[:total]


def size_note(kind, blob_hex):
    """'(v2.ovw, payload of 49152 bytes = 3*16384)' from the 4-byte prefix of a stored blob"""
    try:
        n = int(blob_hex[:8], 16)
    except ValueError:
        return "(%s)" % kind
    return "(%s, length prefix says %d payload bytes%s)" % (
        kind, n, " = " + boundary_label(n) if is_chunk_boundary(n) else "")


def is_chunk_boundary(n):
    """payload length within one record (24 bytes) of a non-zero multiple of the chunk size"""
    k = (n + CHUNK // 2) // CHUNK
    return k >= 1 and abs(n - k * CHUNK) <= 24


def grid_cap_values(rng, tier, hist):
    """1.x beat grids on the 32768-marker cap (32767, 32768 accepted; 32769 rejected by encoder and decoder), on the
    one-marker rule, and on the index-step limit 2^31-1."""
    def grid(n, step=4):
        off, out = 0.0, []
        for i in range(n):
            off += 1.0 + (i % 7)
            out.append((i * step - 2 ** 31 if step * n < 2 ** 31 else i, dbits(off)))
        return out
    out = []
    caps = [32768, 32769] if tier == "quick" else [32767, 32768, 32769, 40000]
    for n in caps:
        out.append(("v1.beat", dict(sr=dbits(44100.0), sc=dbits(1e7), dflt=grid(n), adj=[])))
        hist["grid_cap:markers=%d" % n] = 1
    if tier != "quick":
        out.append(("v1.beat", dict(sr=dbits(44100.0), sc=None, dflt=grid(2), adj=grid(32768))))
        out.append(("v1.beat", dict(sr=dbits(44100.0), sc=None, dflt=grid(2), adj=grid(32769))))
        hist["grid_cap:adjusted=32768/32769"] = 2
    for n in (1, 2, 3):
        out.append(("v1.beat", dict(sr=None, sc=None, dflt=grid(n), adj=grid(n))))
        hist["grid_cap:markers=%d" % n] = 1
    for (a, b) in [(0, 2 ** 31 - 1), (-1, 2 ** 31 - 1), (-1, 2 ** 31 - 2), (-2 ** 31, -1), (-2 ** 31, 0)]:
        out.append(("v1.beat", dict(sr=None, sc=None, dflt=[(a, dbits(0.0)), (b, dbits(1.0))], adj=[])))
        hist["grid_cap:index_step=%s" % ("2^31-1" if b - a == 2 ** 31 - 1 else "2^31" if b - a == 2 ** 31 else
                                         "2^31-2" if b - a == 2 ** 31 - 2 else str(b - a))] = \
            hist.get("grid_cap:index_step=%s" % ("2^31-1" if b - a == 2 ** 31 - 1 else "2^31" if b - a == 2 ** 31 else
                                                 "2^31-2" if b - a == 2 ** 31 - 2 else str(b - a)), 0) + 1
    return out


def chunk_plan(n):
    """The input-chunking decision of zlib_compress as a function of the payload length alone (independent
    re-statement of Lean `chunkPlan`, C03_compress_chunk_plan): (flush, avail_in) per outer-loop iteration."""
    plan = []
    while n > CHUNK:
        plan.append((0, CHUNK))
        n -= CHUNK
    plan.append((4, n))
    return plan


def follows_plan(n, calls):
    """None when the recorded deflate() calls follow chunk_plan(n) window by window (a non-empty run of calls per
    window, each with the window's flush mode, the first seeing the whole window, every call but the last of a run
    having filled the 16384-byte output buffer), else what is wrong."""
    i = 0
    for w, (flush, avail) in enumerate(chunk_plan(n)):
        first = True
        while True:
            if i >= len(calls):
                return "window %d (flush=%d avail_in=%d) of the input-chunking plan got no (more) deflate() call" % (w, flush, avail)
            c = calls[i]
            i += 1
            if c[0] != flush:
                return "call %d has flush=%d, the plan says %d for window %d" % (i - 1, c[0], flush, w)
            if first and c[1] != avail:
                return "call %d was handed avail_in=%d, the plan says %d for window %d" % (i - 1, c[1], avail, w)
            first = False
            if c[3] != CHUNK:
                break
    if i != len(calls):
        return "%d deflate() call(s) after the Z_FINISH window ended" % (len(calls) - i)
    return None


def judge_ztrace(n, h):
    """oracle on one `ztrace` answer of the real library for a payload of n bytes: None or what is wrong"""
    t = h.split()
    if not (len(t) >= 4 and t[0] == "ok"):
        return None if h.startswith("throw") else "zlib_compress crashed: " + h[:80]
    calls = [tuple(int(x) for x in c.split(":")) for c in t[4:]]
    blen = int(t[2].split("=")[1])
    why = None
    if t[1] != "framed":
        why = "zlib_compress wrote a blob from which an independent inflate does not recover the payload"
    elif blen != 4 + sum(c[3] for c in calls):
        why = "blob length is not 4 + all bytes deflate() produced"
    elif not calls or calls[-1][0] != 4 or calls[-1][4] != 1:
        why = "the last deflate() call was not a Z_FINISH call answering Z_STREAM_END"
    elif sum(c[2] for c in calls) != n:
        why = "deflate() did not consume the whole payload"
    plan_err = follows_plan(n, calls)
    if plan_err:
        why = (why + "; " if why else "") + "input chunking: " + plan_err
    return why


MODEL_ONLY = ("senc", "sdec", "unframe", "stz", "inf", "zreplay")


def replay(ctx, hdr, body):
    """Replay of a recorded codec input on the working tree.  `enc`: the library's answer must carry a complete
    framed blob and the Model's payload; `ztrace`: judged by the trace oracle, and the Model of the loops replays the
    recorded calls; other lines: library and Model must answer alike (Spec-side lines run on the Model only)."""
    import runner
    lines = [l for l in body if not re.match(r"^[A-Za-z_()0-9 ]{1,20}: ", l)]
    out, ok = [], True
    if hdr.get("kind") == "sequence":
        # a history: the lines ran one after the other in ONE library process (state a refused blob may leave
        # behind in the codec helpers); the Model's codecs are functions, each line is judged on its own
        hs = runner.run_harness_script(lines, stateless=True, watchdog=20)[0]
        ms = runner.run_model_script(lines)
        for l, h, m in zip(lines, hs, ms):
            good = h == m
            ok = ok and good
            out.append("%s\n   impl:  %s\n   model: %s%s" % (l[:300], h[:300], m[:300], "" if good else "   <-- differ"))
        out.append("recorded verdict: %s" % hdr.get("what", "(none)"))
        return ok, "\n".join(out)
    for l in lines:
        cmd = l.split(" ", 1)[0]
        if cmd in MODEL_ONLY:
            m = runner.run_model_script([l])[0]
            out.append("%s\n   model: %s" % (l[:300], m[:300]))
            continue
        h = runner.run_harness_script([l], stateless=True, watchdog=20)[0][0]
        good, note = True, ""
        if cmd == "ztrace":
            arg = l.split()[1]
            n = 0 if arg == "-" else len(arg) // 2
            t = h.split()
            m = runner.run_model_script(["zreplay %d %s" % (n, " ".join(t[4:])) if t[:1] == ["ok"] else "zreplay %d" % n])[0]
            if t[:1] == ["ok"]:
                why = judge_ztrace(n, h)
                want = "ok %s %s%s" % (t[2], t[3], "".join(" " + c for c in t[4:]))
                good = why is None and m == want
                note = why or ("" if m == want else "the Model of the loops makes different calls")
            else:
                good = (n == 0 and h == m)
                note = "" if good else "zlib_compress did not return"
        else:
            m = runner.run_model_script([l])[0]
            ht = h.split()
            if cmd == "enc" and ht[:1] == ["ok"]:
                good = " ".join(ht[:2]) == m and "UNFRAMED" not in ht
                note = "" if good else ("the stored blob is not length + one complete zlib stream" if "UNFRAMED" in ht
                                        else "payload differs from the Model's")
            else:
                good = h == m
        ok = ok and good
        out.append("%s\n   impl:  %s\n   model: %s%s" % (l[:300], h[:300], m[:300],
                                                         "" if good else "   <-- " + (note or "differ")))
    out.append("recorded verdict: %s" % hdr.get("what", "(none)"))
    return ok, "\n".join(out)


# ---------------------------------------------------------------- adversarial byte strings (C05, C04)
COUNT_EDGES = [-1, 0, 1, 2, 2 ** 31 - 1, 2 ** 31, 2 ** 32, 2 ** 59, 2 ** 61, 2 ** 63 - 1, -2 ** 63, -2]


def _i64(v, le=False):
    return struct.pack("<q" if le else ">q", v)


def _rb(rng, n):
    return bytes(rng.getrandbits(8) for _ in range(n))


def boundary_payloads(kind, rng):
    """Payloads whose embedded count / length fields take every boundary value
    (negative, 0, 1, exact fit, exact fit + 1, 2^31, 2^61, 2^63-1 ...) while the body
    holds room for `fit` entries."""
    out = []
    fits = [0, 1, 2, 3]
    if kind in ("v2.beat", "v1.beat"):
        hdr = _rb(rng, 16) + b"\x01"
        for fit in fits:
            body = b"".join(struct.pack("<dqii", 100.0 * i, 4 * i, 4 if i + 1 < fit else 0, 0) for i in range(fit))
            for c in COUNT_EDGES + [fit, fit + 1, fit - 1]:
                # boundary in the first grid (second grid empty), then in the second grid
                out.append(hdr + _i64(c) + body + _i64(0))
                out.append(hdr + _i64(c) + body)                       # second count missing
                out.append(hdr + _i64(0) + _i64(c) + body)
                out.append(hdr + _i64(fit) + body + _i64(c))
                out.append(hdr + _i64(0) + _i64(c) + body + bytes(9))
                out.append(hdr + _i64(c) + body + _i64(0) + b"\x00\x01")
    elif kind in ("v2.cues", "v1.cues"):
        tail = _rb(rng, 8) + rng.choice([b"\x00", b"\x01", b"\x02"]) + _rb(rng, 8)
        for fit in fits:
            for lab in (0, 1, 5, 255):
                ent = b"".join(bytes([lab]) + _rb(rng, lab) + struct.pack(">d", 10.0 * i) + _rb(rng, 4)
                               for i in range(fit))
                for c in COUNT_EDGES + [fit, fit + 1, fit - 1]:
                    out.append(_i64(c) + ent + tail)
                    out.append(_i64(c) + ent + tail[:-1])
                    out.append(_i64(c) + ent + tail + b"\x07")
            # label-length byte boundaries on a single entry
            for L in (0, 1, 2, 254, 255):
                for have in (0, max(L - 1, 0), L, L + 1):
                    out.append(_i64(1) + bytes([L]) + _rb(rng, have) + _rb(rng, 12) + tail)
    elif kind in ("v2.loops", "v1.loops"):
        for fit in fits:
            for lab in (0, 1, 5, 255):
                ent = b"".join(bytes([lab]) + _rb(rng, lab) + struct.pack("<dd", 10.0 * i, 20.0 * i) +
                               rng.choice([b"\x01\x01", b"\x00\x00", b"\x02\xff"]) + _rb(rng, 4) for i in range(fit))
                for c in COUNT_EDGES + [fit, fit + 1, fit - 1]:
                    out.append(_i64(c, True) + ent)
                    out.append(_i64(c, True) + ent + b"\x00")
                    out.append(_i64(c, True) + ent[:-1])
            for L in (0, 1, 2, 254, 255):
                for have in (0, max(L - 1, 0), L, L + 1):
                    out.append(_i64(1, True) + bytes([L]) + _rb(rng, have) + _rb(rng, 22))
                    out.append(_i64(1, True) + bytes([L]) + _rb(rng, have) + _rb(rng, 21))
    elif kind in ("v2.ovw", "v1.ovw", "v1.hires"):
        w = 6 if kind == "v1.hires" else 3
        for fit in fits + [10]:
            body = _rb(rng, w * fit)
            mx = _rb(rng, w)
            spe = struct.pack(">d", 1024.0)
            for c in COUNT_EDGES + [fit, fit + 1, fit - 1]:
                out.append(_i64(c) + _i64(c) + spe + body + mx)
                out.append(_i64(c) + _i64(c) + spe + body)               # maximum entry missing
                out.append(_i64(c) + _i64(c) + spe + body + mx + b"\x00")
                out.append(_i64(c) + _i64(fit) + spe + body + mx)        # conflicting counts
                out.append(_i64(fit) + _i64(c) + spe + body + mx)
                out.append(_i64(c) + _i64(c) + spe + body + mx[:-1])
    elif kind == "v2.track":
        for n in (0, 1, 43, 44, 45, 53, 100):
            out.append(_rb(rng, n))
    elif kind == "v1.track":
        for n in (0, 1, 27, 28, 29, 44):
            out.append(_rb(rng, n))
            out.append(bytes(n))
    return out


def truncations_and_corruptions(payload, rng, all_positions=True, max_len=400):
    """every prefix, and single-byte corruptions at every position"""
    out = []
    p = payload[:max_len] if len(payload) > max_len else payload
    for n in range(len(p)):
        out.append(p[:n])
    pos = range(len(p)) if all_positions else sorted(rng.sample(range(len(p)), min(len(p), 40)))
    for i in pos:
        b = bytearray(p)
        for how in (0, 1, 2, 3):
            c = bytearray(b)
            if how == 0:
                c[i] ^= 1
            elif how == 1:
                c[i] ^= 0x80
            elif how == 2:
                c[i] = 0xff
            else:
                c[i] = 0
            if bytes(c) != p:
                out.append(bytes(c))
    return out


def mutate(p, rng):
    b = bytearray(p)
    for _ in range(rng.choice([1, 1, 2, 3, 6])):
        m = rng.random()
        if m < 0.35 and b:
            b[rng.randrange(len(b))] = rng.getrandbits(8)
        elif m < 0.5 and b:
            i = rng.randrange(len(b))
            del b[i:i + rng.choice([1, 1, 2, 8, 24])]
        elif m < 0.65:
            i = rng.randrange(len(b) + 1)
            b[i:i] = _rb(rng, rng.choice([1, 1, 2, 8, 13, 23, 24]))
        elif m < 0.8 and len(b) >= 8:
            i = rng.randrange(0, len(b) - 7)
            b[i:i + 8] = _i64(rng.choice(COUNT_EDGES + [3, 8, 9]), rng.random() < 0.5)
        elif m < 0.9 and b:
            i = rng.randrange(len(b))
            b[i:i] = b[i:i + rng.choice([13, 23, 24, 3, 6])]
        else:
            b = b[:rng.randrange(len(b) + 1)]
    return bytes(b)
