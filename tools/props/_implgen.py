"""Regenerated model of the 2.x blob codecs (tools/tr_blobs.py -> lean/EngineModel/Gen/ImplV2Gen.lean) and
the theorems that tie it to the hand-written mirror lean/EngineModel/Impl/V2.lean (lean/Proofs/ImplV2Gen.lean).

Imported by the plugins of C02 and C05 (whose theorems are stated on the hand model): the translator runs on
every check, and the equalities below are re-proved against what it produced.  They are *gen-dependent*: their
statements mention only names (so their locked hashes are stable), their proofs depend on the regenerated bodies.
Statement lock: lean/Properties/locks/ImplV2Gen.json (`python3 tools/props/_implgen.py lock`)."""
import os, subprocess, sys
if __name__ == "__main__":
    sys.path.insert(0, os.path.dirname(os.path.dirname(os.path.abspath(__file__))))
from common import *

LEAN_MODULES = ["Proofs.ImplV2Gen", "Proofs.ImplV2GenEnc", "Proofs.ImplV2GenTransfer"]
_Q = lambda names: ["EngineModel.Gen.ImplV2." + t for t in names]
# regenerated decoder = hand model (every byte string; `_partial`: payload below vector::max_size() / 2^61 bytes)
THEOREMS_EQ = _Q(["decodeTrack_eq", "decodeGrid_eq", "decodeBeat_eq", "decodeOvw_eq_partial",
                  "decodeCues_eq_partial", "decodeLoops_eq_partial"])
# regenerated encoder (explicit primitive writes in C++ order, own byte-order primitives) = Spec bytes
THEOREMS_ENC = _Q(["encodeTrack_spec_partial", "encodeGrid_writes", "encodeBeat_spec_partial", "encodeOvw_spec_partial",
                   "encodeCues_ok_partial", "encodeCues_reject_partial", "encodeLoops_ok_partial",
                   "encodeLoops_reject_partial"])
# C++-style primitives (shifts / masks) = Spec primitives (div / mod): byte order and widths
THEOREMS_PRIM = ["EngineModel.CxxPrims." + t for t in [
    "encode_int32_le_eq", "encode_int32_be_eq", "encode_int64_le_eq", "encode_int64_be_eq",
    "decode_uint8_eq", "decode_int32_le_eq", "decode_int32_be_eq", "decode_int64_le_eq", "decode_int64_be_eq"]]
# the C02 / C03 / C05 statements on the regenerated model
THEOREMS_FOR = {
    "C02": THEOREMS_EQ + THEOREMS_ENC + THEOREMS_PRIM +
           _Q(["gen_track_spec", "gen_grid_spec", "gen_beat_spec", "gen_ovw_spec_partial",
               "gen_cues_spec_partial", "gen_loops_spec_partial"]),
    "C03": THEOREMS_ENC +
           _Q(["gen_track_roundtrip_partial", "gen_beat_roundtrip_partial", "gen_ovw_roundtrip_partial",
               "gen_cues_roundtrip_partial", "gen_loops_roundtrip_partial",
               "gen_encodeTrack_eq_hand_partial", "gen_encodeBeat_eq_hand_partial", "gen_encodeOvw_eq_hand_partial",
               "gen_encodeCues_eq_hand_partial", "gen_encodeLoops_eq_hand_partial"]),
    "C04": _Q(["gen_track_reencode_partial", "gen_beat_reencode_partial", "gen_ovw_reencode_partial",
               "gen_loops_reencode_partial", "gen_cues_reencode_partial"]),
    "C05": THEOREMS_EQ + _Q(["gen_track_safe", "gen_beat_safe", "gen_ovw_safe_partial", "gen_cues_safe_partial",
                             "gen_loops_safe_partial"]),
}
# ---- schema 1.x: lean/EngineModel/Gen/ImplV1Gen.lean (tools/tr_blobs_v1.py), design/codegen_v1.md
V1_MODULES = ["Proofs.ImplV1Gen", "Proofs.ImplV1GenTransfer",
              # work-package codegenv1b (design/codegen_v1.md, "codegenv1b"): the 1.x encoders and the beat codec
              "Proofs.ImplV1GenEnc", "Proofs.ImplV1GenBeat", "Proofs.ImplV1GenLists", "Proofs.ImplV1GenEncTransfer",
              "Proofs.ImplV1GenBeatDec", "Proofs.ImplV1GenBeatTransfer"]
_Q1 = lambda names: ["EngineModel.Gen.ImplV1." + t for t in names]
# regenerated 1.x decoder = hand model Impl.V1.* (`_partial`: payload below 2^62 / 2^63 / 2^60 / 2^61 bytes)
THEOREMS_V1_EQ = _Q1(["decodeTrack_eq", "decodeOvw_eq_partial", "decodeHires_eq_partial", "decodeCues_eq_partial",
                      "decodeLoops_eq_partial", "decodeGrid_eq", "decodeBeat_eq"])
# regenerated 1.x encoder = hand model (`_partial`: payload below 2^63 bytes = vector<byte>::max_size());
# `validateGrid_eq` / `encodeGrid_writes_partial`: the two helpers of beat_data::encode
THEOREMS_V1_ENC = _Q1(["encodeTrack_eq", "encodeOvw_eq_partial", "encodeHires_eq_partial", "validateGrid_eq",
                       "encodeGrid_writes_partial", "encodeBeat_eq", "encodeCues_eq_partial", "encodeLoops_eq_partial"])
THEOREMS_V1_FOR = {
    "C02": THEOREMS_V1_EQ + THEOREMS_V1_ENC +
           _Q1(["gen_v1_track_spec", "gen_v1_ovw_spec_partial", "gen_v1_hires_spec_partial",
                "gen_v1_cues_spec_partial", "gen_v1_loops_spec_partial",
                "gen_v1_ovw_encode_spec_partial", "gen_v1_hires_encode_spec_partial", "gen_v1_cues_encode_spec_partial",
                "gen_v1_loops_encode_spec_partial", "gen_v1_beat_encode_spec",
                "gen_v1_beat_of_spec", "gen_v1_beat_spec_partial", "gen_v1_beat_lenient"]),
    "C03": THEOREMS_V1_ENC + _Q1(["gen_v1_track_readback", "gen_v1_track_total",
                                  "gen_v1_ovw_readback_partial", "gen_v1_hires_roundtrip_partial", "gen_v1_cues_readback",
                                  "gen_v1_cues_reject_partial", "gen_v1_loops_readback_partial", "gen_v1_loops_reject_partial",
                                  "gen_v1_beat_encode_reject", "gen_v1_beat_readback", "decodeBeat_eq", "decodeGrid_eq"]),
    "C05": THEOREMS_V1_EQ + _Q1(["gen_v1_track_safe", "gen_v1_ovw_safe_partial", "gen_v1_hires_safe_partial",
                                 "gen_v1_cues_safe_partial", "gen_v1_loops_safe_partial",
                                 "gen_v1_beat_safe", "encodeBeat_eq", "gen_v1_beat_encode_safe", "gen_v1_ovw_encode_safe_partial",
                                 "gen_v1_hires_encode_safe_partial", "gen_v1_cues_encode_safe_partial",
                                 "gen_v1_loops_encode_safe_partial"]),
}
THEOREMS_V1 = sorted(set(sum(THEOREMS_V1_FOR.values(), [])))
for _k, _v in THEOREMS_V1_FOR.items():
    THEOREMS_FOR[_k] = THEOREMS_FOR[_k] + _v
LEAN_MODULES = LEAN_MODULES + V1_MODULES
# ---- zlib framing: lean/EngineModel/Gen/ZlibGen.lean (tools/tr_zlib.py), design/zlibgen.md
ZLIB_MODULES = ["Proofs.ZlibGenEq", "Properties.C05ZlibGen", "Proofs.ZlibGenCompressEq", "Properties.C03ZlibGen"]
THEOREMS_ZLIB_FOR = {
    "C03": ["EngineModel.Gen.Zlib.compress_eq_partial"] +
           ["EngineModel.Properties.C03ZlibGen." + t for t in
            ["C03_gen_compress_eq_partial", "C03_gen_compress_complete", "C03_gen_compress_empty_ub",
             "C03_gen_compress_chunk_schedule_partial", "C03_gen_compress_finish_only_last_partial"]],
    "C05": ["EngineModel.Gen.Zlib.uncompress_eq_partial"] +
           ["EngineModel.Properties.C05ZlibGen." + t for t in
            ["C05_gen_uncompress_eq_partial", "C05_gen_uncompress_total", "C05_gen_uncompress_no_ub"]],
}
THEOREMS_ZLIB = sorted(set(sum(THEOREMS_ZLIB_FOR.values(), [])))
for _k, _v in THEOREMS_ZLIB_FOR.items():
    THEOREMS_FOR[_k] = THEOREMS_FOR[_k] + _v
LEAN_MODULES = LEAN_MODULES + ZLIB_MODULES
THEOREMS_V2 = sorted(set(t for t in sum(THEOREMS_FOR.values(), []) if t not in THEOREMS_V1 and t not in THEOREMS_ZLIB))
THEOREMS = sorted(set(sum(THEOREMS_FOR.values(), [])))
# C04's transfer file imports Properties.C04; the other properties do not see it (statement printing context)
MODULES_FOR = {"C04": LEAN_MODULES + ["Proofs.ImplV2GenC04"]}
ALL_MODULES = LEAN_MODULES + ["Proofs.ImplV2GenC04"]
TRUSTED_EXTRA = ["tools/tr_zlib.py + lean/EngineModel/Impl/ZlibCxx.lean (clang-14 JSON AST of zlib_uncompress / zlib_compress in "
                 "src/djinterop/engine/encode_decode_utils.cpp -> one state record per function, fuelled do-while loops, "
                 "inflate / deflate as one step of the hand models' oracle types after explicit region checks; mapping in "
                 "design/zlibgen.md)",
                 "tools/tr_blobs_v1.py (clang-14 JSON AST of src/djinterop/engine/v1/performance_data_format.cpp -> cursor / writer "
                 "monad definitions; mapping, struct table and default-initialiser check listed in design/codegen_v1.md)",
                 "tools/tr_blobs.py (clang-14 JSON AST of src/djinterop/engine/v2/*_blob.cpp -> cursor-monad definitions; "
                 "node-kind -> combinator mapping and C++ struct <-> Lean structure table listed in design/codegen.md)"]
ASSUMPTIONS = [
    "regenerated model: the Lean definitions of lean/EngineModel/Gen/ImplV2Gen.lean are produced from clang's typed AST "
    "of the working tree on every run; each is proved equal to the hand model Impl.V2.* (Proofs/ImplV2Gen.lean) "
    "(1.x: lean/EngineModel/Gen/ImplV1Gen.lean from v1/performance_data_format.cpp, equalities in Proofs/ImplV1Gen.lean for "
    "all fifteen functions: the six decoders incl. decode_beatgrid, the six encoders, validate_beatgrid, encode_beatgrid — "
    "Proofs/ImplV1Gen.lean, ImplV1GenEnc.lean, ImplV1GenBeat.lean, ImplV1GenLists.lean, ImplV1GenBeatDec.lean). A "
    "function outside the translator's fragment keeps its last translation (status `unsupported-node: <kind> at "
    "<file:line>` under coverage.translators) and is then tied by the differential run only",
]


def _translate():
    r = subprocess.run([sys.executable, os.path.join(VERIF, "tools", "tr_blobs.py")],
                       stdout=subprocess.PIPE, stderr=subprocess.PIPE, text=True)
    return (r.stdout.strip() or r.stderr.strip()[-300:])


def _translate_v1():
    r = subprocess.run([sys.executable, os.path.join(VERIF, "tools", "tr_blobs_v1.py")],
                       stdout=subprocess.PIPE, stderr=subprocess.PIPE, text=True)
    return (r.stdout.strip() or r.stderr.strip()[-300:])


def _translate_zlib():
    r = subprocess.run([sys.executable, os.path.join(VERIF, "tools", "tr_zlib.py")],
                       stdout=subprocess.PIPE, stderr=subprocess.PIPE, text=True)
    return (r.stdout.strip() or r.stderr.strip()[-300:])


TRANSLATORS = {"v2/*_blob.cpp": _translate, "v1/performance_data_format.cpp": _translate_v1,
               "encode_decode_utils.cpp (zlib_uncompress / zlib_compress)": _translate_zlib}


# ---------------------------------------------------------------------------------------------
# Differential validation of the translator: the regenerated model (driver commands gdec / genc)
# against the real library, on generated values and adversarial payloads of the five 2.x kinds.
# A divergence here on the unchanged tree means the translator's mapping is wrong (or the C++
# changed in a way the equality proofs would also reject).

def gen_stream(ctx, family="v2"):
    import random
    import runner
    from props import _codecs as cd
    rng = random.Random(ctx.seed * 7368787 + (41 if family == "v2" else 43))
    hist = {}
    g = cd.Gen(rng, hist)
    per = 25 if ctx.tier == "quick" else 120
    vals = []
    kinds = cd.KINDS_V2 if family == "v2" else cd.KINDS_V1
    tag = "gen" if family == "v2" else "gen1"
    encc, decc = ("genc", "gdec") if family == "v2" else ("g1enc", "g1dec")
    for k in kinds:
        for _ in range(per):
            vals.append((k, g.value(k)))
    # label lengths around the 255 limit (the encoders' only rejection)
    for L in (0, 1, 254, 255, 256, 300):
        if family == "v2":
            vals.append(("v2.cues", g.v2_cues([L, 2])))
            vals.append(("v2.loops", g.v2_loops([1, L])))
        else:
            vals.append(("v1.cues", g.v1_cues([L, 2, 1, 1, 1, 1, 1, 1])))
            vals.append(("v1.loops", g.v1_loops([1, L, 3, 1, 1, 1, 1, 1])))
    if family == "v1":
        # slot counts around 8, the encoders' rejections of grids (1 marker, unsorted, wide gap) come from g.value
        for n in (0, 7, 9, 12):
            vals.append(("v1.cues", g.v1_cues([2] * n)))
            vals.append(("v1.loops", g.v1_loops([2] * n)))
    enc_h = ["enc %s %s" % (k, cd.enc_text(k, v)) for k, v in vals]
    enc_m = ["%s %s %s" % (encc, k, cd.enc_text(k, v)) for k, v in vals]
    ho = [o for (outs, _) in runner.run_harness(runner.shard(enc_h, NCPU), stateless=True, watchdog=20) for o in outs]
    mo = [o for outs in runner.run_model(runner.shard(enc_m, NCPU)) for o in outs]
    div = []
    n_enc_ok = n_enc_throw = 0
    payloads = []
    for (k, v), l, h, m in zip(vals, enc_h, ho, mo):
        h = " ".join(h.split()[:2])       # `enc` also prints the compressed blob; payload level only
        if h != m:
            div.append({"input": l[:300], "impl": h[:200], "model": "(regenerated) " + m[:200]})
        t = h.split()
        if t and t[0] == "ok":
            n_enc_ok += 1
            payloads.append((k, b"" if len(t) < 2 or t[1] == "-" else bytes.fromhex(t[1])))
        elif t and t[0] == "throw":
            n_enc_throw += 1
    dec = []
    for k, pl in payloads:
        if len(pl) > 3000:
            continue
        dec.append((k, pl))
        cuts = cd.truncations_and_corruptions(pl, rng, all_positions=(len(pl) <= 90 and ctx.tier == "thorough"))
        rng.shuffle(cuts)
        for b in cuts[:12 if ctx.tier == "quick" else 80]:
            dec.append((k, b))
        for _ in range(3 if ctx.tier == "quick" else 20):
            dec.append((k, cd.mutate(pl, rng)))
    for k in kinds:
        for b in cd.boundary_payloads(k, rng):
            dec.append((k, b))
        for n in range(0, 48):
            dec.append((k, bytes(rng.getrandbits(8) for _ in range(n))))
    dh = ["dec %s %s" % (k, cd.hexb(b)) for k, b in dec]
    dm = ["%s %s %s" % (decc, k, cd.hexb(b)) for k, b in dec]
    ho = [o for (outs, _) in runner.run_harness(runner.shard(dh, NCPU), stateless=True, watchdog=10) for o in outs]
    mo = [o for outs in runner.run_model(runner.shard(dm, NCPU)) for o in outs]
    cls = {}
    for l, h, m in zip(dh, ho, mo):
        c = " ".join(h.split()[:1] if h.startswith("ok") else h.split()[:2])
        cls[c] = cls.get(c, 0) + 1
        if h != m:
            div.append({"input": l[:300], "impl": h[:200], "model": "(regenerated) " + m[:200]})
    return {"evaluations": len(enc_h) + len(dh), "divergences": div,
            "histograms": dict({tag + ":enc_ok": n_enc_ok, tag + ":enc_throw": n_enc_throw, tag + ":dec_inputs": len(dh)},
                               **{tag + ":dec_outcome:" + k: v for k, v in cls.items()})}


def wrap_tie(tie):
    """tie' = tie + the stream above (its divergences are divergences of the property's tie)."""
    def tie2(ctx):
        res = tie(ctx)
        for family in ("v2", "v1"):
            try:
                g = gen_stream(ctx, family)
            except Exception as e:            # e.g. the regenerated model no longer compiles into the driver
                import traceback
                g = {"evaluations": 0, "divergences": [{"input": "gen-stream " + family, "impl": "-", "model": "crash: %r" % (e,)}],
                     "histograms": {"gen:crash:" + family: 1}, "crash": traceback.format_exc()}
            res["evaluations"] = int(res.get("evaluations", 0)) + g["evaluations"]
            res.setdefault("histograms", {}).update(g["histograms"])
            if g["divergences"]:
                res["ok"] = False
                res["divergences"] = list(res.get("divergences", [])) + g["divergences"][:10]
        res["rule"] = (res.get("rule", "") + "; plus the model regenerated from the C++ sources (gdec / genc) against the "
                       "real library on generated 2.x and 1.x (g1dec / g1enc) values, their truncations / corruptions / mutations, boundary "
                       "counts and random short inputs (outcome text must be identical)")
        return res
    return tie2


if __name__ == "__main__" and sys.argv[1:2] == ["lock"]:
    import audit
    lb = audit.lake_build()
    if not lb["ok"]:
        raise SystemExit("lake build failed:\n" + lb["log"])
    l = audit.write_lock("ImplV2Gen", THEOREMS_V2, imports=tuple(ALL_MODULES))
    print("locked %d statements (lean/Properties/locks/ImplV2Gen.json)" % len(l))
    l = audit.write_lock("ZlibGen", THEOREMS_ZLIB, imports=tuple(ZLIB_MODULES))
    print("locked %d statements (lean/Properties/locks/ZlibGen.json)" % len(l))
    l = audit.write_lock("ImplV1Gen", THEOREMS_V1, imports=tuple(ALL_MODULES))
    print("locked %d statements (lean/Properties/locks/ImplV1Gen.json)" % len(l))
