"""Regenerated model of the 2.x blob codecs (tools/tr_blobs.py -> lean/EngineModel/Gen/ImplV2Gen.lean) and
the theorems that tie it to the hand-written mirror lean/EngineModel/Impl/V2.lean (lean/Proofs/ImplV2Gen.lean).

Imported by the plugins of C02 and C05 (whose theorems are stated on the hand model): the translator runs on
every check, and the equalities below are re-proved against what it produced.  They are *gen-dependent*: their
statements mention only names (so their locked hashes are stable), their proofs depend on the regenerated bodies.
Statement lock: lean/Properties/locks/ImplV2Gen.json (`python3 tools/props/_implgen.py lock`)."""
import os, subprocess, sys
if __name__ == "__main__":
    sys.path.insert(0, os.path.dirname(os.path.dirname(os.path.abspath(__file__))))
from common import *

LEAN_MODULES = ["Proofs.ImplV2Gen", "Proofs.ImplV2GenEnc", "Proofs.ImplV2GenTransfer"]
_Q = lambda names: ["EngineModel.Gen.ImplV2." + t for t in names]
# regenerated decoder = hand model (every byte string; `_partial`: payload below vector::max_size() / 2^61 bytes)
THEOREMS_EQ = _Q(["decodeTrack_eq", "decodeGrid_eq", "decodeBeat_eq", "decodeOvw_eq_partial",
                  "decodeCues_eq_partial", "decodeLoops_eq_partial"])
# regenerated encoder (explicit primitive writes in C++ order, own byte-order primitives) = Spec bytes
THEOREMS_ENC = _Q(["encodeTrack_spec_partial", "encodeGrid_writes", "encodeBeat_spec_partial", "encodeOvw_spec_partial",
                   "encodeCues_ok_partial", "encodeCues_reject_partial", "encodeLoops_ok_partial",
                   "encodeLoops_reject_partial"])
# C++-style primitives (shifts / masks) = Spec primitives (div / mod): byte order and widths
THEOREMS_PRIM = ["EngineModel.CxxPrims." + t for t in [
    "encode_int32_le_eq", "encode_int32_be_eq", "encode_int64_le_eq", "encode_int64_be_eq",
    "decode_uint8_eq", "decode_int32_le_eq", "decode_int32_be_eq", "decode_int64_le_eq", "decode_int64_be_eq"]]
# the C02 / C03 / C05 statements on the regenerated model
THEOREMS_FOR = {
    "C02": THEOREMS_EQ + THEOREMS_ENC + THEOREMS_PRIM +
           _Q(["gen_track_spec", "gen_grid_spec", "gen_beat_spec", "gen_ovw_spec_partial",
               "gen_cues_spec_partial", "gen_loops_spec_partial"]),
    "C03": THEOREMS_ENC +
           _Q(["gen_track_roundtrip_partial", "gen_beat_roundtrip_partial", "gen_ovw_roundtrip_partial",
               "gen_cues_roundtrip_partial", "gen_loops_roundtrip_partial",
               "gen_encodeTrack_eq_hand_partial", "gen_encodeBeat_eq_hand_partial", "gen_encodeOvw_eq_hand_partial",
               "gen_encodeCues_eq_hand_partial", "gen_encodeLoops_eq_hand_partial"]),
    "C05": THEOREMS_EQ + _Q(["gen_track_safe", "gen_beat_safe", "gen_ovw_safe_partial", "gen_cues_safe_partial",
                             "gen_loops_safe_partial"]),
}
THEOREMS = sorted(set(sum(THEOREMS_FOR.values(), [])))
TRUSTED_EXTRA = ["tools/tr_blobs.py (clang-14 JSON AST of src/djinterop/engine/v2/*_blob.cpp -> cursor-monad definitions; "
                 "node-kind -> combinator mapping and C++ struct <-> Lean structure table listed in design/codegen.md)"]
ASSUMPTIONS = [
    "regenerated model: the Lean definitions of lean/EngineModel/Gen/ImplV2Gen.lean are produced from clang's typed AST "
    "of the working tree on every run; each is proved equal to the hand model Impl.V2.* (Proofs/ImplV2Gen.lean). A "
    "function outside the translator's fragment keeps its last translation (status `unsupported-node: <kind> at "
    "<file:line>` under coverage.translators) and is then tied by the differential run only",
]


def _translate():
    r = subprocess.run([sys.executable, os.path.join(VERIF, "tools", "tr_blobs.py")],
                       stdout=subprocess.PIPE, stderr=subprocess.PIPE, text=True)
    return (r.stdout.strip() or r.stderr.strip()[-300:])


TRANSLATORS = {"v2/*_blob.cpp": _translate}


if __name__ == "__main__" and sys.argv[1:2] == ["lock"]:
    import audit
    lb = audit.lake_build()
    if not lb["ok"]:
        raise SystemExit("lake build failed:\n" + lb["log"])
    l = audit.write_lock("ImplV2Gen", THEOREMS, imports=tuple(LEAN_MODULES))
    print("locked %d statements (lean/Properties/locks/ImplV2Gen.json)" % len(l))
