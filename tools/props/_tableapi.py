"""Generators, text forms, runners and the direct oracle of property C18 (the
schema-2.x table API).  Row text = harness/djv_tableapi.cpp rd_*_row / wr_*_row =
lean/EngineModel/Driver/Cmds/TableApi.lean pRowOf / sRowOf.

A row is a dict member -> value; values by declared type:
  i64 int | oi64/oi32 int or None | str bytes | ostr bytes or None | odbl 16-hex or None |
  bool | time int (ns) | otime int or None | blob:<kind> a props._codecs value dict.
"""
import random, re
from common import *
import runner
from props import _codecs as cd

SCHEMAS = ["schema_2_18_0", "schema_2_20_1", "schema_2_20_2", "schema_2_20_3", "schema_2_21_0",
           "schema_2_21_1", "schema_2_21_2"]

TRACK_FIELDS = [
    ("id", "i64"), ("play_order", "oi64"), ("length", "i64"), ("bpm", "oi64"), ("year", "oi64"), ("path", "str"),
    ("filename", "str"), ("bitrate", "oi64"), ("bpm_analyzed", "odbl"), ("album_art_id", "i64"),
    ("file_bytes", "oi64"), ("title", "ostr"), ("artist", "ostr"), ("album", "ostr"), ("genre", "ostr"),
    ("comment", "ostr"), ("label", "ostr"), ("composer", "ostr"), ("remixer", "ostr"), ("key", "oi32"),
    ("rating", "i64"), ("album_art", "ostr"), ("time_last_played", "otime"), ("is_played", "bool"),
    ("file_type", "str"), ("is_analyzed", "bool"), ("date_created", "time"), ("date_added", "time"),
    ("is_available", "bool"), ("is_metadata_of_packed_track_changed", "bool"),
    ("is_performance_data_of_packed_track_changed", "bool"), ("played_indicator", "oi64"),
    ("is_metadata_imported", "bool"), ("pdb_import_key", "i64"), ("streaming_source", "ostr"), ("uri", "ostr"),
    ("is_beat_grid_locked", "bool"), ("origin_database_uuid", "str"), ("origin_track_id", "i64"),
    ("track_data", "blob:v2.track"), ("overview_waveform_data", "blob:v2.ovw"), ("beat_data", "blob:v2.beat"),
    ("quick_cues", "blob:v2.cues"), ("loops", "blob:v2.loops"), ("third_party_source_id", "oi64"),
    ("streaming_flags", "i64"), ("explicit_lyrics", "bool"), ("active_on_load_loops", "oi64"),
    ("last_edit_time", "time")]
TRACK_TY = dict(TRACK_FIELDS)
# type the accessor pair exchanges (public header): the creation dates travel as optional time points
TRACK_ACC_TY = dict(TRACK_TY, date_created="otime", date_added="otime")
TRACK_GUARD = {"active_on_load_loops": "schema_2_20_1", "last_edit_time": "schema_2_20_3"}

PLAYLIST_FIELDS = [("id", "i64"), ("title", "str"), ("parent_list_id", "i64"), ("is_persisted", "bool"),
                   ("next_list_id", "i64"), ("last_edit_time", "time"), ("is_explicitly_exported", "bool")]
ENTITY_FIELDS = [("id", "i64"), ("list_id", "i64"), ("track_id", "i64"), ("database_uuid", "str"),
                 ("next_entity_id", "i64"), ("membership_reference", "i64")]


def sge(s, t):
    return SCHEMAS.index(s) >= SCHEMAS.index(t)


# ------------------------------------------------------------------ text
def tok(ty, v):
    if ty == "i64" or ty == "time":
        return str(v)
    if ty in ("oi64", "oi32", "otime"):
        return "none" if v is None else str(v)
    if ty == "str":
        return cd.hexb(v)
    if ty == "ostr":
        return "none" if v is None else "s" + cd.hexb(v)
    if ty == "odbl":
        return "none" if v is None else v
    if ty == "bool":
        return "1" if v else "0"
    if ty.startswith("blob:"):
        return cd.text(ty[5:], v)
    raise KeyError(ty)


def fmt_row(fields, r):
    return " ".join(tok(ty, r[f]) for f, ty in fields)


def ntok(ty, toks, i):
    """number of tokens the value of type ty occupies starting at toks[i]"""
    if not ty.startswith("blob:"):
        return 1
    k = ty[5:]
    if k == "v2.track":
        return 7
    if k == "v2.ovw":
        return 4
    if k == "v2.beat":
        n1 = int(toks[i + 3])
        j = i + 4 + 4 * n1
        n2 = int(toks[j])
        return (j + 1 + 4 * n2 + 1) - i
    if k == "v2.cues":
        n = int(toks[i])
        return 1 + 6 * n + 4
    if k == "v2.loops":
        n = int(toks[i])
        return 1 + 9 * n + 1
    raise KeyError(ty)


def split_row(fields, text):
    """row text -> dict member -> substring as printed"""
    t = text.split()
    i, out = 0, {}
    for f, ty in fields:
        n = ntok(ty, t, i)
        out[f] = " ".join(t[i:i + n])
        i += n
    if i != len(t):
        raise ValueError("row text has %d tokens, parsed %d" % (len(t), i))
    return out


# ------------------------------------------------------------------ value generators
TIME_EDGES = [0, 1, -1, 999999999, 1000000000, -999999999, -1000000000, 1500000000123456789, -1500000000999999999,
              2 ** 63 - 1, -2 ** 63, -2 ** 63 + 1, 1700000000000000000, 86400 * 10 ** 9 - 1, 253402300799 * 10 ** 6,
              0, 10 ** 9, -10 ** 9, 1999999999, -1999999999, 9223372036 * 10 ** 9, -9223372036 * 10 ** 9]
STR_POOL = [b"", b"a", b"Artist", "Série 世界".encode(), b"semi;colon", b"sl/ash.dot", b"nul\x00in", b"\xff\xfe\x00bad",
            b"x" * 255, b"y" * 256, b"z" * 300, b"'quote\"", b" lead", b"%_like"]


class G:
    def __init__(self, rng, hist):
        self.r = rng
        self.h = hist
        self.cg = cd.Gen(rng, hist.setdefault("blob_values", {}))
        self.n = 0

    def count(self, k, n=1):
        self.h[k] = self.h.get(k, 0) + n

    def i64(self):
        return self.cg.i64()

    def time(self):
        r = self.r
        if r.random() < 0.6:
            return r.choice(TIME_EDGES)
        return r.randrange(-2 ** 63, 2 ** 63) if r.random() < 0.3 else r.randrange(0, 2 * 10 ** 18)

    def s(self):
        r = self.r
        c = r.random()
        if c < 0.55:
            return r.choice(STR_POOL)
        if c < 0.8:
            return bytes(r.randrange(256) for _ in range(r.choice([1, 2, 7, 40])))
        return ("T%d " % r.randrange(1000)).encode() + r.choice(STR_POOL)

    def blob(self, kind):
        r = self.r
        c = r.random()
        if c < 0.45:      # small default-like values keep most scripts cheap
            if kind == "v2.track":
                return dict(sr=cd.dbits(44100.0), samples=r.choice([0, 1000, 10584000]), key=r.choice([0, 3, 24]),
                            lo=self.cg.f(), mid=cd.ZERO, hi=cd.ZERO, extra=b"")
            if kind == "v2.ovw":
                return dict(spp=cd.dbits(1.0), pts=b"", mx=b"\0\0\0", extra=b"")
            if kind == "v2.beat":
                return dict(sr=cd.dbits(44100.0), samples=cd.dbits(1000.0), flag=0, dflt=[], adj=[], extra=b"")
            if kind == "v2.cues":
                return dict(cues=[], adj=cd.ZERO, flag=0, dflt=cd.ZERO, extra=b"")
            return dict(loops=[], extra=b"")
        v = self.cg.value(kind)
        if kind in ("v2.cues", "v2.loops") and not cd.format_can_hold(kind, v) and r.random() < 0.85:
            key = "cues" if kind == "v2.cues" else "loops"
            v[key] = [q for q in v[key] if len(q[0]) <= 255]
        if kind == "v2.ovw" and len(v["pts"]) > 300:
            v["pts"] = v["pts"][:300]
        if kind == "v2.beat" and len(v["dflt"]) > 8:
            v["dflt"] = v["dflt"][:8]
        return v

    def val(self, ty):
        r = self.r
        if ty == "i64":
            return self.i64()
        if ty == "oi64":
            return None if r.random() < 0.3 else self.i64()
        if ty == "oi32":
            return None if r.random() < 0.3 else self.cg.i32()
        if ty == "str":
            return self.s()
        if ty == "ostr":
            return None if r.random() < 0.3 else self.s()
        if ty == "odbl":
            return None if r.random() < 0.25 else self.cg.f()
        if ty == "bool":
            return r.random() < 0.5
        if ty == "time":
            return self.time()
        if ty == "otime":
            return None if r.random() < 0.3 else self.time()
        if ty.startswith("blob:"):
            return self.blob(ty[5:])
        raise KeyError(ty)

    def track_row(self, rid=0, taken_paths=(), taken_origins=()):
        r = self.r
        row = {f: self.val(ty) for f, ty in TRACK_FIELDS}
        row["id"] = rid
        self.n += 1
        c = r.random()
        if taken_paths and c < 0.08:
            row["path"] = r.choice(list(taken_paths))
            self.count("row:path_duplicate")
        else:
            row["path"] = self.s() + b"/%d" % self.n if r.random() < 0.9 else self.s()
        c = r.random()
        if c < 0.5:
            row["origin_database_uuid"], row["origin_track_id"] = b"", 0
            self.count("row:origin_unset_both")
        elif c < 0.6:
            row["origin_track_id"] = 0
            row["origin_database_uuid"] = b"other-db"
            self.count("row:origin_unset_id")
        elif c < 0.7:
            row["origin_database_uuid"] = b""
            row["origin_track_id"] = r.choice([5, 77, self.i64() or 1])
            self.count("row:origin_unset_uuid")
        elif taken_origins and c < 0.78:
            row["origin_database_uuid"], row["origin_track_id"] = r.choice(list(taken_origins))
            self.count("row:origin_duplicate")
        else:
            row["origin_database_uuid"] = r.choice([b"other-db", b"db-2", self.s() or b"u"])
            row["origin_track_id"] = (self.i64() or 1) if r.random() < 0.5 else 1000 + self.n
            self.count("row:origin_set")
        return row


def encodable(row):
    return cd.format_can_hold("v2.cues", row["quick_cues"]) and cd.format_can_hold("v2.loops", row["loops"])


# ------------------------------------------------------------------ histories
MUTATING = ("tt.add", "tt.update", "tt.remove", "tt.setc", "tpl.add", "tpl.update", "tpl.remove", "tpe.add",
            "tpe.remove", "tpe.clear", "inf.setcpi", "tt.uuid", "tt.clock", "tt.create")


def gen_track_history(rng, schema, nops, hist):
    """One stateful script for track_table.  Returns the list of lines."""
    g = G(rng, hist)
    uuid = rng.choice([b"lib-uuid-1", b"lib-uuid-1", b"u", b"", b"other-db"])
    clock = rng.choice([1700000000, 1700000001, 0, 5, 4102444800, -5])
    # the current-played indicator is random at creation: pin it, so that the Information row is known
    lines = ["#mode tableapi", "tt.create " + schema, "tt.uuid " + cd.hexb(uuid), "tt.clock %d" % clock,
             "inf.setcpi %d" % rng.choice([0, 7, -1, 2 ** 62])]
    live, next_id = [], 1
    paths, origins = [], []
    fields = [f for f, _ in TRACK_FIELDS if f != "id"]

    def some_id(missing_ok=True):
        c = rng.random()
        if live and c < 0.8:
            return rng.choice(live)
        if missing_ok and c < 0.9:
            return rng.choice([next_id, next_id + 3, 0, -1, 999, 2 ** 63 - 1])
        return rng.choice(live) if live else next_id

    for _ in range(nops):
        c = rng.random()
        if c < 0.30 or not live:
            row = g.track_row(0 if rng.random() < 0.96 else rng.choice([1, 7, -1]), paths, origins)
            lines.append("tt.add " + fmt_row(TRACK_FIELDS, row))
            g.count("op:add")
            # bookkeeping is optimistic (the id is only consumed when the insert succeeds); the
            # oracle reads the real ids from the implementation's answers
            lines.append("tt.get %d" % next_id)
            if row["id"] == 0 and encodable(row):
                live.append(next_id)
                paths.append(row["path"])
                if row["origin_track_id"] != 0 and row["origin_database_uuid"] != b"":
                    origins.append((row["origin_database_uuid"], row["origin_track_id"]))
                next_id += 1
        elif c < 0.45:
            i = some_id()
            row = g.track_row(i, paths, origins)
            lines.append("tt.get %d" % i)
            lines.append("tt.update " + fmt_row(TRACK_FIELDS, row))
            lines.append("tt.get %d" % i)
            g.count("op:update")
        elif c < 0.70:
            i = some_id()
            f = rng.choice(fields)
            v = g.val(TRACK_ACC_TY[f])
            if f == "origin_track_id" and rng.random() < 0.5:
                v = 0
            if f == "origin_database_uuid" and rng.random() < 0.5:
                v = b""
            frame = rng.random() < 0.5
            if frame:
                lines.append("tt.raw")
            lines.append("tt.get %d" % i)
            lines.append("tt.setc %s %d %s" % (f, i, tok(TRACK_ACC_TY[f], v)))
            lines.append("tt.get %d" % i)
            lines.append("tt.getc %s %d" % (f, i))
            if frame:
                lines.append("tt.raw")
            g.count("op:setc")
            g.count("setc:" + f)
        elif c < 0.82:
            i = some_id()
            lines.append("tt.get %d" % i)
            for f in rng.sample(fields, 4):
                lines.append("tt.getc %s %d" % (f, i))
                g.count("op:getc")
        elif c < 0.90:
            i = some_id()
            lines.append("tt.ids")
            lines.append("tt.exists %d" % i)
            lines.append("tt.remove %d" % i)
            lines.append("tt.exists %d" % i)
            lines.append("tt.ids")
            g.count("op:remove")
            if i in live:
                live.remove(i)
        elif c < 0.94:
            clock = rng.choice([min(clock + 1, 9223372036), min(clock + 86400, 9223372036), 0, 1700000000, 9223372036, -9223372036])
            lines.append("tt.clock %d" % clock)
            g.count("op:clock")
        elif c < 0.97:
            uuid = rng.choice([b"lib-uuid-1", b"u2", b""])
            lines.append("tt.uuid " + cd.hexb(uuid))
            g.count("op:uuid")
        elif c < 0.985:
            lines.append("tt.raw")
            lines.append("tt.find " + cd.hexb(rng.choice(paths) if (paths and rng.random() < 0.8) else b"nope"))
            g.count("op:find")
        else:
            v = rng.choice([0, 1, -1, 5, 2 ** 63 - 1, -2 ** 63, g.i64()])
            lines += ["inf.raw", "inf.setcpi %d" % v, "inf.get", "inf.raw"]
            g.count("op:inf")
        if lines[-1].split()[0] in ("tt.get", "tt.getc", "tt.exists") and rng.random() < 0.7:
            lines.append("tt.ids")
            lines.append("tt.raw")
    lines.append("tt.ids")
    lines.append("tt.raw")
    return lines


def gen_boundary_script(schema):
    """Deterministic (seed-independent) boundary rows: every optional integer / optional time point PRESENT with
    the values 0, 1, -1 (seconds for time points, plus sub-second remainders), every plain integer and time
    point at 0 / +-1, every optional string present-and-empty, every optional double +0.0 — written by add(),
    update() and by each setter, read back by get() and by every getter.  A conversion that treats a stored
    zero as "absent" (or an absent value as zero) shows here on every run."""
    g = G(random.Random(18), {})
    lines = ["#mode tableapi", "tt.create " + schema, "tt.uuid " + cd.hexb(b"lib-uuid-1"), "tt.clock 1700000000",
             "inf.setcpi 0"]
    fields = [f for f, _ in TRACK_FIELDS if f != "id"]

    def row(rid, k, n):
        r = {}
        for f, ty in TRACK_FIELDS:
            if ty in ("i64", "oi64", "oi32"):
                r[f] = k
            elif ty in ("time", "otime"):
                r[f] = k * 10 ** 9 + (0 if n % 2 == 0 else (999999999 if k >= 0 else -999999999))
            elif ty == "str":
                r[f] = b""
            elif ty == "ostr":
                r[f] = b""
            elif ty == "odbl":
                r[f] = cd.ZERO if k == 0 else cd.dbits(float(k))
            elif ty == "bool":
                r[f] = k != 0
            else:
                r[f] = g.blob(ty[5:]) if False else {"v2.track": dict(sr=cd.ZERO, samples=0, key=0, lo=cd.ZERO, mid=cd.ZERO, hi=cd.ZERO, extra=b""),
                                                      "v2.ovw": dict(spp=cd.ZERO, pts=b"", mx=b"\0\0\0", extra=b""),
                                                      "v2.beat": dict(sr=cd.ZERO, samples=cd.ZERO, flag=0, dflt=[], adj=[], extra=b""),
                                                      "v2.cues": dict(cues=[], adj=cd.ZERO, flag=0, dflt=cd.ZERO, extra=b""),
                                                      "v2.loops": dict(loops=[], extra=b"")}[ty[5:]]
        r["id"] = rid
        r["path"] = b"p%d_%d" % (n, k)
        r["origin_database_uuid"], r["origin_track_id"] = b"other-db", 100 + n
        return r
    n = 0
    for k in (0, 1, -1):
        n += 1
        lines.append("tt.add " + fmt_row(TRACK_FIELDS, row(0, k, n)))
        lines.append("tt.get %d" % n)
        for f in fields:
            lines.append("tt.getc %s %d" % (f, n))
    # update row 1 with the sub-second variants, rows 2 / 3 crosswise
    for (i, k) in ((1, -1), (2, 0), (3, 1)):
        n += 1
        lines.append("tt.get %d" % i)
        lines.append("tt.update " + fmt_row(TRACK_FIELDS, row(i, k, n)))
        lines.append("tt.get %d" % i)
    # every optional / time setter with 0, +-1 s and absent
    for f in fields:
        ty = TRACK_ACC_TY[f]
        if ty in ("oi64", "oi32", "otime", "time"):
            for v in ([0, 1, -1, None] if ty.startswith("o") else [0, 10 ** 9, -10 ** 9]):
                if ty in ("otime",) and v not in (None,):
                    v = v * 10 ** 9 if abs(v) < 10 ** 6 else v
                lines.append("tt.get 2")
                lines.append("tt.setc %s 2 %s" % (f, tok(ty, v)))
                lines.append("tt.get 2")
                lines.append("tt.getc %s 2" % f)
    lines += ["tt.ids", "tt.raw"]
    return lines


def gen_crosslist_script(schema):
    """Deterministic: two playlists with entities of both; every (list, entity) operation is also issued with
    the id of the OTHER list, with the arguments transposed, and with ids that do not exist; raw rows around
    each call."""
    L = ["#mode tableapi", "tt.create " + schema,
         "tpl.add 0 %s 0 0 0 0 0" % cd.hexb(b"A"), "tpl.add 0 %s 0 0 0 0 0" % cd.hexb(b"B"), "tpl.ids"]
    for (l, t, u) in ((1, 1, b"a"), (2, 1, b"a"), (1, 2, b"a"), (2, 2, b"b"), (1, 3, b"b")):
        L += ["tpe.raw", "tpe.add 0 %d %d %s 0 0 0" % (l, t, cd.hexb(u)), "tpe.get %d %d" % (l, t),
              "tpe.get3 %d %d %s" % (l, t, cd.hexb(u))]
    # entities: 1:(1,1) 2:(2,1) 3:(1,2) 4:(2,2) 5:(1,3)
    for (l, e) in ((2, 1), (1, 2), (1, 1000), (3, 1), (0, 1), (1, 1), (1, 1), (2, 3), (3, 1), (5, 1), (2, 2), (2, 5), (1, 5)):
        L += ["tpe.raw", "tpe.remove %d %d" % (l, e), "tpe.raw", "tpe.list 1", "tpe.list 2", "tpe.tracks 1"]
    L += ["tpe.get3 1 2 %s" % cd.hexb(b"a"), "tpe.get3 2 2 %s" % cd.hexb(b"a"), "tpe.get 2 2", "tpe.raw",
          "tpe.clear 2", "tpe.raw", "tpe.list 2", "tpe.list 1"]
    return L


# ------------------------------------------------------------------ list tables (Playlist, PlaylistEntity)
class PlSim:
    """What the generator needs to know about the Playlist table to choose meaningful and
    cycle-free arguments: ids, titles, parents, next pointers, under the UNIQUE constraints and the
    splice triggers (the isPersist triggers never make a statement fail).  A parent cycle would make
    the schema's recursive views run forever, so it must never be generated."""

    def __init__(self):
        self.rows, self.seq = {}, 0

    @staticmethod
    def unique(rows):
        a, b = set(), set()
        for r in rows.values():
            k1, k2 = (r["title"], r["parent"]), (r["parent"], r["next"])
            if k1 in a or k2 in b:
                return False
            a.add(k1)
            b.add(k2)
        return True

    @staticmethod
    def valid(title):
        return len(title) > 0 and b";" not in title

    def add(self, rid, title, parent, nxt):
        if rid != 0 or not self.valid(title):
            return None
        rows = {k: dict(v) for k, v in self.rows.items()}
        for r in rows.values():
            if r["next"] == nxt and r["parent"] == parent:
                r["next"] = -(1 + r["next"])
        if not self.unique(rows):
            return None
        i = self.seq + 1
        rows[i] = dict(title=title, parent=parent, next=nxt)
        if not self.unique(rows):
            return None
        for k, r in rows.items():
            if r["next"] == -(1 + nxt) and r["parent"] == parent:
                r["next"] = i
        if not self.unique(rows):
            return None
        self.rows, self.seq = rows, i
        return i

    def descendants(self, i):
        out, queue = [], [i]
        while queue:
            q = queue.pop(0)
            kids = [k for k in sorted(self.rows) if self.rows[k]["parent"] == q]
            out += kids
            queue += kids
            if len(out) > 10000:
                raise RuntimeError("cycle")
        return out

    def update(self, i, title, parent, nxt):
        if i == 0 or not self.valid(title) or i not in self.rows:
            return False
        rows = {k: dict(v) for k, v in self.rows.items()}
        old = rows[i]
        op, on = old["parent"], old["next"]
        if on == nxt and op == parent:
            rows[i]["title"] = title
            if not self.unique(rows):
                return False
        else:
            rows[i]["next"] = -(1 + rows[i]["next"])
            if not self.unique(rows):
                return False
            for r in rows.values():
                if r["next"] == i and r["parent"] == op:
                    r["next"] = on
            if not self.unique(rows):
                return False
            for r in rows.values():
                if r["next"] == nxt and r["parent"] == parent:
                    r["next"] = i
            if not self.unique(rows):
                return False
            rows[i].update(title=title, parent=parent, next=nxt)
            if not self.unique(rows):
                return False
        self.rows = rows
        return True

    def remove(self, i):
        if i not in self.rows:
            return False
        rows = {k: dict(v) for k, v in self.rows.items()}
        for j in [i] + self.descendants(i):
            if j not in rows:
                continue
            old = rows.pop(j)
            for r in rows.values():
                if r["next"] == j:
                    r["next"] = old["next"]
            if not self.unique(rows):
                return False
            for k in [k for k, r in rows.items() if r["parent"] == j]:
                del rows[k]
        self.rows = rows
        return True


TITLES = [b"Crate", b"A", b"B", "Série 世界".encode(), b"with space", b"sl/ash", b"nul\x00in", b"x" * 255, b"y" * 300,
          b"'q\"", b"%_"]
UUIDS = [b"lib-uuid-1", b"lib-uuid-1", b"a", b"b", b"", b"other\x00db"]
FT_EDGES = [0, 1, -1, 999999999, -999999999, 1000000000, 1500000000123456789, -1500000000999999999,
            2 ** 63 - 1, 1700000000000000000, 86399999999999, 951782400 * 10 ** 9, 4102444800 * 10 ** 9,
            -9223372036000000000, -2208988800 * 10 ** 9]


def gen_list_history(rng, schema, nops, hist):
    """One stateful script over playlist_table and playlist_entity_table."""
    def count(k):
        hist[k] = hist.get(k, 0) + 1
    sim = PlSim()
    lines = ["#mode tableapi", "tt.create " + schema]
    ent_ids, ent_list = 0, {}
    n = 0

    def title():
        nonlocal n
        n += 1
        c = rng.random()
        if c < 0.06:
            count("title:invalid")
            return rng.choice([b"", b"semi;colon", b";"])
        if c < 0.16 and sim.rows:
            count("title:reused")
            return rng.choice(list(sim.rows.values()))["title"]
        return rng.choice(TITLES) + b" %d" % n

    def ft():
        return rng.choice(FT_EDGES) if rng.random() < 0.7 else rng.randrange(-9223372036 * 10 ** 9, 2 ** 63)

    def some_pl(missing_ok=True):
        ids = sorted(sim.rows)
        c = rng.random()
        if ids and c < 0.8:
            return rng.choice(ids)
        if missing_ok:
            return rng.choice([sim.seq + 1, 0, -1, 999, 2 ** 63 - 1])
        return rng.choice(ids) if ids else 0

    def place(parent, exclude=None):
        """a next_list_id under `parent`: the end, before an existing sibling, or junk"""
        sibs = [k for k, r in sim.rows.items() if r["parent"] == parent and k != exclude]
        c = rng.random()
        if c < 0.45 or not sibs:
            return 0 if c < 0.93 else rng.choice([555, -7, 2 ** 40])
        return rng.choice(sibs)

    def fmt(i, t, p, per, nx, le, ex):
        return "%d %s %d %d %d %d %d" % (i, cd.hexb(t), p, 1 if per else 0, nx, le, 1 if ex else 0)

    for _ in range(nops):
        c = rng.random()
        ids = sorted(sim.rows)
        if c < 0.28 or not ids:
            parent = 0 if (not ids or rng.random() < 0.35) else rng.choice(ids)
            if rng.random() < 0.05:
                parent = 1000 + rng.randrange(50)          # no such playlist (never an assigned id)
            rid = 0 if rng.random() < 0.96 else rng.choice([1, -1, 9])
            t, nx = title(), place(parent)
            per = rng.random() < 0.5
            lines.append("tpl.add " + fmt(rid, t, parent, per, nx, ft(), rng.random() < 0.5))
            got = sim.add(rid, t, parent, nx)
            lines.append("tpl.get %d" % (got if got else sim.seq + 1))
            count("op:tpl.add")
            count("tpl.add:" + ("accepted" if got else "rejected"))
        elif c < 0.48:
            i = some_pl()
            old = sim.rows.get(i)
            if old and rng.random() < 0.5:
                parent, nx = old["parent"], old["next"]                 # simple path
                count("tpl.update:same-position")
            else:
                banned = set([i] + (sim.descendants(i) if old else []))
                cands = [k for k in ids if k not in banned] + [0, 0]
                parent = rng.choice(cands)
                nx = place(parent, exclude=i)
                count("tpl.update:move")
            t = old["title"] if (old and rng.random() < 0.5) else title()
            lines.append("tpl.get %d" % i)
            lines.append("tpl.update " + fmt(i, t, parent, rng.random() < 0.5, nx, ft(), rng.random() < 0.5))
            sim.update(i, t, parent, nx)
            lines.append("tpl.get %d" % i)
            count("op:tpl.update")
        elif c < 0.56:
            i = some_pl()
            lines.append("tpl.ids")
            lines.append("tpl.remove %d" % i)
            sim.remove(i)
            lines.append("tpl.exists %d" % i)
            count("op:tpl.remove")
        elif c < 0.80:
            l = some_pl() if rng.random() < 0.9 else rng.choice([0, 77])
            t = rng.choice([1, 1, 2, 3, 4, 5, 0, -1, 2 ** 40])
            u = rng.choice(UUIDS)
            dup = rng.random() < 0.3
            lines.append("tpe.raw")
            lines.append("tpe.add 0 %d %d %s %d %d %d" % (l, t, cd.hexb(u), rng.choice([0, 0, 77, -1]),
                                                     rng.choice([0, 0, 1, -5, 2 ** 62]), 1 if dup else 0)
                         if rng.random() < 0.96 else "tpe.add 3 %d %d %s 0 0 0" % (l, t, cd.hexb(u)))
            lines.append("tpe.get %d %d" % (l, t))
            lines.append("tpe.get3 %d %d %s" % (l, t, cd.hexb(u)))
            if rng.random() < 0.5:
                lines += ["tpe.raw", "tpe.list %d" % l, "tpe.tracks %d" % l]
            ent_ids += 1            # optimistic: duplicates and rejected rows consume no id
            ent_list[ent_ids] = l
            count("op:tpe.add")
        elif c < 0.88:
            l = some_pl()
            lines.append("tpe.raw")
            e = rng.randrange(1, ent_ids + 1) if (ent_ids and rng.random() < 0.8) else rng.choice([99, 0, -1])
            c2 = rng.random()
            if c2 < 0.5:
                l = ent_list.get(e, l)
                count("tpe.remove:own-list")
            elif c2 < 0.8 and e in ent_list:
                # an entity that exists, named under ANOTHER list (existing or not): the pair does not exist
                others = [x for x in sorted(set(list(sim.rows) + list(ent_list.values()) + [0, 77])) if x != ent_list[e]]
                l = rng.choice(others)
                count("tpe.remove:cross-list")
            elif c2 < 0.9 and e in ent_list:
                l, e = e, ent_list[e]                  # arguments transposed
                count("tpe.remove:transposed")
            else:
                count("tpe.remove:random-list")
            lines.append("tpe.remove %d %d" % (l, e))
            lines.append("tpe.raw")
            if rng.random() < 0.5:
                lines += ["tpe.list %d" % l, "tpe.tracks %d" % l]
            count("op:tpe.remove")
        elif c < 0.92:
            lines.append("tpe.clear %d" % some_pl())
            count("op:tpe.clear")
        else:
            l = some_pl()
            lines.append("tpe.get %d %d" % (l, rng.choice([1, 2, 3, 9])))
            lines.append("tpe.get3 %d %d %s" % (l, rng.choice([1, 2, 3, 9]), cd.hexb(rng.choice(UUIDS))))
            lines += ["tpe.raw", "tpe.list %d" % l]
            lines.append("tpl.get %d" % some_pl())
            lines += ["tpl.ids", "tpl.exists %d" % some_pl()]
            count("op:get")
        if rng.random() < 0.6:
            lines += ["tpl.raw", "tpe.raw"]
    lines += ["tpl.ids", "tpl.raw", "tpe.raw"]
    return lines


# ------------------------------------------------------------------ running
def run_pair(scripts, watchdog=20):
    """-> list of (lines, impl outputs, model outputs)"""
    h = runner.run_harness(scripts, watchdog=watchdog, stateless=False)
    m = runner.run_model(scripts)
    return [(s, ho, mo) for s, (ho, _), mo in zip(scripts, h, m)]


def spec_eval(lines):
    """Evaluate Spec commands (stateless) in the model driver, sharded."""
    if not lines:
        return []
    shards = [["#mode tableapi"] + sh for sh in runner.shard(lines, NCPU)]
    return [o for outs in runner.run_model(shards) for o in outs[1:]]


# ------------------------------------------------------------------ the direct oracle
class Oracle:
    """Judges the implementation's own answers of one script with the executable Spec
    (lean: normRowT / normSetT / toAcc through the `c18.*` driver commands).  Collects the
    Spec queries first (`collect`), then `judge`s once they are evaluated."""

    def __init__(self, lines, impl):
        self.lines, self.impl = lines, impl
        self.queries = []       # (spec line, kind, line index, what to compare with, description)
        self.direct = []        # violations that need no Spec evaluation
        self.pl_ids = None      # the implementation's own playlist id list, while current
        self.pl_le = {}         # playlist id -> last-edit time last written to it (ns)
        self.pe_rows = None     # the implementation's own raw PlaylistEntity rows, while current

    def collect(self):
        L, H = self.lines, self.impl
        schema, uuid, clock = None, "null", 0
        ids = None              # the implementation's own id list, when last observed and still current
        for k, (l, h) in enumerate(zip(L, H)):
            t = l.split()
            if not t or t[0].startswith("#"):
                continue
            cmd = t[0]
            if h.startswith("ub "):
                if cmd == "tpl.get" and self.pl_le.get(int(t[1]), 0) < -9223372036000000000:
                    self.direct.append((k, "last-edit-floor-overflow",
                                        "get() of a playlist whose last-edit time lies in the first second of the "
                                        "time-point range has undefined behaviour (%s)" % h))
                elif cmd in ("tpe.list", "tpe.tracks") and self.pe_rows is not None and \
                        [r for r in self.pe_rows if r["listId"] == "i" + t[1]] and \
                        not [r for r in self.pe_rows if r["listId"] == "i" + t[1] and r["nextEntityId"] == "i0"]:
                    self.direct.append((k, "get-for-list-no-tail",
                                        "get_for_list / track_ids on a list whose entities include none without a next "
                                        "entity dereferences end() of its map (%s)" % h))
                else:
                    self.direct.append((k, "ub", "undefined behaviour (%s) in %s" % (h, cmd)))
                break
            if h.startswith("skipped") or h.startswith("missing"):
                break
            if cmd == "tt.create":
                schema, uuid, clock, ids = t[1], "null", 0, []
                self.pl_ids, self.pe_rows = [], []
            elif cmd == "tt.uuid":
                uuid = t[1]
            elif cmd == "tt.clock":
                clock = int(t[1])
            elif cmd == "tt.ids" and h.startswith("ok ["):
                new_ids = [int(x) for x in h[4:-1].split(",") if x]
                if ids is not None and sorted(ids) != sorted(new_ids):
                    self.direct.append((k, "all-ids", "all_ids() answers %s; the ids assigned by add() and not removed since "
                                                      "the last listing are %s" % (sorted(new_ids), sorted(ids))))
                ids = new_ids
            elif cmd == "tt.exists" and h.startswith("ok "):
                if ids is not None and (h == "ok 1") != (int(t[1]) in ids):
                    self.direct.append((k, "exists", "exists(%s) answers '%s' but all_ids() / add() / remove() say the id is %s"
                                        % (t[1], h, "present" if int(t[1]) in ids else "absent")))
            elif cmd == "tt.find" and k >= 1 and L[k - 1] == "tt.raw" and H[k - 1].startswith("ok ") and t[1] != "-":
                rows = raw_rows(H[k - 1])
                hits = [i for i, row in rows.items() if re.search(r" path=s%s " % re.escape(t[1]), " " + row + " ")]
                if (not hits and h != "ok none") or (hits and (not h.startswith("ok ") or h == "ok none" or int(h[3:]) not in hits)):
                    self.direct.append((k, "find-id-by-path", "find_id_by_path answers '%s'; rows holding that path: %s" % (h, hits)))
            elif cmd == "inf.setcpi":
                if h == "ok" and k >= 1 and k + 2 < len(L) and L[k - 1] == "inf.raw" and L[k + 2] == "inf.raw" \
                        and H[k - 1].startswith("ok ") and H[k + 2].startswith("ok "):
                    a, b = parse_raw(H[k - 1]), parse_raw(H[k + 2])
                    if len(a) == 1 and len(b) == 1:
                        changed = sorted(c for c in a[0] if a[0][c] != b[0].get(c))
                        if changed not in ([], ["currentPlayedIndiciator"]) or b[0].get("currentPlayedIndiciator") != "i" + t[1]:
                            self.direct.append((k, "info-set-frame", "update_current_played_indicator(%s) changed columns %s "
                                                "(currentPlayedIndiciator is now %s)" % (t[1], changed, b[0].get("currentPlayedIndiciator"))))
                if h == "ok" and k + 1 < len(L) and L[k + 1] == "inf.get" and uuid != "null":
                    self.queries.append(("c18.norm.info %s %s %s" % (schema, uuid, t[1]), "info-get", k + 1, H[k + 1],
                                         "information_table::get() does not return the stored row"))
            elif cmd == "tt.add":
                if h.startswith("ok ") and k + 1 < len(L):
                    i = int(h[3:])
                    nxt = L[k + 1].split()
                    if ids is not None:
                        ids = ids + [i]
                    if nxt[:1] == ["tt.get"] and int(nxt[1]) == i:
                        le = "none"
                        self.queries.append(("c18.norm.track %s %s %s %d %s" % (schema, uuid, le, i, " ".join(t[1:])),
                                             "roundtrip", k + 1, H[k + 1],
                                             "the row read back after add() differs from the row written"))
                elif not h.startswith("ok"):
                    pass    # rejected rows: classes are the model's business (ids/paths collisions, labels > 255)
            elif cmd == "tt.update":
                # pattern: tt.get i / tt.update row / tt.get i
                if h == "ok" and k + 1 < len(L) and k >= 1:
                    i = int(t[1])
                    nxt, prv = L[k + 1].split(), L[k - 1].split()
                    if nxt[:2] == ["tt.get", str(i)] and prv[:2] == ["tt.get", str(i)] and H[k - 1].startswith("ok ") \
                            and H[k - 1] != "ok none":
                        le = str(clock) if sge(schema, "schema_2_20_3") else "none"
                        self.queries.append(("c18.norm.track %s %s %s %d %s" % (schema, uuid, le, i, " ".join(t[1:])),
                                             "update", k + 1, H[k + 1],
                                             "the row read back after update() differs from the row written"))
            elif cmd == "tt.setc":
                f, i = t[1], int(t[2])
                if ids is not None and i not in ids and not h.startswith("throw "):
                    self.direct.append((k, "missing-row", "set_%s on a row id with no row answered '%s' instead of an error" % (f, h)))
                if h == "ok":
                    # frame on the other rows: the raw Track dumps around the call (independent reader)
                    a, b = k - 1, k + 1
                    while a >= 0 and L[a].split()[0] in ("tt.get", "tt.getc", "tt.ids", "tt.exists", "tt.find"):
                        a -= 1
                    while b < len(L) and L[b].split()[0] in ("tt.get", "tt.getc", "tt.ids", "tt.exists", "tt.find"):
                        b += 1
                    if a >= 0 and b < len(L) and L[a] == "tt.raw" and L[b] == "tt.raw" and H[a].startswith("ok ") \
                            and H[b].startswith("ok "):
                        ra, rb = raw_rows(H[a]), raw_rows(H[b])
                        changed = sorted(j for j in set(ra) | set(rb) if j != i and ra.get(j) != rb.get(j))
                        if changed:
                            self.direct.append((k, "column-set-other-rows",
                                                "set_%s(%d, …) changed other rows: ids %s" % (f, i, changed)))
                if h == "ok" and k >= 1 and k + 1 < len(L):
                    nxt, prv = L[k + 1].split(), L[k - 1].split()
                    if nxt[:2] == ["tt.get", str(i)] and prv[:2] == ["tt.get", str(i)] and H[k - 1].startswith("ok ") \
                            and H[k - 1] != "ok none":
                        self.queries.append(("c18.set.track %s %s %d %s %s %s" % (schema, uuid, clock, f, " ".join(t[3:]), H[k - 1][3:]),
                                             "column-set", k + 1, H[k + 1],
                                             "set_%s changed the row otherwise than setting that member" % f))
            elif cmd == "tt.getc":
                f, i = t[1], int(t[2])
                if ids is not None and i not in ids and not h.startswith("throw "):
                    self.direct.append((k, "missing-row", "get_%s on a row id with no row answered '%s' instead of an error" % (f, h)))
                # compare with the member of the row read at the same state (the closest preceding tt.get i
                # with no mutating command in between)
                j = k - 1
                while j >= 0 and L[j].split()[0] in ("tt.getc", "tt.ids", "tt.raw", "tt.exists", "tt.find"):
                    j -= 1
                if j >= 0 and L[j].split()[:2] == ["tt.get", str(i)] and H[j].startswith("ok ") and H[j] != "ok none":
                    g = TRACK_GUARD.get(f)
                    if g and not sge(schema, g):
                        if not h.startswith("throw "):
                            self.direct.append((k, "guard", "get_%s on a schema without the column answered '%s'" % (f, h)))
                    elif h.startswith("ok "):
                        member = split_row(TRACK_FIELDS, H[j][3:])[f]
                        self.queries.append(("c18.acc.track %s %s" % (f, h[3:]), "column-get", k, "ok " + member,
                                             "get_%s does not denote the member of the row get() returns" % f))
                    else:
                        self.direct.append((k, "column-get", "get_%s on an existing row answered '%s'" % (f, h)))
            elif cmd == "tpl.ids" and h.startswith("ok ["):
                self.pl_ids = [int(x) for x in h[4:-1].split(",") if x]
            elif cmd == "tpl.exists" and h.startswith("ok "):
                if self.pl_ids is not None and (h == "ok 1") != (int(t[1]) in self.pl_ids):
                    self.direct.append((k, "exists", "playlist exists(%s) answers '%s', all_ids() says otherwise" % (t[1], h)))
            elif cmd == "tpl.add":
                self.pl_ids = None
                if h.startswith("ok "):
                    self.pl_le[int(h[3:])] = int(t[6])
                if h.startswith("ok ") and k + 1 < len(L):
                    i = int(h[3:])
                    if L[k + 1].split()[:2] == ["tpl.get", str(i)]:
                        self.queries.append(("c18.norm.playlist %d %s" % (i, " ".join(t[1:])), "roundtrip", k + 1, H[k + 1],
                                             "the playlist row read back after add() differs from the row written"))
            elif cmd == "tpl.update":
                self.pl_ids = None
                if h == "ok":
                    self.pl_le[int(t[1])] = int(t[6])
                if h == "ok" and k + 1 < len(L):
                    i = int(t[1])
                    if L[k + 1].split()[:2] == ["tpl.get", str(i)]:
                        self.queries.append(("c18.norm.playlist %d %s" % (i, " ".join(t[1:])), "update", k + 1, H[k + 1],
                                             "the playlist row read back after update() differs from the row written"))
            elif cmd == "tpl.remove":
                i = int(t[1])
                if self.pl_ids is not None and i not in self.pl_ids and not h.startswith("throw "):
                    self.direct.append((k, "missing-row", "playlist remove() of an id with no row answered '%s' instead of an error" % h))
                self.pl_ids = None
                self.pe_rows = None     # the entities of the removed playlists go with them
            elif cmd == "tpe.raw" and h.startswith("ok "):
                self.pe_rows = parse_raw(h)
            elif cmd in ("tpe.clear",):
                self.pe_rows = None
            elif cmd == "tpe.add":
                rows, self.pe_rows = self.pe_rows, None
                if h.startswith("ok ") and rows is not None and k + 1 < len(L):
                    i = int(h[3:])
                    l, tr = int(t[2]), int(t[3])
                    inserted = all(int(r["id"][1:]) != i for r in rows)
                    if inserted and L[k + 1].split() == ["tpe.get", str(l), str(tr)]:
                        # get(list, track) cannot say which database the track is from: it returns the entry of the
                        # pair with the greatest database uuid.  The row written must come back when its uuid is
                        # strictly the greatest of the pair; otherwise another row comes back (recorded finding)
                        mine = b"" if t[4] == "-" else bytes.fromhex(t[4])
                        others = [raw_bytes(r["databaseUuid"]) for r in rows
                                  if r["listId"] == "i%d" % l and r["trackId"] == "i%d" % tr]
                        amb = any(o is None or o >= mine for o in others)
                        self.queries.append(("c18.norm.entity %d %s" % (i, " ".join(t[1:7])),
                                             "entity-get-ambiguous" if amb else "roundtrip", k + 1, H[k + 1],
                                             "the entity row read back through get(list, track) after add_back() differs from "
                                             "the row written although it carries the greatest database uuid of its (list, track) pair"
                                             if not amb else
                                             "the entity row read back after add_back() differs from the row written"))
                    if inserted and k + 2 < len(L) and L[k + 2].split() == ["tpe.get3", str(l), str(tr), t[4]]:
                        self.queries.append(("c18.norm.entity %d %s" % (i, " ".join(t[1:7])), "roundtrip", k + 2, H[k + 2],
                                             "the entity row read back through get(list, track, database_uuid) after "
                                             "add_back() differs from the row written"))
            elif cmd == "tpe.remove":
                rows, self.pe_rows = self.pe_rows, None
                if rows is not None:
                    l, e = int(t[1]), int(t[2])
                    present = any(r["listId"] == "i%d" % l and r["id"] == "i%d" % e for r in rows)
                    if not present and not h.startswith("throw "):
                        elsewhere = [r["listId"] for r in rows if r["id"] == "i%d" % e]
                        self.direct.append((k, "missing-row", "entity remove(%d, %d): no entity %d in list %d%s, answered '%s' "
                                            "instead of an error" % (l, e, e, l, (" (it is in list %s)" % elsewhere[0][1:]) if elsewhere else "", h)))
                    if k + 1 < len(L) and L[k + 1] == "tpe.raw" and H[k + 1].startswith("ok "):
                        after = parse_raw(H[k + 1])
                        gone = sorted(set(r["id"] for r in rows) - set(r["id"] for r in after))
                        want = ["i%d" % e] if (present and h == "ok") else []
                        if gone != want and (present or not h.startswith("ok")):
                            self.direct.append((k, "remove-frame", "entity remove(%d, %d) answered '%s' and deleted rows %s "
                                                "(expected %s)" % (l, e, h, gone, want)))
            elif cmd == "tpe.list" and h.startswith("ok [") and self.pe_rows is not None:
                mine = [r for r in self.pe_rows if r["listId"] == "i" + t[1]]
                got = [x.split() for x in h[4:-1].split(" | ")] if h != "ok []" else []
                key = lambda r: (r["id"][1:], r["listId"][1:], r["trackId"][1:], r["databaseUuid"][1:], r["nextEntityId"][1:],
                                 r["membershipReference"][1:])
                have = [key(r) for r in mine]
                bad = [g for g in got if tuple(g) not in have]
                dup = len(set(map(tuple, got))) != len(got)
                chain = chain_order(mine)
                if bad or dup:
                    self.direct.append((k, "get-for-list", "get_for_list(%s) returns rows that are not (exactly once) entities of "
                                                           "that list: %s" % (t[1], (bad or got)[:3])))
                elif chain is not None and [tuple(g) for g in got] != [key(r) for r in chain]:
                    self.direct.append((k, "get-for-list", "get_for_list(%s) does not list the entities of the list in chain order: "
                                                           "ids %s, chain %s" % (t[1], [g[0] for g in got], [r["id"][1:] for r in chain])))
            elif cmd == "tt.remove":
                i = int(t[1])
                if ids is not None:
                    if i not in ids and not h.startswith("throw "):
                        self.direct.append((k, "missing-row", "remove() of a row id with no row answered '%s' instead of an error" % h))
                    if h == "ok":
                        ids = [x for x in ids if x != i]
            if cmd in MUTATING and cmd not in ("tt.add", "tt.remove") and not h.startswith("ok"):
                pass
        return [q[0] for q in self.queries]

    def judge(self, spec_out):
        """-> list of (line index, kind, what, detail lines)"""
        out = [(k, kind, what, []) for (k, kind, what) in self.direct]
        for (q, kind, k, got, what), exp in zip(self.queries, spec_out):
            if not exp.startswith("ok "):
                out.append((k, "spec-error", "the Spec could not be evaluated: " + exp[:200], [q[:2000]]))
                continue
            if got != exp:
                detail = ["spec:  " + exp[:4000], "impl:  " + got[:4000]]
                field = None
                if kind in ("roundtrip", "update", "column-set", "entity-get-ambiguous") and got.startswith("ok ") \
                        and got != "ok none":
                    try:
                        fields = TRACK_FIELDS if q.startswith(("c18.norm.track", "c18.set.track")) else \
                            PLAYLIST_FIELDS if q.startswith("c18.norm.playlist") else ENTITY_FIELDS
                        a, b = split_row(fields, got[3:]), split_row(fields, exp[3:])
                        bad = [f for f, _ in fields if a[f] != b[f]]
                        field = ",".join(bad)
                        detail.insert(0, "members that differ: " + field)
                    except (ValueError, IndexError):
                        pass
                out.append((k, kind, what + (" (members: %s)" % field if field else ""), detail))
        return sorted(out)


def raw_bytes(v):
    """printed raw text value 's<hex>' / 's-' -> bytes (None for another storage class)"""
    if not v.startswith("s"):
        return None
    return b"" if v[1:] in ("-", "") else bytes.fromhex(v[1:])


def chain_order(rows):
    """Spec of "in playlist order": the entities of one list, first to last, when their next pointers form one
    chain ending in 0 that reaches every row; None when they do not (then only soundness is judged)."""
    by_id = {r["id"]: r for r in rows}
    if len(by_id) != len(rows):
        return None
    tails = [r for r in rows if r["nextEntityId"] == "i0"]
    if len(tails) != 1:
        return None if rows else []
    nexts = [r["nextEntityId"] for r in rows]
    if len(set(nexts)) != len(nexts):
        return None
    pred = {r["nextEntityId"]: r for r in rows}
    out, cur = [tails[0]], tails[0]
    while cur["id"] in pred and len(out) <= len(rows):
        cur = pred[cur["id"]]
        out.insert(0, cur)
    return out if len(out) == len(rows) else None


def raw_rows(h):
    """'ok seq=(n) {id=i1 …} {id=i2 …}' -> dict id -> row text"""
    out = {}
    body = h[h.index("{"):] if "{" in h else ""
    for row in re.findall(r"\{(.*?)\}(?= \{|$)", body):
        m = re.match(r"id=i(-?\d+) ", row)
        if m:
            out[int(m.group(1))] = row
    return out


def parse_raw(h):
    """'ok seq=(n) {c=v c=v ...} {...}' -> list of dicts column -> printed value (blob columns not supported)"""
    out = []
    for m in re.finditer(r"\{([^}]*)\}", h):
        out.append(dict(kv.split("=", 1) for kv in m.group(1).split()))
    return out


def judge_all(results):
    """results: list of (lines, impl, model).  -> per script list of oracle objections."""
    oracles = [Oracle(l, h) for (l, h, _) in results]
    qs = [o.collect() for o in oracles]
    flat = [q for ql in qs for q in ql]
    ans = spec_eval(flat)
    out, p = [], 0
    for o, ql in zip(oracles, qs):
        out.append(o.judge(ans[p:p + len(ql)]))
        p += len(ql)
    return out, len(flat)


def same(h, m):
    """Outcome equality.  Dereferencing `end()` of the unordered_map in get_for_list / track_ids is reported
    by the sanitizer as a null-pointer access; the Model's alphabet files it under oob_read."""
    if h == "ub null_deref" and m == "ub oob_read":
        return True
    return h == m
