"""C11 — The stored database stays a well-formed Engine library.  Assembled from a schema-1.x part and a schema-2.x part."""
from props import _combine

_combine.install(globals(), "C11", [
    "C11_v1",
    "C11_v2",
    "C11_v2_tracks",
    "C11_lib1",
    "C11_lib2",
], dict(
    text="",
    note="see design/C11.md",
    technique="Lean 4 refinement / invariant theorems over executable models of both schema generations + "
              "differential replay of operation histories on the real library with raw-table observation",
    ref="6/C11"))
