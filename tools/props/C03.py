"""C03 — Every blob codec decodes its own encoding to the original value."""
import random
from common import *
import runner
from props import _codecs as cd

ID = "C03"
LEAN_MODULES = ["Properties.C03"]
THEOREMS = ["EngineModel.Properties.C03." + t for t in [
    "C03_v2_track_roundtrip", "C03_v2_beat_roundtrip", "C03_v2_ovw_roundtrip",
    "C03_v2_cues_roundtrip", "C03_v2_cues_reject", "C03_v2_loops_roundtrip", "C03_v2_loops_reject",
    "C03_v2_track_total", "C03_v2_beat_total", "C03_v2_ovw_total",
    "C03_v1_track_readback", "C03_v1_track_roundtrip_partial", "C03_v1_track_roundtrip_counterexample",
    "C03_v1_track_total", "C03_v1_beat_readback", "C03_v1_beat_roundtrip_partial",
    "C03_v1_beat_roundtrip_counterexample", "C03_v1_beat_reject", "C03_v1_cues_readback",
    "C03_v1_cues_roundtrip", "C03_v1_cues_reject", "C03_v1_loops_readback",
    "C03_v1_loops_roundtrip", "C03_v1_loops_reject", "C03_absent_only_reserved",
    "C03_v1_ovw_readback", "C03_v1_ovw_roundtrip", "C03_v1_hires_roundtrip",
    "C03_compress_complete", "C03_compress_avail_in_condition_counterexample",
    "C03_compress_empty_ub", "C03_compress_input_nonempty", "C03_compress_chunk_schedule",
    "C03_compress_chunk_plan", "C03_compress_finish_only_last", "C03_compress_remaining_counter_counterexample",
    "C03_uncompress_compress",
]]
ASSUMPTIONS = [
    "payload level: the zlib framing is covered by C02/C05 (the tie compares uncompressed payloads, which the harness "
    "recovers from the library's blob with zlib's own uncompress)",
    "Representable side conditions of the theorems (fewer than 2^63 list elements, 3 bytes per overview point) hold of "
    "every value of the C++ types",
    "memory allocation proportional to the input size succeeds (std::bad_alloc is not modelled)",
]
MANIFEST = dict(
    text="Lean theorems about a statement-by-statement Model of the eleven blob codecs: for every encodable value (all "
         "double bit patterns, all integers, labels of 0..255 arbitrary bytes, any number of entries, any extra_data; no "
         "size bound) the Model decoder returns exactly the value from the Model encoder's bytes; every representable "
         "value outside the encodable domain makes the encoder throw (never other bytes, never undefined behaviour); for "
         "schema 1.x the only present cue/loop that reads back absent has offset exactly -1.0 and the read-back value is "
         "stated exactly (zero optional fields read back absent: known finding with _partial/_counterexample); the "
         "zlib_compress loops, modelled over an abstract deflate oracle with an explicit call contract, provably collect "
         "all output of all calls, consume the whole payload and stop only after Z_FINISH answered Z_STREAM_END; the "
         "input-chunking decision is in the Model exactly as the C++ makes it and it is proved, for every oracle and every "
         "payload length (exact multiples of 16384 included), that the call log follows chunkPlan(length) and that the "
         "last window and only the last carries Z_FINISH; zlib_uncompress(zlib_compress p) = p under the joint zlib "
         "contract (recorded deflate() calls of the real library — payload sizes k*16384-1/0/+1 of every compressed kind, "
         "deflate output of exactly j*16384 bytes — are judged against the chunk plan and replayed through that Model "
         "every run). The Model is tied to the "
         "working tree on every run: generated values are encoded and decoded by the real library (sanitizer build) and "
         "by the Model, payloads and results compared byte for byte, and a direct oracle states decode(encode v) = v on "
         "the library's own answers.",
    note="Trusted: Lean kernel; the hand-written Model (Impl/V1.lean, Impl/V2.lean) is validated against the code only "
         "by the differential run (dense, every run), not by translation. The zlib framing is outside this property's "
         "theorems (C02/C05).",
    technique="Lean 4 theorems (generic codec-combinator round-trip law + Impl=Spec agreement) + byte-exact differential run",
    ref="6/C03")
TRUSTED_EXTRA = []

KNOWN_ZERO_SIG = {"family": "v1", "codec": "track_data/beat_data",
                  "effect": "optional numeric field holding exactly zero is written as the absent encoding and reads back absent"}


# model regenerated from the C++ sources + its equality with the hand model (see props/_implgen.py)
from props import _implgen
LEAN_MODULES = LEAN_MODULES + _implgen.LEAN_MODULES
THEOREMS = THEOREMS + _implgen.THEOREMS_FOR[ID]
ASSUMPTIONS = ASSUMPTIONS + _implgen.ASSUMPTIONS
TRUSTED_EXTRA = list(globals().get("TRUSTED_EXTRA", [])) + _implgen.TRUSTED_EXTRA
TRANSLATORS = dict(globals().get("TRANSLATORS", {}), **_implgen.TRANSLATORS)


def must_roundtrip(kind, v):
    if not cd.format_can_hold(kind, v):
        return False
    if kind == "v1.cues":
        return len(v["cues"]) == 8 and all(q is None or 1 <= len(q[0]) for q in v["cues"])
    if kind == "v1.loops":
        return all(q is None or 1 <= len(q[0]) for q in v["loops"])
    return True


def run_both(lines, watchdog=20):
    scripts = runner.shard(lines, NCPU)
    hout = [o for (outs, _) in runner.run_harness(scripts, stateless=True, watchdog=watchdog) for o in outs]
    mout = [o for outs in runner.run_model(scripts) for o in outs]
    return hout, mout


chunk_plan, follows_plan = cd.chunk_plan, cd.follows_plan


def compress_trace_stream(rng, tier, vals, henc, hist, divergences, violations):
    """zlib_compress on payloads of every interesting size class: 0 (the `&uncompressed[0]` precondition), 1, small,
    k*16384-1 / k*16384 / k*16384+1 for k = 1..4, compressible and incompressible; every chunk-boundary payload the
    library itself produced (all compressed kinds); and a scan for deflate OUTPUT of exactly j*16384 bytes.  The
    link-time wrapper records every deflate() call.  Oracle on the library's own trace: an independent inflate
    recovers the payload, blob length = 4 + all produced bytes, the last call is a Z_FINISH call answering
    Z_STREAM_END, the whole payload was consumed, and the calls follow the input-chunking plan (the last window and
    only the last carries Z_FINISH).  Model: the Lean loops, run against the recorded answers (`zreplay`), must make
    exactly the recorded calls."""
    pays, origin = [], []
    raw_sizes = [1, 2, 8, 100, 20000, 40000] + [k * cd.CHUNK + d for k in (1, 2, 3, 4) for d in (-1, 0, 1)] + \
                ([100000, 70000] if tier == "thorough" else [50000])
    for n in raw_sizes:
        for sty in (("noise", "zeros", "text") if (tier == "thorough" or n <= 2 * cd.CHUNK + 1) else
                    (("noise", "zeros", "text")[n % 3],)):
            pays.append(cd._bytes_like(rng, n, sty))
            origin.append("raw")
            if cd.is_chunk_boundary(n):
                key = "ztrace_boundary:raw:%s" % cd.boundary_label(n)
                hist[key] = hist.get(key, 0) + 1
    # payloads the library itself produced on the chunk boundary (every compressed kind), plus a few other big ones
    others = 0
    for (k, v), h in zip(vals, henc):
        t = h.split()
        if not (len(t) >= 3 and t[0] == "ok" and t[1] not in ("UNFRAMED", "-")) or k in cd.RAW_KINDS:
            continue
        n = len(t[1]) // 2
        if cd.is_chunk_boundary(n):
            pays.append(bytes.fromhex(t[1]))
            origin.append(k)
            key = "ztrace_boundary:%s:%s" % (k, cd.boundary_label(n))
            hist[key] = hist.get(key, 0) + 1
        elif n > 15000 and others < 12:
            others += 1
            pays.append(bytes.fromhex(t[1]))
            origin.append(k)
    # --- deflate OUTPUT on the buffer boundary: noise prefixes whose zlib stream is j*16384 bytes give or take a few
    # (stored blocks: the stream grows by one byte per payload byte), so that a deflate() call fills the 16384-byte
    # output buffer exactly when the stream ends.
    import zlib
    noise = rng.randbytes(4 * cd.CHUNK + 64)
    scan = []
    for j in ((1, 2) if tier == "quick" else (1, 2, 3, 4)):
        n0 = None
        for n in range(j * cd.CHUNK - 64, j * cd.CHUNK + 1):
            if len(zlib.compress(noise[:n])) == j * cd.CHUNK:
                n0 = n
                break
        centre = n0 if n0 is not None else j * cd.CHUNK - 11 - 5 * j
        width = 3 if n0 is not None else 24
        for n in range(centre - width, centre + width + 1):
            scan.append((j, len(pays)))
            pays.append(noise[:n])
            origin.append("scan")
    lines = ["ztrace -"] + ["ztrace " + cd.hexb(p) for p in pays]
    hz = [o for (outs, _) in runner.run_harness(runner.shard(lines, NCPU), stateless=True, watchdog=20) for o in outs]
    rep = ["zreplay 0"]
    for p, h in zip(pays, hz[1:]):
        t = h.split()
        rep.append("zreplay %d %s" % (len(p), " ".join(t[4:])) if len(t) >= 4 and t[0] == "ok" else "#skip")
    mz = [o for outs in runner.run_model(runner.shard(rep, NCPU)) for o in outs]
    # the empty payload: `&uncompressed[0]` on an empty vector (C03_compress_empty_ub); no codec produces it
    hist["ztrace:empty_payload impl=%s model=%s" % (hz[0].replace(" ", "_")[:24], mz[0].replace(" ", "_")[:24])] = 1
    # Informational only: zlib_compress is internal and no codec hands it an empty payload (theorem
    # C03_compress_input_nonempty: every payload has at least 25 bytes), so what the helper does on an empty
    # vector (today: `&v[0]`, a libstdc++ assertion; after a `.data()` rewrite: a valid empty stream) is not
    # observable through any blob codec and a difference here is not a divergence of the property's model.
    traces = {}
    for idx, (p, l, h, r, m) in enumerate(zip(pays, lines[1:], hz[1:], rep[1:], mz[1:])):
        t = h.split()
        cls = "other"
        if len(t) >= 4 and t[0] == "ok":
            calls = [tuple(int(x) for x in c.split(":")) for c in t[4:]]
            traces[idx] = calls
            blen = int(t[2].split("=")[1])
            why = cd.judge_ztrace(len(p), h)
            cls = "calls=%d" % len(calls)
            hist["ztrace:finish_calls=%d" % sum(1 for c in calls if c[0] == 4)] = \
                hist.get("ztrace:finish_calls=%d" % sum(1 for c in calls if c[0] == 4), 0) + 1
            hist["ztrace:windows=%d" % len(chunk_plan(len(p)))] = hist.get("ztrace:windows=%d" % len(chunk_plan(len(p))), 0) + 1
            if why:
                violations.append({"tag": "oracle", "signature": None,
                                   "header": {"kind": "input", "what": "%s (payload of %d bytes, %s)" % (why, len(p), origin[idx])},
                                   "body": [l, "impl: " + h[:400]]})
            want = "ok len=%d calls=%d%s" % (blen, len(calls), "".join(" " + c for c in t[4:]))
            if m != want:
                divergences.append({"input": r[:400], "impl": want[:300], "model": m[:300]})
        elif not h.startswith("throw"):
            violations.append({"tag": "oracle", "signature": None,
                               "header": {"kind": "input", "what": "zlib_compress crashed: " + h},
                               "body": [l, "impl: " + h[:300]]})
        hist["ztrace:" + cls] = hist.get("ztrace:" + cls, 0) + 1
    # --- how close did deflate's OUTPUT come to the 16384-byte buffer boundary
    full, full_then_empty, gaps = 0, 0, []
    for calls in traces.values():
        for a, b in zip(calls, calls[1:] + [None]):
            if a[3] == cd.CHUNK:
                full += 1
                if b is not None and b[3] == 0:
                    full_then_empty += 1
            elif a[3] > 0:
                gaps.append(cd.CHUNK - a[3])
    hist["out_buffer:calls that filled the 16384-byte buffer"] = full
    hist["out_buffer:buffer filled exactly as the stream ended (next call produced 0)"] = full_then_empty
    if gaps:
        hist["out_buffer:smallest gap of a non-full call (bytes short of 16384)"] = min(gaps)
    for j, idx in scan:
        if idx in traces:
            d = sum(c[3] for c in traces[idx]) - j * cd.CHUNK
            key = "out_buffer:scan j=%d stream_len-j*16384=%+d" % (j, d)
            hist[key] = hist.get(key, 0) + 1
    # --- the blobs of the scan (compressed part j*16384-3 .. +3 bytes) back through the library's own
    # zlib_uncompress (its INPUT chunking: `(ptr + chunk_size) < end`) and the Model
    zl = ["z " + cd.hexb(pays[idx]) for (_, idx) in scan]
    hzz = [o for (outs, _) in runner.run_harness(runner.shard(zl, NCPU), stateless=True, watchdog=20) for o in outs] if zl else []
    ul, uidx = [], []
    for (j, idx), h in zip(scan, hzz):
        t = h.split()
        if len(t) == 3 and t[0] == "ok" and t[1] == "framed":
            ul.append("unz " + t[2])
            uidx.append(idx)
        else:
            violations.append({"tag": "oracle", "signature": None,
                               "header": {"kind": "input", "what": "zlib_compress output is not a complete stream: " + h[:60]},
                               "body": ["z " + cd.hexb(pays[idx]), "impl: " + h[:300]]})
    if ul:
        hu, mu = run_both(ul)
        for l, idx, a, b in zip(ul, uidx, hu, mu):
            if a != b:
                divergences.append({"input": l[:400], "impl": a[:200], "model": b[:200]})
            if a != "ok " + cd.hexb(pays[idx]):
                violations.append({"tag": "oracle", "signature": None,
                                   "header": {"kind": "input", "what": "zlib_uncompress does not recover what zlib_compress wrote"},
                                   "body": [l, "impl: " + a[:300]]})
            d = len(l.split()[1]) // 2 - 4
            j = (d + cd.CHUNK // 2) // cd.CHUNK
            key = "uncompress_input:compressed_len=%d*16384%+d" % (j, d - j * cd.CHUNK)
            hist[key] = hist.get(key, 0) + 1
    return len(lines) + len(rep) + len(zl) + 2 * len(ul)


def tie(ctx):
    rng = random.Random(ctx.seed * 15485863 + 3)
    hist = {}
    vals = cd.gen_values(rng, ctx.tier, hist)
    enc_lines = ["enc %s %s" % (k, cd.enc_text(k, v)) for (k, v) in vals]
    henc, menc = run_both(enc_lines)
    divergences, violations = [], []
    dec_lines, dec_idx = [], []
    decz_lines, decz_idx = [], []
    unframed = set()
    for i, (k, v) in enumerate(vals):
        h, m = henc[i], menc[i]
        ht = h.split()
        # harness: "ok <payload> <blob>"; model: "ok <payload>"
        hcmp = " ".join(ht[:2]) if ht and ht[0] == "ok" else h
        if hcmp != m:
            divergences.append({"input": enc_lines[i][:400], "impl": h[:200], "model": m[:200]})
        if ht and ht[0] == "ok" and len(ht) >= 2 and ht[1] != "UNFRAMED":
            dec_lines.append("dec %s %s" % (k, ht[1]))
            dec_idx.append(i)
        if ht and ht[0] == "ok" and len(ht) >= 2 and ht[1] == "UNFRAMED":
            unframed.add(i)
        # the library's own blob, framing included, through the library's own from_blob / decode
        if ht and ht[0] == "ok" and len(ht) >= 3 and k not in cd.RAW_KINDS:
            if len(ht[2]) > 24 and rng.random() < 0.3:
                # a blob the decoder must REFUSE (its own blob with the stream cut, or one byte damaged), decoded in
                # the same library process just before a valid one: whatever the refusal leaves behind in the framing
                # helper must not change the next answer
                cut = 8 + 2 * rng.randrange(3, (len(ht[2]) - 8) // 2)
                bad = ht[2][:cut] if rng.random() < 0.7 else \
                    ht[2][:cut] + "%02x" % (int(ht[2][cut:cut + 2] or "0", 16) ^ 0x5a) + ht[2][cut + 2:]
                decz_lines.append("decz %s %s" % (k, bad))
                decz_idx.append(None)
            decz_lines.append("decz %s %s" % (k, ht[2]))
            decz_idx.append(i)
    hdec, mdec = run_both(dec_lines) if dec_lines else ([], [])
    decoded = {}
    for j, i in enumerate(dec_idx):
        decoded[i] = hdec[j]
        if hdec[j] != mdec[j]:
            divergences.append({"input": dec_lines[j][:400], "impl": hdec[j][:200], "model": mdec[j][:200]})
    hdz, mdz = run_both(decz_lines) if decz_lines else ([], [])
    decodedz = {}
    dz_pos = {}
    dz_shard = max(1, (len(decz_lines) + max(1, min(NCPU, len(decz_lines))) - 1) // max(1, min(NCPU, len(decz_lines)))) if decz_lines else 1
    for j, i in enumerate(decz_idx):
        if i is not None:
            decodedz[i] = hdz[j]
            dz_pos[i] = j
        else:
            hist["refused_before_valid"] = hist.get("refused_before_valid", 0) + (0 if hdz[j].startswith("ok") else 1)
        if hdz[j] != mdz[j]:
            divergences.append({"input": decz_lines[j][:400], "impl": hdz[j][:200], "model": mdz[j][:200]})
    # ---- direct oracle on the implementation's own answers
    distinct = set()
    cls = {"roundtrip_ok": 0, "rejected": 0, "absent_by_neg1": 0}
    per_kind = {}
    for i, (k, v) in enumerate(vals):
        h = henc[i]
        why = None
        sig = None
        if h.startswith("ok"):
            want = "ok " + cd.expected_readback(k, v)
            got = decoded.get(i, "(payload not recoverable: %s)" % h[:40])
            gotz = decodedz.get(i, got)
            if i in unframed:
                why = ("the blob the library wrote is not a complete zlib stream of its payload: its own encoding "
                       "cannot be decoded " + cd.size_note(k, h.split()[2] if len(h.split()) > 2 else ""))
            elif got == want and gotz != want:
                why = "the library cannot decode its own stored blob (framing included) to the value written: " + gotz[:80]
            elif got != want:
                if cd.zero_optional(k, v):
                    sig = KNOWN_ZERO_SIG
                    why = "1.x optional field holding zero read back absent"
                elif not cd.format_can_hold(k, v):
                    why = "a value the format cannot hold was written instead of rejected, and decodes to something else"
                else:
                    why = "decode(encode v) differs from v"
            else:
                cls["roundtrip_ok"] += 1
                if cd.expected_readback(k, v) != cd.text(k, v) and k in ("v1.cues", "v1.loops"):
                    cls["absent_by_neg1"] += 1
                if cd.nontrivial(k, v):
                    distinct.add((k, enc_lines[i]))
        elif h.startswith("throw"):
            cls["rejected"] += 1
            if must_roundtrip(k, v):
                why = "an encodable value was rejected (%s)" % h
        else:
            why = "encoder crashed / undefined behaviour: %s" % h
        per_kind[k] = per_kind.get(k, 0) + 1
        if why and h.startswith("ok") and i not in unframed and decoded.get(i) == "ok " + cd.expected_readback(k, v) \
                and i in dz_pos and any(x is None for x in decz_idx[(dz_pos[i] // dz_shard) * dz_shard:dz_pos[i]]):
            # the payload decodes; the framed blob did not — after blobs this library process had refused: a history
            j = dz_pos[i]
            violations.append({"tag": "oracle", "signature": sig,
                               "header": {"kind": "sequence", "what": why + " (after blobs it had refused)"},
                               "body": decz_lines[(j // dz_shard) * dz_shard:j + 1][-40:] +
                                       ["impl: " + hdz[j][:300], "want: ok " + cd.expected_readback(k, v)[:300]]})
        elif why:
            violations.append({"tag": "oracle", "signature": sig,
                               "header": {"kind": "input", "what": why},
                               "body": [enc_lines[i][:200000], "impl: " + h[:300]] +
                                       (["decz %s %s" % (k, h.split()[2]) if i in unframed or decodedz.get(i) != decoded.get(i)
                                         else "dec %s %s" % (k, h.split()[1]),
                                         "impl: " + decodedz.get(i, decoded.get(i, "-"))[:300],
                                         "want: ok " + cd.expected_readback(k, v)[:300]]
                                        if h.startswith("ok") and len(h.split()) > 2 else [])})
    # ---- the single-column write path of the 1.x storage (behind every 1.x blob setter): encode, decode again, refuse
    # when the value did not survive, write; then the single-column read.  Harness only (the storage class is hidden
    # from the public API; the object files are linked directly).  An accepted value must read back as the Spec says;
    # refusing is always allowed here.  (round 5, seeded C03-6: the guard was weakened to "the decoded value is a
    # fixed point of the codec", which let values the format cannot hold be written in a form that reads back
    # differently)
    col_items = [(k, v) for (k, v) in vals if k.startswith("v1.")]
    col_lines = ["v1col %s %s" % (k, cd.enc_text(k, v)) for (k, v) in col_items]
    if col_lines:
        hcol = [o for (outs, _) in runner.run_harness(runner.shard(col_lines, NCPU), stateless=True) for o in outs]
        for (k, v), l, h in zip(col_items, col_lines, hcol):
            if h.startswith("ok ") and " | " in h:
                back = h.split(" | ", 1)[1]
                if back != cd.expected_readback(k, v):
                    cls["column_readback_differs"] = cls.get("column_readback_differs", 0) + 1
                    violations.append({"tag": "oracle", "signature": None,
                                       "header": {"kind": "input",
                                                  "what": "the 1.x single-column write path accepted a value and wrote it in a "
                                                          "form that reads back as something else"},
                                       "body": [l[:200000], "impl: " + h[:600], "want: ... | " + cd.expected_readback(k, v)[:300]]})
                else:
                    cls["column_roundtrip_ok"] = cls.get("column_roundtrip_ok", 0) + 1
            elif h.startswith("throw"):
                cls["column_refused"] = cls.get("column_refused", 0) + 1
            else:
                violations.append({"tag": "oracle", "signature": None,
                                   "header": {"kind": "input", "what": "the 1.x single-column write path crashed: " + h[:80]},
                                   "body": [l[:200000], "impl: " + h[:300]]})
    # ---- the compression loops: recorded deflate() calls of the real library replayed through the Model
    zt = compress_trace_stream(rng, ctx.tier, vals, henc, hist, divergences, violations)
    # one KNOWN-FINDING line is enough: keep at most one violation per known signature
    seen_sig, vout = set(), []
    for v in violations:
        key = repr(v["signature"])
        if v["signature"] is not None and key in seen_sig:
            continue
        seen_sig.add(key)
        vout.append(v)
    hist.update({"class:" + k: n for k, n in cls.items()})
    hist.update({"kind:" + k: n for k, n in per_kind.items()})
    unknown = [v for v in vout if v["signature"] is None]
    return {
        "ok": not divergences and not unknown,
        "evaluations": len(enc_lines) + len(dec_lines) + len(decz_lines) + zt,
        "distinct_nontrivial": len(distinct),
        "rule": "seeded values of all 11 kinds (every double class incl. -0/inf/NaN payloads/subnormals/-1.0, int64/int32 "
                "edges, labels of every length 0..300 with arbitrary bytes, 0..12 entries, grids, waveforms, extra_data); "
                "each is encoded by the real library and by the Model (payloads compared byte for byte) and the library's "
                "payload decoded by both (results compared); oracle: library decode(library encode v) = v, or rejection "
                "iff outside the encodable domain; non-trivial = distinct accepted value with at least one entry/field",
        "samples": [enc_lines[0][:200], enc_lines[len(enc_lines) // 2][:200], enc_lines[-1][:200]],
        "histograms": hist,
        "divergences": divergences[:20],
        "violations": cd.diverse(vout),
    }


replay = cd.replay
tie = _implgen.wrap_tie(tie)   # + regenerated model vs real library (translator validation)
