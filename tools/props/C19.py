"""C19 — Recommended waveform extents cover the track exactly."""
import random, struct, subprocess, sys
from fractions import Fraction
from common import *
import runner

ID = "C19"
LEAN_MODULES = ["Properties.C19"]
THEOREMS = ["EngineModel.Properties.C19." + t for t in [
    "gen_qn", "C19_gen_hi", "C19_gen_ov", "C19_hi_cover", "C19_hi_span", "C19_hi_minimal",
    "C19_ov_size", "C19_ov_rounded", "C19_empty_iff", "C19_mono"]]
ASSUMPTIONS = [
    "doubles enter the theorems only through FloatOps (toI64 = truncation, ofI64/ofU64 = conversion, div); "
    "the driver instantiates them with hardware Float and the tie compares results bit for bit",
    "domain of the theorems about the generated code: sample_count <= 2^62, 0 <= trunc(rate) <= 2^31",
]
MANIFEST = dict(
    text='Theorems over the naturals for all sample counts and rates: minimal cover with less than one entry of slack (C19_hi_cover, C19_hi_minimal), overview size 1024 spanning the count rounded down to the quantisation number (C19_ov_size, C19_ov_rounded), emptiness iff no audio or rate < 210 (C19_empty_iff), monotonicity (C19_mono); C19_gen_hi / C19_gen_ov re-prove on every run that the Lean code regenerated from track_utils.hpp computes this model without undefined behaviour for n <= 2^62, 0 <= rate <= 2^31.',
    note='Trusted: Lean kernel; translator tools/tr_trackutils.py (clang typed AST -> Lean, every implicit conversion explicit); doubles only through FloatOps (tie compares C++ vs hardware Float bit for bit).',
    technique='Lean 4 theorems (omega / Nat.div lemmas) over a model regenerated from source + bit-exact differential run',
    ref='6/C19')
TRUSTED_EXTRA = ["tools/tr_trackutils.py (clang-14 JSON AST -> Lean translator for track_utils.hpp)"]


def _translate():
    r = subprocess.run([sys.executable, os.path.join(VERIF, "tools", "tr_trackutils.py")],
                       stdout=subprocess.PIPE, stderr=subprocess.PIPE, text=True)
    return (r.stdout.strip() or r.stderr.strip()[-200:])


TRANSLATORS = {"track_utils.hpp": _translate}


def dbits(x: float) -> str:
    return "%016x" % struct.unpack(">Q", struct.pack(">d", x))[0]


def bitsd(h: str) -> float:
    return struct.unpack(">d", struct.pack(">Q", int(h, 16)))[0]


def qn(r):
    return (r // 210) * 2


def gen_points(rng, tier):
    rates = [0, 1, 209, 210, 211, 419, 420, 421, 8000, 11025, 22050, 44100, 48000, 88200, 96000, 192000,
             2 ** 31 - 1, 2 ** 31]
    pts = []
    for r in rates:
        q = qn(r)
        ns = {0, 1, 2, 1023, 1024, 1025, 2 ** 31, 2 ** 32, 2 ** 53 - 1, 2 ** 53, 2 ** 53 + 1, 2 ** 62 - 1, 2 ** 62}
        if q:
            for k in (1, 2, 3, 1023, 1024, 1025, 10 ** 6, (2 ** 53) // q, (2 ** 62) // q):
                for d in (-1, 0, 1):
                    ns.add(max(0, min(2 ** 62, k * q + d)))
        for n in sorted(ns):
            for frac in (0.0, 0.5):
                pts.append((n, float(r) + (frac if r < 2 ** 31 else 0.0)))
    nrand = 3000 if tier == "quick" else 200000
    for _ in range(nrand):
        c = rng.random()
        if c < 0.5:
            r = rng.choice([44100.0, 48000.0, 96000.0, 22050.0, 88200.0])
        elif c < 0.8:
            r = rng.uniform(0, 1000)
        else:
            r = rng.uniform(0, 2 ** 31)
        e = rng.random()
        if e < 0.6:
            n = rng.randrange(0, 10 ** 9)
        elif e < 0.8:
            n = rng.randrange(0, 2 ** 62 + 1)
        else:
            q = max(qn(int(r)), 1)
            n = max(0, min(2 ** 62, rng.randrange(1, 10 ** 7) * q + rng.choice([-1, 0, 1])))
        pts.append((n, r))
    # monotonicity probes: consecutive sample counts
    mono = []
    for (n, r) in pts[:2000]:
        if n < 2 ** 62:
            mono.append((n + 1, r))
    return pts + mono


def oracle_point(n, rate, hi, ov):
    """Direct statement of C19 on the implementation's own answers.
    hi / ov = (size:int, spe:float).  Returns None or a reason string."""
    r = int(rate)
    q = qn(r)
    if n == 0 or r < 210:
        if hi[0] != 0 or ov[0] != 0:
            return "extents not empty although there is no audio or the rate cannot be quantised"
        return None
    if hi[0] == 0 or ov[0] == 0:
        return "extents empty although n > 0 and rate >= 210"
    size, spe = hi
    if not (spe > 0):
        return "non-positive entry span"
    spe_f = Fraction(spe)
    if spe_f != q:
        return "entry span %r is not the quantisation number %d" % (spe, q)
    if not (n <= size * spe_f):
        return "high-resolution waveform does not cover the track (%d entries x %s < %d samples)" % (size, spe, n)
    if not ((size - 1) * spe_f < n):
        return "high-resolution waveform has a whole entry of slack"
    if ov[0] != 1024:
        return "overview waveform has %d entries, not 1024" % ov[0]
    rounded = (n // q) * q
    if Fraction(ov[1]) * 1024 != Fraction(float(rounded)):
        return "overview spans %s*1024 samples, expected %d (sample count rounded down to %d)" % (ov[1], rounded, q)
    return None


def parse_ext(s):
    t = s.split()
    if len(t) == 3 and t[0] == "ok":
        return int(t[1]), bitsd(t[2])
    return None


def tie(ctx):
    rng = random.Random(ctx.seed * 7919 + 19)
    pts = gen_points(rng, ctx.tier)
    # a few out-of-domain points for the tie only (not the oracle)
    ood = [(5, -500.0), (10 ** 6, -44100.0), (7, float("nan")), (7, 1e300), (7, -1e300), (2 ** 64 - 1, 44100.0),
           (2 ** 63, 48000.0)]
    lines = []
    for (n, r) in pts + ood:
        lines.append("wf.hi %d %s" % (n, dbits(r)))
        lines.append("wf.ov %d %s" % (n, dbits(r)))
    scripts = runner.shard(lines, NCPU)
    hres = runner.run_harness(scripts, stateless=True)
    hout = [o for (outs, _) in hres for o in outs]
    mout = [o for outs in runner.run_model(scripts) for o in outs]
    divergences, violations = [], []
    hist = {"empty": 0, "nonempty": 0, "ood": 0, "size_eq_1": 0, "exact_multiple": 0}
    seen = set()
    answers = {}
    for i, (n, r) in enumerate(pts + ood):
        h_hi, h_ov = hout[2 * i], hout[2 * i + 1]
        m_hi, m_ov = mout[2 * i], mout[2 * i + 1]
        in_domain = i < len(pts)
        if h_hi != m_hi or h_ov != m_ov:
            divergences.append({"input": lines[2 * i], "impl": [h_hi, h_ov], "model": [m_hi, m_ov]})
        if not in_domain:
            hist["ood"] += 1
            continue
        hi, ov = parse_ext(h_hi), parse_ext(h_ov)
        if hi is None or ov is None:
            violations.append({"tag": "ub", "signature": None,
                               "header": {"kind": "input", "what": "call did not return normally"},
                               "body": [lines[2 * i], "impl: " + h_hi, lines[2 * i + 1], "impl: " + h_ov]})
            continue
        why = oracle_point(n, r, hi, ov)
        answers[(n, r)] = hi[0]
        if why:
            violations.append({"tag": "oracle", "signature": None,
                               "header": {"kind": "input", "what": why},
                               "body": [lines[2 * i], "impl: " + h_hi, lines[2 * i + 1], "impl: " + h_ov,
                                        "spec: n=%d trunc(rate)=%d qn=%d" % (n, int(r), qn(int(r)))]})
        if hi[0] == 0:
            hist["empty"] += 1
        else:
            hist["nonempty"] += 1
            if hi[0] == 1:
                hist["size_eq_1"] += 1
            if qn(int(r)) and n % qn(int(r)) == 0:
                hist["exact_multiple"] += 1
            seen.add((n, int(r)))
    # monotonicity on the implementation's answers
    mono_checked = 0
    for (n, r), s in answers.items():
        s2 = answers.get((n + 1, r))
        if s2 is not None:
            mono_checked += 1
            if s2 < s:
                violations.append({"tag": "mono", "signature": None,
                                   "header": {"kind": "input", "what": "size not monotone in the sample count"},
                                   "body": ["wf.hi %d %s -> %d" % (n, dbits(r), s),
                                            "wf.hi %d %s -> %d" % (n + 1, dbits(r), s2)]})
    hist["monotone_pairs"] = mono_checked
    return {
        "ok": not divergences and not violations,
        "evaluations": len(pts) + len(ood),
        "distinct_nontrivial": len(seen),
        "rule": "boundary grid (every n in {k*q-1,k*q,k*q+1} for 9 k's x 18 rates, n near 2^53 and 2^62) plus seeded random "
                "(n, rate) points; C++ calculate_*_waveform_extents vs the Lean code regenerated from track_utils.hpp, "
                "bit for bit; non-trivial = distinct (n, trunc(rate)) with a non-empty result",
        "samples": [lines[0], lines[len(lines) // 2], lines[-15]],
        "histograms": hist,
        "divergences": divergences[:20],
        "violations": violations[:5],
    }
