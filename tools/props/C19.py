"""C19 — Recommended waveform extents cover the track exactly."""
import random, struct, subprocess, sys
from fractions import Fraction
from common import *
import runner

ID = "C19"
LEAN_MODULES = ["Properties.C19", "Properties.C19Doubles"]
THEOREMS = ["EngineModel.Properties.C19." + t for t in [
    # the regenerated code computes the hand model; the property on the hand model
    "gen_qn", "C19_gen_hi", "C19_gen_ov", "C19_hi_cover", "C19_hi_span", "C19_hi_minimal",
    "C19_ov_size", "C19_ov_rounded", "C19_empty_iff", "C19_mono",
    # the property on the regenerated functions applied to doubles (bit-exact int64 conversion)
    "C19_rate_floor", "C19_hi_on_doubles", "C19_ov_on_doubles", "C19_hi_property", "C19_ov_property",
    "C19_mono_property", "C19_ov_span_exact",
    # outside the domain
    "C19_nan_counterexample", "C19_huge_rate_counterexample", "C19_negative_rate_counterexample"]]
ASSUMPTIONS = [
    "static_cast<int64_t>(double) is defined bit for bit (TracksV1.Fl.toI64) and proved to be the floor of the exact "
    "value for finite non-negative doubles below 2^63 (Proofs/F64Val.lean); the other double operations "
    "(int64/uint64 -> double, division) stay an uninterpreted parameter in the theorems and are hardware doubles in "
    "the driver; the tie compares C++ vs both instances (hardware toInt64, bit-exact toI64) bit for bit",
    "1024 * samples_per_entry = rounded sample count is proved under the explicit exactness hypothesis SpanExact "
    "(converting an integer <= 2^53 and dividing by 1024 lose nothing - true of IEEE-754, sampled on every run: "
    "histogram exact_span)",
    "domain: sample_count <= 2^62, rate a finite double with sign bit clear and value <= 2^31 (RateOk); -0.0, NaN, "
    "infinities, rates >= 2^63 and negative rates are outside (tie only; the three registered _counterexample "
    "theorems say what the code does there - the conversion of NaN / >= 2^63 is undefined behaviour in the public "
    "functions calculate_*_waveform_extents, see design/C19.md)",
]
MANIFEST = dict(
    text='Theorems on the functions regenerated from track_utils.hpp on every run, applied to doubles through the bit-exact int64 conversion: for every sample count <= 2^62 and every finite rate in [0, 2^31] the calls are defined, the high-resolution waveform has the minimum number of entries of span q = (floor(rate)/210)*2 covering the track with less than one entry of slack (C19_hi_property), the overview has exactly 1024 entries whose span is rounded/1024 with rounded = the count rounded down to q (C19_ov_property; 1024*span = rounded exactly under SpanExact, C19_ov_span_exact), both are empty iff n = 0 or rate < 210, sizes are monotone (C19_mono_property); C19_rate_floor proves the cast is the floor; underneath: C19_gen_hi / C19_gen_ov (regenerated code = hand model, no undefined behaviour in the domain) and the arithmetic theorems over the naturals; three registered out-of-domain witnesses.',
    note='Trusted: Lean kernel (+ Mathlib floor lemmas on Q); translator tools/tr_trackutils.py (clang typed AST -> Lean, every implicit conversion explicit); double arithmetic other than the int64 conversion is uninterpreted (SpanExact is an explicit hypothesis, sampled by the tie).',
    technique='Lean 4 theorems (omega / Nat.div lemmas, bit-level float conversion) over a model regenerated from source + bit-exact differential run',
    ref='6/C19')
TRUSTED_EXTRA = ["tools/tr_trackutils.py (clang-14 JSON AST -> Lean translator for track_utils.hpp)"]


def _translate():
    r = subprocess.run([sys.executable, os.path.join(VERIF, "tools", "tr_trackutils.py")],
                       stdout=subprocess.PIPE, stderr=subprocess.PIPE, text=True)
    return (r.stdout.strip() or r.stderr.strip()[-200:])


TRANSLATORS = {"track_utils.hpp": _translate}


def dbits(x: float) -> str:
    return "%016x" % struct.unpack(">Q", struct.pack(">d", x))[0]


def bitsd(h: str) -> float:
    return struct.unpack(">d", struct.pack(">Q", int(h, 16)))[0]


def qn(r):
    return (r // 210) * 2


def gen_points(rng, tier):
    rates = [0, 1, 209, 210, 211, 419, 420, 421, 8000, 11025, 22050, 44100, 48000, 88200, 96000, 192000,
             2 ** 31 - 1, 2 ** 31]
    pts = []
    for r in rates:
        q = qn(r)
        ns = {0, 1, 2, 1023, 1024, 1025, 2 ** 31, 2 ** 32, 2 ** 53 - 1, 2 ** 53, 2 ** 53 + 1, 2 ** 62 - 1, 2 ** 62}
        if q:
            for k in (1, 2, 3, 1023, 1024, 1025, 10 ** 6, (2 ** 53) // q, (2 ** 62) // q):
                for d in (-1, 0, 1):
                    ns.add(max(0, min(2 ** 62, k * q + d)))
        for n in sorted(ns):
            for frac in (0.0, 0.5):
                pts.append((n, float(r) + (frac if r < 2 ** 31 else 0.0)))
    nrand = 3000 if tier == "quick" else 200000
    for _ in range(nrand):
        c = rng.random()
        if c < 0.5:
            r = rng.choice([44100.0, 48000.0, 96000.0, 22050.0, 88200.0])
        elif c < 0.8:
            r = rng.uniform(0, 1000)
        else:
            r = rng.uniform(0, 2 ** 31)
        e = rng.random()
        if e < 0.6:
            n = rng.randrange(0, 10 ** 9)
        elif e < 0.8:
            n = rng.randrange(0, 2 ** 62 + 1)
        else:
            q = max(qn(int(r)), 1)
            n = max(0, min(2 ** 62, rng.randrange(1, 10 ** 7) * q + rng.choice([-1, 0, 1])))
        pts.append((n, r))
    # monotonicity probes: consecutive sample counts
    mono = []
    for (n, r) in pts[:2000]:
        if n < 2 ** 62:
            mono.append((n + 1, r))
    return pts + mono


def oracle_point(n, rate, hi, ov):
    """Direct statement of C19 on the implementation's own answers.
    hi / ov = (size:int, spe:float).  Returns None or a reason string."""
    r = int(rate)
    q = qn(r)
    if n == 0 or r < 210:
        if hi[0] != 0 or ov[0] != 0:
            return "extents not empty although there is no audio or the rate cannot be quantised"
        return None
    if hi[0] == 0 or ov[0] == 0:
        return "extents empty although n > 0 and rate >= 210"
    size, spe = hi
    if not (spe > 0):
        return "non-positive entry span"
    spe_f = Fraction(spe)
    if spe_f != q:
        return "entry span %r is not the quantisation number %d" % (spe, q)
    if not (n <= size * spe_f):
        return "high-resolution waveform does not cover the track (%d entries x %s < %d samples)" % (size, spe, n)
    if not ((size - 1) * spe_f < n):
        return "high-resolution waveform has a whole entry of slack"
    if ov[0] != 1024:
        return "overview waveform has %d entries, not 1024" % ov[0]
    rounded = (n // q) * q
    if Fraction(ov[1]) * 1024 != Fraction(float(rounded)):
        return "overview spans %s*1024 samples, expected %d (sample count rounded down to %d)" % (ov[1], rounded, q)
    return None


def parse_ext(s):
    t = s.split()
    if len(t) == 3 and t[0] == "ok":
        return int(t[1]), bitsd(t[2])
    return None


def tie(ctx):
    rng = random.Random(ctx.seed * 7919 + 19)
    pts = gen_points(rng, ctx.tier)
    # a few out-of-domain points for the tie only (not the oracle)
    ood = [(5, -500.0), (10 ** 6, -44100.0), (1000, -44100.0), (7, float("nan")), (7, float("inf")), (7, 1e300),
           (7, -1e300), (7, 9223372036854775808.0), (7, 9223372036854774784.0), (7, -0.0), (1000, -0.0),
           (2 ** 64 - 1, 44100.0), (2 ** 63, 48000.0)]
    lines = []
    for (n, r) in pts + ood:
        lines.append("wf.hi %d %s" % (n, dbits(r)))
        lines.append("wf.ov %d %s" % (n, dbits(r)))
    scripts = runner.shard(lines, NCPU)
    hres = runner.run_harness(scripts, stateless=True)
    hout = [o for (outs, _) in hres for o in outs]
    mout = [o for outs in runner.run_model(scripts) for o in outs]
    # the same calls through the instance the theorems are about: bit-exact static_cast<int64_t>
    bscripts = [[l.replace("wf.hi ", "wf.hib ", 1).replace("wf.ov ", "wf.ovb ", 1) for l in sc] for sc in scripts]
    bout = [o for outs in runner.run_model(bscripts) for o in outs]
    # the bit-level value / conversion functions against Python's exact arithmetic
    vals = sorted({dbits(r) for (_, r) in pts[:4000] + ood})
    vout = [o for outs in runner.run_model(runner.shard(["f64.val " + v for v in vals], NCPU)) for o in outs]
    divergences, violations = [], []
    hist = {"empty": 0, "nonempty": 0, "ood": 0, "size_eq_1": 0, "exact_multiple": 0, "exact_span": 0,
            "span_rounded_above_2_53": 0, "f64_val_checked": 0}
    for v, o in zip(vals, vout):
        x = bitsd(v)
        if x != x or x in (float("inf"), float("-inf")):
            exp = "ok nonfinite none"
        else:
            fr = Fraction(x)
            t = int(x)
            exp = "ok %d/%d %s" % (fr.numerator, fr.denominator, t if -2 ** 63 <= t < 2 ** 63 else "none")
        hist["f64_val_checked"] += 1
        if o != exp:
            divergences.append({"input": "f64.val " + v, "impl": "python exact: " + exp, "model": o})
    seen = set()
    answers = {}
    for i, (n, r) in enumerate(pts + ood):
        h_hi, h_ov = hout[2 * i], hout[2 * i + 1]
        m_hi, m_ov = mout[2 * i], mout[2 * i + 1]
        in_domain = i < len(pts)
        if h_hi != m_hi or h_ov != m_ov:
            divergences.append({"input": lines[2 * i], "impl": [h_hi, h_ov], "model": [m_hi, m_ov]})
        if h_hi != bout[2 * i] or h_ov != bout[2 * i + 1]:
            divergences.append({"input": lines[2 * i].replace("wf.hi", "wf.hib"), "impl": [h_hi, h_ov],
                                "model": [bout[2 * i], bout[2 * i + 1]]})
        if not in_domain:
            hist["ood"] += 1
            continue
        hi, ov = parse_ext(h_hi), parse_ext(h_ov)
        if hi is None or ov is None:
            violations.append({"tag": "ub", "signature": None,
                               "header": {"kind": "input", "what": "call did not return normally"},
                               "body": [lines[2 * i], "impl: " + h_hi, lines[2 * i + 1], "impl: " + h_ov]})
            continue
        why = oracle_point(n, r, hi, ov)
        answers[(n, r)] = hi[0]
        if why:
            violations.append({"tag": "oracle", "signature": None,
                               "header": {"kind": "input", "what": why},
                               "body": [lines[2 * i], "impl: " + h_hi, lines[2 * i + 1], "impl: " + h_ov,
                                        "spec: n=%d trunc(rate)=%d qn=%d" % (n, int(r), qn(int(r)))]})
        if hi[0] == 0:
            hist["empty"] += 1
        else:
            hist["nonempty"] += 1
            if hi[0] == 1:
                hist["size_eq_1"] += 1
            if qn(int(r)) and n % qn(int(r)) == 0:
                hist["exact_multiple"] += 1
            # SpanExact sampled: 1024 * spe is the rounded count itself when it is <= 2^53
            q_ = qn(int(r))
            rounded = (n // q_) * q_ if q_ else None
            if rounded is None:
                pass        # non-empty answer for an unquantisable rate: already reported by oracle_point
            elif rounded <= 2 ** 53:
                if Fraction(ov[1]) * 1024 == rounded:
                    hist["exact_span"] += 1
                else:
                    violations.append({"tag": "oracle-span", "signature": None,
                                       "header": {"kind": "input",
                                                  "what": "1024 * samples_per_entry differs from the rounded sample count"},
                                       "body": [lines[2 * i + 1], "impl: " + h_ov, "spec: rounded=%d" % rounded]})
            else:
                hist["span_rounded_above_2_53"] += 1
            seen.add((n, int(r)))
    # monotonicity on the implementation's answers
    mono_checked = 0
    for (n, r), s in answers.items():
        s2 = answers.get((n + 1, r))
        if s2 is not None:
            mono_checked += 1
            if s2 < s:
                violations.append({"tag": "mono", "signature": None,
                                   "header": {"kind": "input", "what": "size not monotone in the sample count"},
                                   "body": ["wf.hi %d %s -> %d" % (n, dbits(r), s),
                                            "wf.hi %d %s -> %d" % (n + 1, dbits(r), s2)]})
    hist["monotone_pairs"] = mono_checked
    return {
        "ok": not divergences and not violations,
        "evaluations": len(pts) + len(ood),
        "distinct_nontrivial": len(seen),
        "rule": "boundary grid (every n in {k*q-1,k*q,k*q+1} for 9 k's x 18 rates, n near 2^53 and 2^62) plus seeded random "
                "(n, rate) points; C++ calculate_*_waveform_extents vs the Lean code regenerated from track_utils.hpp, "
                "bit for bit; non-trivial = distinct (n, trunc(rate)) with a non-empty result",
        "samples": [lines[0], lines[len(lines) // 2], lines[-15]],
        "histograms": hist,
        "divergences": divergences[:20],
        "violations": violations[:5],
    }
