"""C13 — Schema and layout detection is exact."""
import random, subprocess, sys
from common import *
import runner

ID = "C13"
LEAN_MODULES = ["Properties.C13"]
THEOREMS = ["EngineModel.Properties.C13." + t for t in [
    "detect_version", "detect_sound", "C13_exact", "C13_stamp", "C13_reload",
    "C13_no_misidentification", "C13_unsupported_iff", "C13_layout", "C13_create_or_load"]]
ASSUMPTIONS = [
    "the Spec table (schema <-> version triple, 1.18.0 variants told apart by the isExternalTrack NUMERIC marker) is "
    "read from the public header engine_schema.hpp; (3,0,0) is in the table because the library ships schema_3_0_0 "
    "and the unedited reference test requires the 4.1.0 dump to load",
    "a legacy-layout directory stamped with a 2.x/3.x triple loads with that schema; a Database2 directory stamped "
    "1.x is database_inconsistency (modelled as the code does; neither is a misidentification)",
    "reading the Information row and the PRAGMA table_info marker is SQLite's job (correspondence only)",
]
MANIFEST = dict(
    text='Theorem C13_exact: the decision tree regenerated from schema.cpp on every run equals the public version table on all integer triples and both marker values (unbounded Int), with C13_no_misidentification, C13_unsupported_iff, C13_reload, C13_layout, C13_create_or_load; tied to the code by the clang-AST translator and by loading real directories with planted version triples (both layouts, four presence combinations) against both the generated tree and the Spec table.',
    note="Trusted: Lean kernel; translator tools/tr_detect.py; SQLite's reading of the Information row and of PRAGMA table_info (correspondence only). (3,0,0) is in the Spec table (see DESIGN.md C13).",
    technique='Lean 4 theorem over a model regenerated from source (translator) + differential loading of planted directories',
    ref='6/C13')
TRUSTED_EXTRA = ["tools/tr_detect.py (clang-14 JSON AST -> Lean translator for detect_schema and the schema_version constants)"]


def _translate():
    r = subprocess.run([sys.executable, os.path.join(VERIF, "tools", "tr_detect.py")],
                       stdout=subprocess.PIPE, stderr=subprocess.PIPE, text=True)
    return (r.stdout.strip() or r.stderr.strip()[-200:])


TRANSLATORS = {"schema.cpp": _translate}

SUPPORTED = [(1, 6, 0), (1, 7, 1), (1, 9, 1), (1, 11, 1), (1, 13, 0), (1, 13, 1), (1, 13, 2), (1, 15, 0), (1, 17, 0),
             (1, 18, 0), (2, 18, 0), (2, 20, 1), (2, 20, 2), (2, 20, 3), (2, 21, 0), (2, 21, 1), (2, 21, 2), (3, 0, 0)]


def tie(ctx):
    rng = random.Random(ctx.seed * 31337 + 13)
    cases = set()
    # every supported triple and all its neighbours at distance 1 in each coordinate, both markers, both layouts
    for (a, b, c) in SUPPORTED:
        for da in (-1, 0, 1):
            for db in (-1, 0, 1):
                for dc in (-1, 0, 1):
                    if abs(da) + abs(db) + abs(dc) <= (3 if ctx.tier == "thorough" else 1):
                        for m in (0, 1):
                            for pres in ("L", "D"):
                                cases.add((pres, a + da, b + db, c + dc, m))
    # the box of the property's quantifier
    box = [(a, b, c) for a in range(-1, 5) for b in range(-1, 24) for c in range(-1, 5)]
    if ctx.tier == "quick":
        box = rng.sample(box, 500)
    for (a, b, c) in box:
        cases.add((rng.choice("LD"), a, b, c, rng.randrange(2)))
        if ctx.tier == "thorough":
            for m in (0, 1):
                for pres in ("L", "D"):
                    cases.add((pres, a, b, c, m))
    # presence combinations
    for (a, b, c) in SUPPORTED + [(0, 0, 0), (9, 9, 9)]:
        for pres in ("N", "LD"):
            cases.add((pres, a, b, c, 0))
    # far-away values
    for v in (2 ** 31 - 1, -2 ** 31, 2 ** 40, -7):
        cases.add(("L", v, 6, 0, 0)); cases.add(("D", 2, v, 0, 0)); cases.add(("L", 1, 6, v, 1))
    cases = sorted(cases)
    lines = ["plant %s %d %d %d %d" % c for c in cases]
    scripts = runner.shard(lines, NCPU)
    hout = [o for (outs, _) in runner.run_harness(scripts, stateless=True) for o in outs]
    mout = [o for outs in runner.run_model(scripts) for o in outs]
    sout = [o for outs in runner.run_model([["spec." + l for l in s] for s in scripts]) for o in outs]
    divergences, violations = [], []
    hist = {}
    for i, l in enumerate(lines):
        hist[hout[i].split()[-1] if hout[i].startswith("throw") else "loaded"] = \
            hist.get(hout[i].split()[-1] if hout[i].startswith("throw") else "loaded", 0) + 1
        if hout[i] != mout[i]:
            divergences.append({"input": l, "impl": hout[i], "model": mout[i]})
        if hout[i] != sout[i]:
            violations.append({"tag": "oracle", "signature": None,
                               "header": {"kind": "input",
                                          "what": "load outcome differs from the public version table"},
                               "body": [l, "impl: " + hout[i], "spec: " + sout[i]]})
    loaded = sum(1 for o in hout if o.startswith("ok"))
    return {
        "ok": not divergences and not violations,
        "evaluations": len(lines),
        "distinct_nontrivial": loaded,
        "rule": "version triples planted into the Information table of real directories: every supported triple and its "
                "neighbours, a box (-1..4)x(-1..23)x(-1..4) (sampled in quick tier, complete in thorough), both markers, "
                "both layouts, all four presence combinations, far-away values; real load_database outcome vs the "
                "generated decision tree and vs the Spec table; non-trivial = cases that load successfully",
        "samples": lines[:3] + lines[-2:],
        "histograms": hist,
        "divergences": divergences[:20],
        "violations": violations[:5],
    }
