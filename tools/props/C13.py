"""C13 — Schema and layout detection is exact."""
import random, subprocess, sys
from common import *
import runner

ID = "C13"
LEAN_MODULES = ["Properties.C13"]
THEOREMS = ["EngineModel.Properties.C13." + t for t in [
    "detect_version", "detect_sound", "C13_exact", "C13_stamp", "C13_reload", "C13_unsupported_iff",
    "C13_detect_exact", "C13_narrowing_counterexample", "C13_load_exact", "C13_layout",
    "C13_no_misidentification", "C13_version_marker_injective", "C13_spec_table", "C13_create_or_load"]]
ASSUMPTIONS = [
    "the Spec table (schema <-> version triple, 1.18.0 variants told apart by the isExternalTrack NUMERIC marker) is "
    "the public header's: enumerators, to_string and supported_schemas of engine_schema.hpp are re-read on every run "
    "(Gen) and C13_spec_table proves the hand-written Lean table equal to them; (3,0,0) is in the table because the "
    "library ships schema_3_0_0 and the unedited reference test requires the 4.1.0 dump to load",
    "three refusals the property text does not spell out are part of the Spec (specLoad) and reported as "
    "database_inconsistency: a legacy library without p.db (fix 6269a0f), an m.db without exactly one Information "
    "entry in sqlite_master, a Database2 directory stamped 1.x; a legacy directory stamped 2.x/3.x loads with that "
    "schema, as the text demands (each supported triple maps to its schema) - see design/C13.md",
    "the translator recognises (does not translate) four library idioms: path_exists(directory + literal) = presence "
    "bit, the COUNT(*) query on sqlite_master = World.tableCount, the SELECT of the three version columns tied "
    "positionally to variables, the PRAGMA-based marker query; SQLite's execution of these is correspondence only "
    "(one Information row with INTEGER values is assumed: 0 or >1 rows / non-integer cells are outside the model)",
]
MANIFEST = dict(
    text='Theorems about functions regenerated from the source on every run: C13_detect_exact (the whole of detect_schema - Information lookup, the three STORED 64-bit numbers, the fits_int guard, the narrowing to int, the nested switch - equals the public version table on every integer triple and both markers; the historical truncation 2^40 -> 0 is inside its domain, C13_narrowing_counterexample), C13_load_exact (load_database with detect_is_database2 / load_legacy_sqlite_database / load_database2_sqlite_database / load_existing equals the Spec specLoad for all 16 presence combinations of directory, m.db, p.db, Database2/m.db), C13_layout (every layout conjunct incl. Database2+1.x stamp and legacy+2.x stamp), C13_no_misidentification on the whole load path, C13_version_marker_injective, C13_spec_table (the Lean table = engine_schema.hpp as re-read this run), C13_reload, C13_stamp, C13_create_or_load; tied by the clang-AST translator and by loading real planted directories (presence sets, 0/1/2 Information entries, 64-bit triples incl. values that narrow onto supported ones) against the generated functions and the Spec.',
    note="Trusted: Lean kernel; translators tools/tr_detect.py + tr_detect_full.py (what they recognise rather than translate is listed in the assumptions); SQLite's reading of the Information row and of PRAGMA table_info (correspondence only). (3,0,0) is in the Spec table (see DESIGN.md C13).",
    technique='Lean 4 theorems over a model regenerated from source (translator) + differential loading of planted directories',
    ref='6/C13')
TRUSTED_EXTRA = ["tools/tr_detect.py + tools/tr_detect_full.py (clang-14 JSON AST -> Lean translator for detect_schema, the layout "
                 "dispatch of load_database, the schema_version constants and the public table of engine_schema.hpp)"]


def _translate():
    r = subprocess.run([sys.executable, os.path.join(VERIF, "tools", "tr_detect.py")],
                       stdout=subprocess.PIPE, stderr=subprocess.PIPE, text=True)
    return (r.stdout.strip() or r.stderr.strip()[-200:])


TRANSLATORS = {"schema.cpp": _translate}

SUPPORTED = [(1, 6, 0), (1, 7, 1), (1, 9, 1), (1, 11, 1), (1, 13, 0), (1, 13, 1), (1, 13, 2), (1, 15, 0), (1, 17, 0),
             (1, 18, 0), (2, 18, 0), (2, 20, 1), (2, 20, 2), (2, 20, 3), (2, 21, 0), (2, 21, 1), (2, 21, 2), (3, 0, 0)]


PRESENCES = ["-", "L", "P", "D", "LP", "LD", "PD", "LPD", "X", "XLPD",
             # E = an empty Database2 directory: the Model / Spec have no such bit (the letter is ignored there), so the
             # outcome must be the one of the same files without it (seeded C13-4, C16-4)
             "E", "LE", "PE", "LPE"]
W32 = 2 ** 32


def tie(ctx):
    rng = random.Random(ctx.seed * 31337 + 13)
    thorough = ctx.tier == "thorough"
    cases = set()
    # every supported triple and its neighbours, both markers, the two loadable layouts
    for (a, b, c) in SUPPORTED:
        for da in (-1, 0, 1):
            for db in (-1, 0, 1):
                for dc in (-1, 0, 1):
                    if abs(da) + abs(db) + abs(dc) <= (3 if thorough else 1):
                        for m in (0, 1):
                            for pres in ("LP", "D"):
                                cases.add((pres, 1, a + da, b + db, c + dc, m))
    # the box of the property's quantifier
    box = [(a, b, c) for a in range(-1, 5) for b in range(-1, 24) for c in range(-1, 5)]
    if not thorough:
        box = rng.sample(box, 400)
    for (a, b, c) in box:
        cases.add((rng.choice(["LP", "D"]), 1, a, b, c, rng.randrange(2)))
        if thorough:
            for m in (0, 1):
                for pres in ("LP", "D"):
                    cases.add((pres, 1, a, b, c, m))
    # presence combinations x number of Information entries
    for (a, b, c) in SUPPORTED + [(0, 0, 0), (9, 9, 9)]:
        for pres in PRESENCES:
            for tc in (0, 1, 2):
                if thorough or tc == 1 or rng.random() < 0.25:
                    cases.add((pres, tc, a, b, c, rng.randrange(2)))
    # stored 64-bit values: far away, and values that NARROW onto a supported component
    far = [2 ** 31 - 1, -2 ** 31, 2 ** 31, 2 ** 40, -7, 2 ** 63 - 1, -2 ** 63, W32, -W32]
    for v in far:
        cases.add(("LP", 1, v, 6, 0, 0)); cases.add(("D", 1, 2, v, 0, 0)); cases.add(("LP", 1, 1, 6, v, 1))
    for (a, b, c) in (SUPPORTED if thorough else rng.sample(SUPPORTED, 8)):
        for k in (1, -1, 2 ** 8, 2 ** 31 - 1, -2 ** 31):
            pres = "LP" if a == 1 else "D"
            cases.add((pres, 1, a + k * W32, b, c, 0))
            cases.add((pres, 1, a, b + k * W32, c, 1))
            cases.add((pres, 1, a, b, c + k * W32, 0))
            cases.add((pres, 1, a + k * W32, b + k * W32, c + k * W32, 1))
    # triples that COLLIDE with a supported one under a positional folding maj*B1 + min*B2 + pat (decimal, binary and
    # byte bases): a detector that compares one folded number instead of the three components accepts them
    for (a, b, c) in (SUPPORTED if thorough else rng.sample(SUPPORTED, 9)):
        pres = "LP" if a == 1 else "D"
        for (B1, B2) in ((10 ** 6, 10 ** 3), (10 ** 4, 10 ** 2), (100, 10), (2 ** 16, 2 ** 8), (2 ** 20, 2 ** 10), (2 ** 32, 2 ** 16)):
            q = B1 // B2
            for t in ((a, b - 1, c + B2), (a, b + 1, c - B2), (a - 1, b + q, c), (a + 1, b - q, c),
                      (a - 1, b, c + B1), (a + 1, b, c - B1), (a - 1, b + q - 1, c + B2)):
                cases.add((pres, 1) + t + (rng.randrange(2),))
    cases = sorted(c for c in cases if all(-2 ** 63 <= v < 2 ** 63 for v in c[2:5]))
    lines = ["plant2 %s %d %d %d %d %d" % c for c in cases]
    scripts = runner.shard(lines, NCPU)
    hout = [o for (outs, _) in runner.run_harness(scripts, stateless=True) for o in outs]
    mout = [o for outs in runner.run_model(scripts) for o in outs]
    sout = [o for outs in runner.run_model([["spec." + l for l in s] for s in scripts]) for o in outs]
    divergences, violations = [], []
    hist = {"wide_values": 0, "narrow_onto_supported": 0}
    for i, l in enumerate(lines):
        key = hout[i].split()[-1] if hout[i].startswith("throw") else ("loaded" if hout[i].startswith("ok") else hout[i][:20])
        hist[key] = hist.get(key, 0) + 1
        c = cases[i]
        hist["presence_" + c[0]] = hist.get("presence_" + c[0], 0) + 1
        hist["tables_%d" % c[1]] = hist.get("tables_%d" % c[1], 0) + 1
        if any(not (-2 ** 31 <= v < 2 ** 31) for v in c[2:5]):
            hist["wide_values"] += 1
            nar = tuple(((v + 2 ** 31) % W32) - 2 ** 31 for v in c[2:5])
            if nar in SUPPORTED:
                hist["narrow_onto_supported"] += 1
        if hout[i] != mout[i]:
            divergences.append({"input": l, "impl": hout[i], "model": mout[i]})
        if hout[i] != sout[i]:
            violations.append({"tag": "oracle", "signature": None,
                               "header": {"kind": "input",
                                          "what": "load outcome differs from the Spec (public version table + layout rules)"},
                               "body": [l, "impl: " + hout[i], "spec: " + sout[i]]})
    loaded = sum(1 for o in hout if o.startswith("ok"))
    return {
        "ok": not divergences and not violations,
        "evaluations": len(lines),
        "distinct_nontrivial": loaded,
        "rule": "real directories planted by a plain sqlite3 connection: presence sets over {directory, m.db, p.db, "
                "Database2/m.db}, 0/1/2 sqlite_master entries named Information, version triples = every supported "
                "triple and its neighbours, a box (-1..4)x(-1..23)x(-1..4) (sampled in quick tier, complete in thorough), "
                "both markers, 64-bit values far away and values congruent to a supported component modulo 2^32, triples that collide with a supported one under a positional folding maj*B1+min*B2+pat (bases 10/100/1000, 2^8/2^10/2^16), presence sets with an EMPTY Database2 directory; real "
                "load_database outcome vs the generated loadDatabaseGen and vs the Spec specLoad; non-trivial = cases that "
                "load successfully",
        "samples": lines[:3] + lines[-2:],
        "histograms": hist,
        "divergences": divergences[:20],
        "violations": violations[:5],
    }
