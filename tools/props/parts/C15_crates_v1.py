"""C15, part crates 1.x: no crate / membership operation or query of a schema-1.x library has undefined
behaviour or fails to terminate, whatever its arguments; stale crate and track handles are safe."""
import random
from common import *
import runner
from props.parts import _c15 as K
import gen_lib as GL

NS = "EngineModel.Properties.C15CratesV1."
LEAN_MODULES = ["Properties.C15CratesV1"]
THEOREMS = [NS + t for t in [
    "v1c_C15_no_ub", "v1c_C15_invariant", "v1c_C15_empty", "v1c_C15_reachable_no_ub", "v1c_C15_queries_no_ub",
    "v1c_C15_stale_crate_one_step", "v1c_C15_stale_crate_partial", "v1c_C15_stale_crate_counterexample",
    "v1c_C15_dead_crate_throws", "v1c_C15_descendant_parent_refused", "v1c_C15_stale_track_one_step",
    "v1c_C15_cyclic_table_counterexample"]]
ASSUMPTIONS = [
    "crates 1.x: the only undefined-behaviour source of this code that is not SQLite's or sqlite_modern_cpp's is the "
    "unbounded recursion of update_path over children() (stack exhaustion on a cyclic parent list); the model "
    "(EngineModel/Api/CratesV1.lean, tied by C07/C08/C11 and again here) answers `ub nontermination` after "
    "|CrateParentList| + 1 levels.  Every other statement is a single SQL statement with a callback",
    "crates 1.x: crate / track handles are values (shared_ptr to an impl holding the id); id(), copy, assignment and "
    "destruction are observed on the real library during the tie (crate.q <h> copy / id) and have no model content",
]
MANIFEST_TEXT = ("Crates 1.x: every crate / membership / track-removal operation keeps the forest invariant `FInv` (+ the "
                 "AUTOINCREMENT bound), on which `step` never answers `ub` — update_path terminates within "
                 "|CrateParentList| + 1 levels; removed crates / tracks report is_valid = false and calls through them "
                 "throw.")
TRUSTED_EXTRA = []
MODE = "c15cv1"
SCHEMAS = GL.SCHEMAS_V1

NAMES = [b"", b";", b"a;b", b"B", b"A", b"n", b"x.y/z", "Ünï ✓".encode(), b"q" * 300, b"z" * 255, b" "]
IDS = [0, -1, 1, 2, 3, 999, 2 ** 40, 2 ** 63 - 1, -2 ** 63]


def prefix(schema):
    return ["#mode " + MODE, "create %s mem" % schema,
            "mkroot a 41", "mksub b a 42", "mksub c b 43", "mkroot d 44",
            "v1.mktrack t1 1", "v1.mktrack t2 2", "v1.mktrack tx 3",
            "addtrack a t1", "addtrack b t2", "addtrack a tx", "addtrack d tx",
            "mkroot x 58", "mksub y x 59", "addtrack y t1", "rmcrate x", "rmtrack tx",
            "crate.q x valid", "crate.q y valid", "crate.q x id", "crate.q y copy", "get tx valid", "get tx copy"]


PREFIX = len(prefix("s"))


def adversarial(rng, uid, crates, tracks):
    c = rng.choice(crates)
    t = rng.choice(tracks)
    k = rng.random()
    nm = K.hexs(rng.choice(NAMES))
    if k < 0.10:
        return "rename %s %s" % (c, nm)
    if k < 0.20:
        v = "n%d" % uid
        crates.append(v)
        if rng.random() < 0.4:
            return "mkroot %s %s" % (v, nm if rng.random() < 0.5 else K.hexs(b"r%d" % uid))
        return "mksub %s %s %s" % (v, c, nm if rng.random() < 0.5 else K.hexs(b"s%d" % uid))
    if k < 0.34:
        return "setparent %s %s" % (c, rng.choice(crates + ["-", "-", c]))
    if k < 0.40:
        return "rmcrate %s" % c
    if k < 0.50:
        return rng.choice(["addtrack %s %s" % (c, t), "addtrackid %s %d" % (c, rng.choice(IDS))])
    if k < 0.56:
        return rng.choice(["rmtrackfrom %s %s" % (c, t), "cleartracks %s" % c])
    if k < 0.59:
        return "rmtrack %s" % t
    if k < 0.62:
        v = "u%d" % uid
        tracks.append(v)
        return "v1.mktrack %s %d" % (v, 100 + uid)
    if k < 0.80:
        q = rng.choice(["id", "valid", "name", "parent", "children", "descendants", "tracks", "copy", "sub_by_name " + nm])
        return "crate.q %s %s" % (c, q)
    if k < 0.90:
        return "db.q " + rng.choice(["crates", "root_crates", "tracks", "crate_by_id %d" % rng.choice(IDS),
                                     "crates_by_name " + nm, "root_by_name " + nm])
    if k < 0.97:
        return "get %s %s" % (t, rng.choice(["valid", "id", "copy", "containing_crates"]))
    v = "g%d" % uid
    crates.append(v)
    return "getcrate %s %d" % (v, rng.choice(IDS))


def gen_script(rng, schema, hid, nadv):
    L = prefix(schema)
    crates = ["a", "b", "c", "d", "x", "y"]
    tracks = ["t1", "t2", "tx"]
    if rng.random() < 0.5:
        L[1] += " +alias"      # harness only: two handle objects per variable, calls alternate between them
    for j in range(nadv):
        L.append(adversarial(rng, hid * 1000 + j, crates, tracks))
    return L + K.moved_subtree_probe("mkroot") + K.failed_call_probe()


stale_of = K.removed_handles


def opkey(l):
    t = l.split()
    if t[0] in ("crate.q", "get") and len(t) > 2:
        return "%s %s" % (t[0], t[2])
    if t[0] == "db.q":
        return "db.q " + t[1]
    return t[0]


def tie(ctx):
    rng = random.Random(ctx.seed * 5413 + 1503)
    schemas = K.rotate(SCHEMAS, ctx.seed, 11 if ctx.tier == "thorough" else 3)
    per = 40 if ctx.tier == "thorough" else 6
    nadv = 90 if ctx.tier == "thorough" else 40
    scripts = []
    hid = 0
    for s in schemas:
        for _ in range(per):
            hid += 1
            scripts.append(gen_script(rng, s, hid, nadv))
    # recorded witnesses first (corpus/C15/*.txt written for this mode)
    cdir = os.path.join(VERIF, "corpus", "C15")
    corpus = []
    if os.path.isdir(cdir):
        for n in sorted(os.listdir(cdir)):
            lines = [l for l in open(os.path.join(cdir, n)).read().split("\n") if l.strip()]
            if lines and lines[0] == "#mode " + MODE:
                corpus.append(lines)
    scripts = corpus + scripts
    res = K.run_pair(scripts)
    j = K.judge(res, "crates_v1", "v1", lambda s: PREFIX, stale_of, opkey, defined_only=K.const_query)
    j["hist"]["corpus_scripts"] = len(corpus)
    return {"ok": j["ok"], "evaluations": j["evaluations"],
            "distinct_nontrivial": j["distinct"],
            "rule": "crates 1.x: scripts of %d adversarial calls (names empty / ';' / 300 bytes / UTF-8, set_parent to self, "
                    "descendants, removed crates and none, ids 0, -1, 999, 2^40, INT64 extremes for add_track / crate_by_id, "
                    "remove_crate / remove_track of anything, every query through live and stale handles, copy / id) after a "
                    "prefix building a/b/c, d, tracks t1 t2 and removed x/y, tx; %d schemas; model `step` and queries of "
                    "Api/CratesV1.lean vs sanitizer harness; oracle: no `ub` line, stale handle answers; distinct = distinct "
                    "(schema, call line)" % (nadv, len(schemas)),
            "samples": [scripts[-2][PREFIX][:200], scripts[-1][-1][:200]],
            "histograms": j["hist"], "divergences": j["divergences"][:10], "violations": j["violations"][:6]}


def replay(ctx, hdr, body):
    return K.replay([MODE], hdr, body)
