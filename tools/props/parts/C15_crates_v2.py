"""C15, part crates 2.x: no crate / membership operation or query of a schema-2.x library has undefined
behaviour or fails to terminate, whatever its arguments; stale crate and track handles are safe."""
import random
from common import *
import runner
from props.parts import _c15 as K
import gen_lib as GL

NS = "EngineModel.Properties.C15CratesV2."
LEAN_MODULES = ["Properties.C15CratesV2"]
THEOREMS = [NS + t for t in [
    "v2c_C15_no_ub", "v2c_C15_reachable_no_ub", "v2c_C15_cyclic_table_counterexample",
    "v2c_C15_guard_dropped_counterexample", "v2c_C15_walk_terminates", "v2c_C15_view_terminates",
    "v2c_C15_queries_no_ub", "v2c_C15_ordered_queries_no_ub", "v2c_C15_reachable_queries_no_ub",
    "v2c_C15_all_calls_no_ub",
    "v2c_C15_table_level_counterexample", "v2c_C15_stale_crate", "v2c_C15_stale_crate_reachable",
    "v2c_C15_nonexistent_args"]]
ASSUMPTIONS = [
    "crates 2.x: undefined-behaviour sources made explicit: the missing-tail dereference of sort_ids / get_for_list "
    "(oob_read, inside the model Db/Chain.lean), the unbounded do-while of the same functions and the recursive view "
    "PlaylistAllChildren (nontermination, in the guarded wrappers Api/GuardedV2.lean which the driver mode of this part "
    "runs).  The empty-optional dereferences of crate::name / parent / create_*_after were repaired (fix: f8bb282) and "
    "are modelled as the exceptions the code now throws",
    "crates 2.x: the ordered queries are proved free of `ub` on states whose Playlist / PlaylistEntity tables "
    "represent lists (Chain.R) and whose parent links form a forest (forestOk); every state reachable through the "
    "crate / membership / track API is such a state (Inv of the crates-2.x work-package, inv_run), which gives "
    "v2c_C15_reachable_queries_no_ub; histories using the table-level playlist_entity_table operations are outside "
    "(C09's recorded finding, v2c_C15_table_level_counterexample)",
]
MANIFEST_TEXT = ("Crates 2.x: no mutating operation has a `ub` outcome on any state; on tables that represent lists / a "
                 "forest the chain walk ends within its row count and the recursive view within |Playlist| steps (guarded "
                 "mirrors with explicit `nontermination`), so every query is a value or an exception; a removed crate is "
                 "invalid and every call through it throws.")
TRUSTED_EXTRA = []
MODE = "c15cv2"
SCHEMAS = GL.SCHEMAS_V2

NAMES = [b"", b";", b"a;b", b"B", b"A", b"n", b"x.y/z", "Ünï ✓".encode(), b"q" * 300, b"z" * 255, b" "]
IDS = [0, -1, 1, 2, 3, 999, 2 ** 40, 2 ** 62]


def prefix(schema):
    return ["#mode " + MODE, "v2.create %s mem" % schema,
            "mkroot a 41", "mksub b a 42", "mksub c b 43", "mkroot d 44", "mksub e a 45",
            "v2.mktrack t1 " + K.hexs(b"m/t1.mp3"), "v2.mktrack t2 " + K.hexs(b"m/t2.mp3"),
            "v2.mktrack tx " + K.hexs(b"m/tx.mp3"),
            "addtrack a t1", "addtrack a t2", "addtrack b t2", "addtrack a tx", "addtrack d tx",
            "mkroot x 58", "mksub y x 59", "addtrack y t1", "rmcrate x", "rmtrack tx",
            "crate.q x valid", "crate.q y valid", "crate.q x id", "crate.q y copy", "get tx valid", "get tx copy"]


PREFIX = len(prefix("s"))


def adversarial(rng, uid, crates, tracks):
    c = rng.choice(crates)
    t = rng.choice(tracks)
    k = rng.random()
    nm = K.hexs(rng.choice(NAMES))
    fresh = K.hexs(b"f%d" % uid)
    if k < 0.08:
        return "rename %s %s" % (c, nm)
    if k < 0.22:
        v = "n%d" % uid
        crates.append(v)
        n = nm if rng.random() < 0.4 else fresh
        r = rng.random()
        if r < 0.25:
            return "mkroot %s %s" % (v, n)
        if r < 0.5:
            return "mkroot_after %s %s %s" % (v, n, rng.choice(crates[:-1]))
        if r < 0.75:
            return "mksub %s %s %s" % (v, c, n)
        return "mksub_after %s %s %s %s" % (v, c, n, rng.choice(crates[:-1]))
    if k < 0.36:
        return "setparent %s %s" % (c, rng.choice(crates + ["-", "-", c]))
    if k < 0.42:
        return "rmcrate %s" % c
    if k < 0.52:
        return rng.choice(["addtrack %s %s" % (c, t), "addtrackid %s %d" % (c, rng.choice(IDS))])
    if k < 0.58:
        return rng.choice(["rmtrackfrom %s %s" % (c, t), "cleartracks %s" % c])
    if k < 0.61:
        return "rmtrack %s" % t
    if k < 0.64:
        v = "u%d" % uid
        tracks.append(v)
        return "v2.mktrack %s %s" % (v, K.hexs(b"m/u%d.mp3" % uid))
    if k < 0.84:
        q = rng.choice(["id", "valid", "name", "parent", "children", "descendants", "tracks", "copy", "sub_by_name " + nm,
                        "children", "tracks", "descendants"])
        return "crate.q %s %s" % (c, q)
    if k < 0.93:
        return rng.choice(["db.q crates", "db.q root_crates", "db.q tracks", "db.q crate_by_id %d" % rng.choice(IDS),
                           "db.q crates_by_name " + nm, "db.q root_by_name " + nm, "db.q root_crates",
                           "db.q track_by_id %d" % rng.choice(IDS), "c15.crate_db %s" % c, "c15.handles %s %s" % (c, t),
                           "c15.add_tracks %s %s" % (c, " ".join(rng.sample(tracks, min(len(tracks), rng.choice([0, 1, 2, 3])))))]
                          + K.DB_CONST[:rng.choice([0, 4])])
    if k < 0.98:
        return "get %s %s" % (t, rng.choice(["valid", "id", "copy"]))
    v = "g%d" % uid
    crates.append(v)
    return "getcrate %s %d" % (v, rng.choice(IDS))


def gen_script(rng, schema, hid, nadv):
    L = prefix(schema)
    crates = ["a", "b", "c", "d", "e", "x", "y"]
    tracks = ["t1", "t2", "tx"]
    if rng.random() < 0.5:
        L[1] += " +alias"      # harness only: two handle objects per variable, calls alternate between them
    for j in range(nadv):
        L.append(adversarial(rng, hid * 1000 + j, crates, tracks))
    L += K.moved_subtree_probe("mkroot")
    L += K.failed_call_probe()
    L += ["v2.raw", "db.q root_crates", "crate.q a children", "crate.q a tracks", "crate.q a descendants"]
    return L


stale_of = K.removed_handles


def opkey(l):
    t = l.split()
    if t[0] in ("crate.q", "get") and len(t) > 2:
        return "%s %s" % (t[0], t[2])
    if t[0] == "db.q":
        return "db.q " + t[1]
    return t[0]


def tie(ctx):
    rng = random.Random(ctx.seed * 3167 + 1504)
    schemas = K.rotate(SCHEMAS, ctx.seed, 7 if ctx.tier == "thorough" else 3)
    per = 60 if ctx.tier == "thorough" else 6
    nadv = 90 if ctx.tier == "thorough" else 40
    scripts = []
    hid = 0
    for s in schemas:
        for _ in range(per):
            hid += 1
            scripts.append(gen_script(rng, s, hid, nadv))
    res = K.run_pair(scripts)
    j = K.judge(res, "crates_v2", "v2", lambda s: PREFIX, stale_of, opkey, defined_only=K.const_query)
    return {"ok": j["ok"], "evaluations": j["evaluations"],
            "distinct_nontrivial": j["distinct"],
            "rule": "crates 2.x: scripts of %d adversarial calls (names empty / ';' / 300 bytes / UTF-8, create_*_after with "
                    "siblings from elsewhere in the tree or removed, set_parent to self, descendants, removed crates and "
                    "none, ids 0, -1, 999, 2^40, 2^62 for add_track / crate_by_id, remove_crate / remove_track of anything, "
                    "every query through live and stale handles, copy / id) after a prefix building a/b/c, a/e, d, tracks t1 "
                    "t2 and removed x/y, tx; %d schemas; model `step` of Db/V2Crates.lean and the guarded walks of "
                    "Api/GuardedV2.lean vs sanitizer harness, raw tables compared at the end; oracle: no `ub` line, stale "
                    "handle answers; distinct = distinct (schema, call line)" % (nadv, len(schemas)),
            "samples": [scripts[0][PREFIX][:200], scripts[-1][-6][:200]],
            "histograms": j["hist"], "divergences": j["divergences"][:10], "violations": j["violations"][:6]}


def replay(ctx, hdr, body):
    return K.replay([MODE], hdr, body)
