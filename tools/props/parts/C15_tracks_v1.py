"""C15, part tracks 1.x: no getter / setter / create / update / snapshot / remove of a schema-1.x track has
undefined behaviour, whatever its arguments; stale track handles are safe."""
import random
from common import *
import runner
from props.parts import _c15 as K
from props.parts import _tracksv1_gen as G
from props.parts import C06_v1 as V

NS = "EngineModel.Properties.C15TracksV1."
LEAN_MODULES = ["Properties.C15TracksV1"]
THEOREMS = [NS + t for t in [
    "v1t_C15_no_ub", "v1t_C15_invariant", "v1t_C15_empty", "v1t_C15_reachable_no_ub", "v1t_C15_ceil_exact",
    "v1t_C15_reachable_no_ub_exact_ceil", "v1t_C15_write_any_snapshot", "v1t_C15_slot_any_index",
    "v1t_C15_stale_handle_one_step", "v1t_C15_stale_handle_partial", "v1t_C15_stale_handle_counterexample",
    "v1t_C15_duration_overflow_counterexample", "v1t_C15_sites", "v1t_C15_guarded_step",
    "v1t_C15_guarded_reachable_no_ub", "v1t_C15_all_calls_no_ub", "v1t_C15_guard_dropped_counterexample"]]
ASSUMPTIONS = [
    "tracks 1.x: the model (EngineModel/TracksV1, tied by C01/C06 and again here) makes these undefined-behaviour "
    "sources explicit: vector index in the four per-slot accessors and in the waveform resampling loop (oob_index), "
    "seconds -> ms / ns products in duration() / last_played_at() / snapshot() and the track_utils extents "
    "(signed_overflow), static_cast<int64_t> of sample rate / BPM / ceil(BPM) (float_cast_range), the division by the "
    "truncated sample rate (div_zero); the fixed-size quick-cue buffer is behind the hot_cues_overflow guard of the "
    "fix: commit and modelled as that guard",
    "tracks 1.x: the one law assumed of double arithmetic is CeilInRange (for |x| < 2^63 the cast of ceil x to int64 is "
    "defined), used by set_bpm only; it is a theorem for the bit-exact IEEE ceil `ceilBits` (v1t_C15_ceil_exact), and "
    "the tie compares the hardware ceil of the driver with `ceilBits` on boundary and random doubles on every run",
    "tracks 1.x: calls through a handle whose Track row is gone follow the tracks-1.x model of removed tracks "
    "(dbGet / dbSet / dbUpdate on an absent id) and are compared like every other call",
]
MANIFEST_TEXT = ("Tracks 1.x: the same for the legacy layout (`dbOk`: stored whole seconds scale back into int64; the "
                 "only assumption on double arithmetic is that ceil keeps magnitudes below 2^63).")
TRUSTED_EXTRA = []
MODE = "c15tv1"

TRACKS = ["ta", "tb", "tx"]
EXTREME_IDX = [-1, 0, 1, 7, 8, 9, 2147483647, -2147483648]
GET_FIELDS = V.GETTERS + V.DERIVED


def slots_txt(rng, gen, txt, ns):
    n = rng.choice(ns)
    return " ".join([str(n)] + [txt(gen(rng, rng.random() < 0.5)) for _ in range(n)])


def adv_snapshot(rng, uid, tier):
    s = G.g_snapshot(rng, uid, tier, nan_ok=rng.random() < 0.1, valid=rng.random() < 0.3)
    r = rng.random()
    if r < 0.15:
        s["hot_cues"] = [G.g_cue(rng) for _ in range(rng.choice([9, 12]))]
    elif r < 0.3:
        s["loops"] = [G.g_loop(rng) for _ in range(rng.choice([9, 12]))]
    elif r < 0.45:
        s["waveform"] = G.g_waveform(rng, tier) or bytes(range(12))
        s["sample_rate"] = rng.choice([None, G.dbits(0.5), G.dbits(1e15), G.NAN, G.dbits(-44100.0), G.dbits(5e-324)])
        s["sample_count"] = rng.choice([None, 0, 1, 2 ** 63, 2 ** 64 - 1, 100000])
    return s


def adversarial(rng, tier, uid, live, allow_create):
    t = rng.choice(sorted(live) * 4 + TRACKS)
    k = rng.random()
    if k < 0.14:
        return "get %s %s %d" % (t, rng.choice(["hot_cue_at", "loop_at"]), rng.choice(EXTREME_IDX))
    if k < 0.26:
        i = rng.choice(EXTREME_IDX)
        if rng.random() < 0.5:
            return "set %s hot_cue_at %d %s" % (t, i, G.cue_txt(G.g_cue(rng, rng.random() < 0.6)))
        return "set %s loop_at %d %s" % (t, i, G.loop_txt(G.g_loop(rng, rng.random() < 0.6)))
    if k < 0.33:
        if rng.random() < 0.5:
            return "set %s hot_cues %s" % (t, slots_txt(rng, G.g_cue, G.cue_txt, [0, 7, 8, 9, 12]))
        return "set %s loops %s" % (t, slots_txt(rng, G.g_loop, G.loop_txt, [0, 7, 8, 9, 12]))
    if k < 0.60:
        f = rng.choice(V.SETTERS + ["sample_rate", "sample_count", "bpm", "waveform", "duration", "last_played_at"])
        return "set %s %s %s" % (t, f, V.value_txt(rng, f, tier))
    if k < 0.72:
        return "get %s %s" % (t, rng.choice(GET_FIELDS))
    if k < 0.78:
        return "snap %s" % t
    if k < 0.88:
        s = adv_snapshot(rng, uid, tier)
        if allow_create and rng.random() < 0.5:
            return "mktrack tn%d %s" % (uid, G.snap_txt(s))
        return "update %s %s" % (t, G.snap_txt(s))
    if k < 0.93:
        return "get %s %s" % (t, rng.choice(["valid", "id", "copy"]))
    if k < 0.96 or allow_create:
        return rng.choice(K.DB_CONST + ["db.q tracks", "db.q track_by_id %d" % rng.choice([0, -1, 1, 2, 3, 999, 2 ** 40]),
                                        "db.q tracks_by_path " + K.hexs(rng.choice([b"", b"nope", b"x" * 300])),
                                        "c15.handles - %s" % t, "db.q tracks"])
    v = rng.choice(["ta", "tb", "tx"])
    if v in live and len(live) < 2:
        v = "tx"
    live.discard(v)
    return "rmtrack %s" % v


def gen_script(rng, tier, schema, hid, nadv, flavour):
    """flavour 'stale': tx is created first and removed, further removals, no creation afterwards (so that the
    ids the model allocates are the library's whatever the rowid / AUTOINCREMENT rule);
    flavour 'create': no removal at all, adversarial create_track calls."""
    L = ["#mode " + MODE, "create %s mem" % schema]
    inits = {"tx": G.minimal(b"x/%d.mp3" % hid), "ta": G.g_snapshot(rng, hid * 10 + 1, "quick", valid=True),
             "tb": G.g_snapshot(rng, hid * 10 + 2, "quick", valid=True)}
    for v in ["tx", "ta", "tb"]:
        L.append("mktrack %s %s" % (v, G.snap_txt(inits[v])))
    live = {"ta", "tb", "tx"}
    if flavour == "stale":
        L += ["rmtrack tx", "get tx valid", "get tx id", "get tx copy"]
        live.discard("tx")
    else:
        L += ["get tx valid", "get tx id", "get tx copy", "snap tx"]
    for j in range(nadv):
        L.append(adversarial(rng, tier, hid * 1000 + j, live, flavour == "create"))
    return L


PREFIX = 9


stale_of = K.removed_handles


def opkey(l):
    t = l.split()
    if t[0] in ("get", "set") and len(t) > 2:
        return "%s %s" % (t[0], t[2])
    return t[0]


def defined_only(l, stale):
    t = l.split()
    return len(t) >= 3 and t[1] in stale and t[0] in ("get", "set", "snap", "update") and \
        not (t[0] == "get" and t[2] in ("valid", "id", "copy"))


CEIL_EDGES = ["0000000000000000", "8000000000000000", "3fe0000000000000", "bfe0000000000000", "3fefffffffffffff",
              "bfefffffffffffff", "3ff0000000000000", "3ff8000000000000", "405e200000000000", "c05e200000000000",
              "432fffffffffffff", "4330000000000000", "433fffffffffffff", "c32fffffffffffff", "43dfffffffffffff",
              "c3dfffffffffffff", "43e0000000000000", "c3e0000000000000", "0000000000000001", "8000000000000001",
              "000fffffffffffff", "0010000000000000", "7fefffffffffffff", "7ff0000000000000", "fff0000000000000",
              "7ff8000000000000", "3ca0000000000000", "4000000000000001", "4340000000000000", "4190000000000001"]


def ceil_selftest(rng, n):
    """FloatOps assumption, sampled: the hardware `ceil` the driver runs = the bit-exact `ceilBits` the theorem
    v1t_C15_ceil_exact is about (NaN payloads aside)."""
    pts = list(CEIL_EDGES)
    while len(pts) < n:
        e = rng.choice([rng.randrange(0, 2047), rng.randrange(1000, 1090), rng.randrange(1020, 1080)])
        pts.append("%016x" % ((rng.getrandbits(1) << 63) | (e << 52) | rng.getrandbits(52)))
    out = runner.run_model_script(["c15.ceil " + p for p in pts])
    return [{"input": "c15.ceil " + p, "impl": "hardware ceil of the driver", "model": o[:200]}
            for p, o in zip(pts, out) if o != "ok same"][:5]


def tie(ctx):
    rng = random.Random(ctx.seed * 7121 + 1501)
    schemas = K.rotate(G.SCHEMAS, ctx.seed, 11 if ctx.tier == "thorough" else 3)
    per = 40 if ctx.tier == "thorough" else 6
    nadv = 80 if ctx.tier == "thorough" else 36
    scripts = []
    hid = 0
    for s in schemas:
        for i in range(per):
            hid += 1
            scripts.append(gen_script(rng, ctx.tier, s, hid, nadv, "stale" if i % 2 == 0 else "create"))
    res = K.run_pair(scripts)
    j = K.judge(res, "tracks_v1", "v1", lambda s: PREFIX, stale_of, opkey, loose_ids=True, defined_only=K.const_query)
    cd = ceil_selftest(rng, 400 if ctx.tier == "thorough" else 120)
    j["divergences"] += cd
    j["ok"] = j["ok"] and not cd
    j["hist"]["ceil_selftest"] = {"points": 400 if ctx.tier == "thorough" else 120, "differ": len(cd)}
    return {"ok": j["ok"], "evaluations": j["evaluations"],
            "distinct_nontrivial": j["distinct"],
            "rule": "tracks 1.x: scripts of %d adversarial calls (slot accessors at -1..9 and INT_MIN/INT_MAX, 0..12 slots, "
                    "labels 0..300 bytes, every setter with the C01/C06 value classes incl. NaN / inf / 2^63 / rates in (0,1), "
                    "snapshots with absent or tiny rate under a waveform, update / create / snapshot / remove, is_valid / id / "
                    "copy) over tracks ta, tb and tx (removed in half of the scripts), %d schemas, model `step` of "
                    "Api/C15TracksV1.lean vs sanitizer harness; oracle: no `ub` line, stale handle answers; distinct = "
                    "distinct (schema, call line)" % (nadv, len(schemas)),
            "samples": [scripts[0][PREFIX][:200], scripts[-1][-1][:200]],
            "histograms": j["hist"], "divergences": j["divergences"][:10], "violations": j["violations"][:6]}


def replay(ctx, hdr, body):
    return K.replay([MODE], hdr, body, loose_ids=True)
