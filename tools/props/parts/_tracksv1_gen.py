"""Generators and text helpers for the schema-1.x track ties (C01_v1, C06_v1).
Snapshot text format = rd_snapshot / wr_snapshot of harness/djv_db.cpp."""
import struct

SCHEMAS = ["schema_1_6_0", "schema_1_7_1", "schema_1_9_1", "schema_1_11_1", "schema_1_13_0", "schema_1_13_1",
           "schema_1_13_2", "schema_1_15_0", "schema_1_17_0", "schema_1_18_0_desktop", "schema_1_18_0_os"]
QUICK_SCHEMAS = ["schema_1_6_0", "schema_1_15_0", "schema_1_18_0_os"]
UNIQUE_PATH_FROM = SCHEMAS.index("schema_1_11_1")

FIELDS = ["album", "artist", "average_loudness", "beatgrid", "bitrate", "bpm", "comment", "composer", "duration",
          "file_bytes", "genre", "hot_cues", "key", "last_played_at", "loops", "main_cue", "publisher", "rating",
          "relative_path", "sample_count", "sample_rate", "title", "track_number", "waveform", "year"]


def dbits(x: float) -> str:
    return "%016x" % struct.unpack(">Q", struct.pack(">d", x))[0]


NEG_ONE = dbits(-1.0)
D_CLASSES = {
    "pzero": "0000000000000000", "nzero": "8000000000000000", "neg1": NEG_ONE, "subnormal": "0000000000000001",
    "1e15": dbits(1e15), "ordinary": dbits(120.5), "big": dbits(1e300), "negbig": dbits(-1e300),
    "inf": "7ff0000000000000", "neg": dbits(-44100.0), "tiny": dbits(0.5), "one": dbits(1.0),
}
NAN = "7ff8000000000001"


def hexs(b: bytes) -> str:
    return b.hex() if b else "-"


def ostr(b):
    return "none" if b is None else "s" + hexs(b)


def oi(v):
    return "none" if v is None else str(v)


def od(v):
    return "none" if v is None else v


def color(rng):
    return " ".join(str(rng.randrange(256)) for _ in range(4))


def cue_txt(c):
    if c is None:
        return "none"
    return "some %s %s %s" % (hexs(c["label"]), c["off"], c["color"])


def loop_txt(l):
    if l is None:
        return "none"
    return "some %s %s %s %s" % (hexs(l["label"]), l["start"], l["end"], l["color"])


def grid_txt(g):
    return " ".join([str(len(g))] + ["%d %s" % (i, o) for (i, o) in g])


def snap_txt(s):
    """s: dict over FIELDS"""
    return " ".join([
        ostr(s["album"]), ostr(s["artist"]), od(s["average_loudness"]), grid_txt(s["beatgrid"]), oi(s["bitrate"]),
        od(s["bpm"]), ostr(s["comment"]), ostr(s["composer"]), oi(s["duration"]), oi(s["file_bytes"]),
        ostr(s["genre"]), " ".join([str(len(s["hot_cues"]))] + [cue_txt(c) for c in s["hot_cues"]]), oi(s["key"]),
        oi(s["last_played_at"]), " ".join([str(len(s["loops"]))] + [loop_txt(c) for c in s["loops"]]),
        od(s["main_cue"]), ostr(s["publisher"]), oi(s["rating"]), ostr(s["relative_path"]), oi(s["sample_count"]),
        od(s["sample_rate"]), ostr(s["title"]), oi(s["track_number"]), hexs(s["waveform"]), oi(s["year"])])


def minimal(path=b"a/b.mp3"):
    s = {f: None for f in FIELDS}
    s.update(beatgrid=[], hot_cues=[], loops=[], waveform=b"", relative_path=path)
    return s


# ---------------------------------------------------------------- value generators

def g_str(rng):
    c = rng.random()
    if c < 0.25:
        return None
    return rng.choice([
        b"", b"A", "é日本語".encode(), b"x" * 300, b"a;b/c.d", b"it's \"q\"", b"\xff\xfe", bytes(rng.randrange(1, 256) for _ in range(rng.randrange(1, 12))),
        b"Title %d" % rng.randrange(1000)])


def g_i32(rng):
    c = rng.random()
    if c < 0.2:
        return None
    return rng.choice([0, 1, -1, 2147483647, -2147483648, 100, 101, 320, 1999, rng.randrange(-2 ** 31, 2 ** 31)])


def g_rating(rng):
    return rng.choice([None, 0, 1, 50, 100, 101, 150, -1, -50, 2147483647, -2147483648])


def g_i64(rng, unit):
    c = rng.random()
    if c < 0.2:
        return None
    return rng.choice([0, 1, -1, unit - 1, unit, unit + 1, -unit + 1, -unit, -unit - 1, 185500 * (unit // 1000),
                       2 ** 63 - 1, -2 ** 63, 1700000000 * unit + 123456789 % unit,
                       rng.randrange(-2 ** 63, 2 ** 63), rng.randrange(0, 10 ** 7) * unit + rng.randrange(unit)])


def g_u64_as_i64(rng):
    """file_bytes travels as a signed decimal on the input side (cast to unsigned by the harness)."""
    return rng.choice([None, 0, 1, 1234, 2 ** 63 - 1, -2 ** 63, -1, rng.randrange(0, 2 ** 40)])


def g_double(rng, nan_ok=False):
    c = rng.random()
    if c < 0.2:
        return None
    if nan_ok and c < 0.22:
        return NAN
    if c < 0.6:
        return rng.choice(list(D_CLASSES.values()))
    return dbits(rng.choice([120.0, 128.5, 44100.0, 48000.0, 0.25, 1234.5, rng.uniform(-1e6, 1e6), rng.uniform(0, 300)]))


def g_label(rng):
    n = rng.choice([0, 1, 1, 2, 5, 5, 17, 255, 255, 256, 300])
    if n > 1 and rng.random() < 0.25:
        # arbitrary bytes: embedded NUL (a C-string copy stops there), 0xff, control characters
        return bytes(rng.choice(b"ab\x00\x00\xff\x01\n;/.Z") for _ in range(n))
    return bytes(rng.choice(b"abcXYZ 0123\xc3\xa9") for _ in range(n))


def g_off(rng):
    return rng.choice([NEG_ONE, NEG_ONE, D_CLASSES["pzero"], D_CLASSES["nzero"], dbits(1000.0), dbits(123456.75),
                       D_CLASSES["subnormal"], D_CLASSES["1e15"], dbits(rng.uniform(0, 1e7)), dbits(-2.0)])


def g_cue(rng, valid=False):
    if rng.random() < 0.4:
        return None
    lab = g_label(rng)
    off = g_off(rng)
    if valid:
        while not (1 <= len(lab) <= 255):
            lab = g_label(rng)
    return {"label": lab, "off": off, "color": color(rng)}


def g_loop(rng, valid=False):
    if rng.random() < 0.4:
        return None
    lab = g_label(rng)
    if valid:
        while not (1 <= len(lab) <= 255):
            lab = g_label(rng)
    return {"label": lab, "start": g_off(rng), "end": g_off(rng), "color": color(rng)}


def g_slots(rng, gen, valid=False):
    n = rng.choice([0, 0, 1, 2, 3, 7, 8, 8, 8, 9]) if not valid else rng.choice([0, 1, 3, 8, 8])
    return [gen(rng, valid) for _ in range(n)]


def g_grid(rng, tier="quick", valid=False):
    c = rng.random()
    if c < 0.3:
        return []
    if not valid and c < 0.4:
        return [(rng.choice([0, -4, 7]), dbits(rng.uniform(-100, 100)))]
    n = rng.choice([2, 2, 3, 5, 17]) if tier == "quick" else rng.choice([2, 3, 5, 17, 200, 2000])
    idx = rng.choice([-4, 0, 0, -2147483648, 100])
    off = rng.choice([-88200.0, 0.0, 0.0, 1234.5])
    g = []
    for _ in range(n):
        g.append((idx, dbits(off)))
        idx = min(idx + rng.choice([1, 4, 4, 64]), 2147483647)
        off += rng.choice([22050.0, 22050.0, 11025.5, 0.5])
    if not valid:
        m = rng.random()
        if m < 0.10:        # unsorted offsets
            i = rng.randrange(1, len(g)); g[i] = (g[i][0], g[i - 1][1])
        elif m < 0.18:      # unsorted / equal indices
            i = rng.randrange(1, len(g)); g[i] = (g[i - 1][0] - rng.choice([0, 1]), g[i][1])
        elif m < 0.24:      # index gap beyond int32
            g = [(-2147483648, g[0][1]), (2147483647, g[1][1])] + [(2147483647, o) for (_, o) in g[2:]][:0]
        elif m < 0.28:
            g = [(-2147483648, g[0][1]), (-1, g[1][1])]   # gap 2^31-1: largest legal
    return g


def g_waveform(rng, tier):
    n = rng.choice([0, 0, 0, 1, 2, 7, 1023, 1024, 1025] + ([5000] if tier != "quick" or rng.random() < 0.2 else [3]))
    if n == 0:
        return b""
    base = bytes(rng.randrange(256) for _ in range(min(n, 64) * 6))
    return (base * (n // 64 + 1))[:n * 6]


def g_rate(rng, nan_ok=False):
    c = rng.random()
    if c < 0.2:
        return None
    if nan_ok and c < 0.22:
        return NAN
    return rng.choice([dbits(44100.0), dbits(44100.0), dbits(48000.0), dbits(48000.5), D_CLASSES["pzero"], D_CLASSES["nzero"],
                       D_CLASSES["tiny"], dbits(0.999), D_CLASSES["one"], dbits(209.0), dbits(210.0), dbits(419.9),
                       D_CLASSES["neg"], D_CLASSES["big"], D_CLASSES["negbig"], D_CLASSES["subnormal"],
                       dbits(9.3e18), dbits(9223372036854775808.0), dbits(9223372036854774784.0), D_CLASSES["inf"],
                       dbits(-0.5)])


def g_count(rng):
    return rng.choice([None, None, 0, 1, 1000, 8000000, 8000000, 441000, 2 ** 63 - 1, 2 ** 63, 2 ** 64 - 1,
                       rng.randrange(1, 10 ** 9)])


def g_path(rng, k):
    return rng.choice([b"music/t%d.mp3" % k, b"t%d" % k, b"a.b/c%d" % k, b"/x%d." % k, b"d%d/.hidden" % k,
                       "dir/é%d.flac".encode() % k, b"%d.tar.gz" % k])


def g_snapshot(rng, k, tier="quick", nan_ok=False, valid=False):
    """One snapshot; `k` makes the path unique.  valid=True keeps to values every version must accept."""
    s = minimal(g_path(rng, k))
    for f in ("album", "artist", "comment", "composer", "genre", "publisher", "title"):
        s[f] = g_str(rng)
    s["average_loudness"] = g_double(rng, nan_ok)
    s["bpm"] = g_double(rng, nan_ok)
    s["main_cue"] = g_double(rng, nan_ok)
    s["bitrate"] = g_i32(rng)
    s["key"] = rng.choice([None, 0, 0, 1, 5, 23, 24, -1, 1000])
    s["track_number"] = g_i32(rng)
    s["year"] = g_i32(rng)
    s["rating"] = g_rating(rng)
    s["duration"] = g_i64(rng, 1000)
    s["last_played_at"] = g_i64(rng, 10 ** 9)
    s["file_bytes"] = g_u64_as_i64(rng)
    s["sample_count"] = g_count(rng)
    s["sample_rate"] = g_rate(rng, nan_ok)
    s["beatgrid"] = g_grid(rng, tier, valid)
    s["hot_cues"] = g_slots(rng, g_cue, valid)
    s["loops"] = g_slots(rng, g_loop, valid)
    s["waveform"] = g_waveform(rng, tier)
    if valid and s["waveform"]:
        s["sample_count"] = rng.choice([8000000, 441000, 1])
        s["sample_rate"] = rng.choice([dbits(44100.0), dbits(48000.0), dbits(0.5), D_CLASSES["big"]])
    if not valid and rng.random() < 0.03:
        s["relative_path"] = None
    return s


def light_snapshot(rng, k):
    """Mostly-absent snapshot with one or two populated fields (thin-slice shapes)."""
    s = minimal(g_path(rng, k))
    for f in rng.sample(["album", "artist", "comment", "composer", "genre", "publisher", "title"], 2):
        s[f] = g_str(rng)
    f = rng.choice(["bitrate", "track_number", "year", "rating", "duration", "last_played_at", "file_bytes", "key", "bpm"])
    s[f] = {"bitrate": g_i32, "track_number": g_i32, "year": g_i32, "rating": g_rating,
            "duration": lambda r: g_i64(r, 1000), "last_played_at": lambda r: g_i64(r, 10 ** 9),
            "file_bytes": g_u64_as_i64, "key": lambda r: r.choice([0, 1, 23]), "bpm": g_double}[f](rng)
    return s


def canon_ub(line: str) -> str:
    """Sanitizer kinds are compared as a class: any `ub …` is `ub`."""
    return "ub" if line.startswith("ub ") else line


def run_harness_robust(runner, scripts, watchdog=30):
    """runner.run_harness, except that a script in which the per-line wall-clock watchdog fired is run once more,
    alone and with a ten times longer watchdog, before its `ub nontermination` line is believed: on a loaded machine
    (the box is shared) a single fsync can outlast the watchdog.  A real hang times out again.
    -> (results, number of scripts retried)"""
    res = runner.run_harness(scripts, watchdog=watchdog)
    retried = 0
    for i, (out, reps) in enumerate(res):
        if any(o == "ub nontermination" for o in out):
            retried += 1
            res[i] = runner.run_harness_script(scripts[i], watchdog * 10)
    return res, retried
