"""Shared machinery of the crates-v2 work-package (C09 and the 2.x parts of C07 / C08 / C11).

Three executions of one op script:
  * the REAL library (harness, built from /repo's working tree, sanitizers on),
  * the Lean MODEL (driver mode `cratesv2`, Db/V2Crates.lean) — tie: line-by-line equality
    of results, of the full structural observation (`v2.obs`) and of the raw modelled columns
    (`v2.raw`) after every step;
  * the Lean SPEC oracle (driver mode `cratesv2spec`) fed with the real library's answers —
    Spec.Forest / Spec.Members / Spec.Ordered / wfRaw judged on the implementation, not on the Model.
"""
import random, re
from common import *
import runner

SCHEMAS = ["schema_2_18_0", "schema_2_20_1", "schema_2_20_2", "schema_2_20_3",
           "schema_2_21_0", "schema_2_21_1", "schema_2_21_2"]
MODE = "#mode cratesv2"


def translate_ddl():
    """Regenerate lean/EngineModel/Gen/V2CrateDdl.lean (see tools/tr_v2ddl.py)."""
    import tr_v2ddl
    return tr_v2ddl.main()


def hx(s):
    b = s if isinstance(s, bytes) else s.encode()
    return b.hex() if b else "-"


NAMES_VALID = ["a", "b", "c", "d", "Rock", "déjà vu", "x.y/z", "n" * 300]
NAMES_INVALID = ["", "x;y", ";"]
PROBES = [hx("a"), hx("b")]


def schemas_for(ctx):
    if ctx.tier == "thorough":
        return list(SCHEMAS)
    mid = SCHEMAS[1 + (ctx.seed % 5)]
    return [SCHEMAS[0], mid, SCHEMAS[-1]]


def wrap(schema, ops, obs=True, raw="v2.raw", storage="mem"):
    """Full script: mode line, library creation, and after every op the observation + raw dump."""
    # `+alias` (harness only, decided by the script's own content): two handle objects per crate / track variable
    import zlib
    alias = " +alias" if zlib.crc32("\n".join(ops).encode()) & 1 else ""
    lines = [MODE, "v2.create %s %s%s" % (schema, storage, alias)]
    for op in ops:
        lines.append(op)
        if op.startswith(("crate.q", "db.q", "pe.list", "pl.list")):
            continue
        if obs:
            lines.append("v2.obs " + " ".join(PROBES))
        if raw:
            lines.append(raw)
    return lines


# ------------------------------------------------------------------ running and comparing
def coarse(s):
    """Exception classes are not part of any property: `throw <anything>` compares equal."""
    if s.startswith("throw "):
        return "throw"
    if s.startswith("bad-op"):
        return "bad-op"      # a handle whose creation was rejected: no-op on every side
    if s.startswith("ub "):
        return "ub"          # which sanitizer report fires is not part of any property
    return s


def run_all(scripts, watchdog=20):
    """-> list of dict(lines, impl, model, spec) ; spec = oracle verdict per line."""
    hres = runner.run_harness(scripts, watchdog=watchdog, stateless=False)
    mres = runner.run_model(scripts)
    spec_scripts = []
    cut = []
    for lines, (hout, _) in zip(scripts, hres):
        # the harness process is gone after an undefined-behaviour abort: the script ends there
        n = len(lines)
        for i, h in enumerate(hout):
            if h.startswith("ub "):
                n = i + 1
                break
        cut.append(n)
        sp = ["#mode cratesv2spec"]
        for l, h in zip(lines[1:n], hout[1:n]):
            sp.append("%s => %s" % (l, h))
        spec_scripts.append(sp)
    sres = runner.run_model(spec_scripts)
    out = []
    for lines, (hout, rep), mout, sout, n in zip(scripts, hres, mres, sres, cut):
        out.append({"lines": lines[:n], "impl": hout[:n], "model": mout[:n], "spec": sout[:n], "reports": rep})
    return out


def judge(results, pid, part):
    """-> divergences (model != impl), violations (impl contradicts the Spec), stats"""
    divergences, violations = [], []
    evals = 0
    states = set()
    hist = {"ok": 0, "throw": 0, "ub": 0, "other": 0}
    ophist = {}
    for r in results:
        lines, impl, model, spec = r["lines"], r["impl"], r["model"], r["spec"]
        first_div = None
        for i, l in enumerate(lines):
            if l.startswith("#"):
                continue
            evals += 1
            h, m = impl[i], model[i]
            if l.startswith("v2.raw"):
                states.add(h)
            elif not l.startswith("v2."):
                k = l.split()[0]
                o = h.split()[0] if h else "other"
                o = o if o in hist else "other"
                hist[o] += 1
                ophist[k] = ophist.get(k, 0) + 1
            if coarse(h) != coarse(m) and first_div is None:
                first_div = i
        if first_div is not None:
            i = first_div
            divergences.append({"input": " ; ".join(lines[1:i + 1])[-1500:], "impl": impl[i][:400], "model": model[i][:400]})
        for i, s in enumerate(spec):
            if s.startswith("VIOLATION"):
                body = list(lines[:i + 1])
                violations.append({
                    "tag": "oracle_" + part, "signature": None,
                    "header": {"kind": "script", "what": s[len("VIOLATION "):][:400], "part": part},
                    "body": body + ["impl(last): " + impl[i][:600], "model(last): " + model[i][:600]]})
                break
            if not s.startswith(("ok", "skip")):
                # the oracle itself could not run: count as a divergence of the tie, not as a verdict
                divergences.append({"input": "spec oracle line %d: %s" % (i, lines[i][:200]), "impl": impl[i][:200], "model": s[:200]})
                break
    return divergences, violations, {"evaluations": evals, "states": states, "outcomes": hist, "ops": ophist}


def shrink_violation(v, part):
    """Delta-debug a violating script (drop ops while the oracle still objects)."""
    body = [l for l in v["body"] if not l.startswith(("impl(", "model("))]
    if len(body) < 3:
        return v
    head, ops = body[:2], [l for l in body[2:] if not l.startswith("v2.")]
    schema = head[1].split()[1]
    has_obs = any(l.startswith("v2.obs") for l in body)
    raws = [l for l in body if l.startswith("v2.raw")]
    raw_line = raws[0] if raws else None
    last_is_raw = body[-1].startswith("v2.raw")

    def bad(cand):
        res = run_all([wrap(schema, cand, obs=has_obs, raw=raw_line)])
        _, viol, _ = judge(res, "", part)
        return viol[0] if viol else None
    cur = ops
    best = None
    changed = True
    rounds = 0
    while changed and rounds < 6 and len(cur) > 1:
        changed = False
        rounds += 1
        for i in range(len(cur) - 1, -1, -1):
            cand = cur[:i] + cur[i + 1:]
            if not cand:
                continue
            b = bad(cand)
            if b:
                cur, best, changed = cand, b, True
    return best or v


SIG_NONPOSITIVE = {"family": "v2", "call": "playlist_entity_table::remove",
                   "input": "entry with trackId <= 0 (schema delete trigger is declared WHEN OLD.trackId > 0)"}


def sign(v):
    """Attach the signature of the one recorded finding: a table-level history that adds an entry with a
    non-positive track id."""
    for l in v["body"]:
        t = l.split()
        if len(t) == 5 and t[0] == "pe.add" and int(t[2]) <= 0:
            v["signature"] = SIG_NONPOSITIVE
    return v


def finish(ctx, part, pid, results, rule, samples, extra_hist=None, exhaustive=None):
    div, viol, st = judge(results, pid, part)
    viol = [sign(v) for v in viol]
    signed = [v for v in viol if v["signature"] is not None][:1]
    viol = [sign(shrink_violation(v, part)) for v in [v for v in viol if v["signature"] is None][:3]] + signed
    hist = {"outcomes": st["outcomes"], "ops": st["ops"]}
    if extra_hist:
        hist.update(extra_hist)
    out = {"ok": not div and not [v for v in viol if v["signature"] is None], "evaluations": st["evaluations"], "distinct_nontrivial": len(st["states"]),
           "rule": rule + "; non-trivial = distinct raw table states (Playlist + PlaylistEntity + Track rows) reached on the real library",
           "samples": samples, "histograms": hist, "divergences": div[:20], "violations": viol}
    if exhaustive is not None:
        out["exhaustive"] = exhaustive
    return out


def replay(ctx, hdr, body):
    lines = [l for l in body if not l.startswith(("impl(", "model("))]
    if not lines or lines[0] != MODE:
        return None
    res = run_all([lines])[0]
    ok = True
    text = []
    for l, h, m, s in zip(res["lines"], res["impl"], res["model"], res["spec"]):
        flag = ""
        if coarse(h) != coarse(m):
            flag += "   <-- model differs"
            ok = False
        if s.startswith("VIOLATION"):
            flag += "   <-- " + s
            ok = False
        text.append("%s\n   impl:  %s\n   model: %s%s" % (l[:300], h[:600], m[:600], flag))
    text.append("recorded verdict: %s" % hdr.get("what", "(none)"))
    return ok, "\n".join(text)


# ------------------------------------------------------------------ generators
class Gen:
    """Random histories over crate handles c1.. and track handles t1.. (handles of removed things are kept)."""

    def __init__(self, rng, max_crates=12, max_tracks=8):
        self.rng = rng
        self.crates = []      # handle names (all ever created, attempts included)
        self.tracks = []
        self.nc = 0
        self.nt = 0
        self.max_crates, self.max_tracks = max_crates, max_tracks
        self.ops = []

    def name(self, p_invalid=0.08):
        r = self.rng
        if r.random() < p_invalid:
            return r.choice(NAMES_INVALID)
        return r.choice(NAMES_VALID[:4] if r.random() < 0.7 else NAMES_VALID)

    def newc(self):
        self.nc += 1
        v = "c%d" % self.nc
        self.crates.append(v)
        return v

    def cname(self):
        """name for a creation: mostly fresh (so that the handle gets bound), sometimes a common / invalid one"""
        r = self.rng
        k = r.random()
        if k < 0.55:
            return "n%d" % self.nc
        if k < 0.62:
            self.crates.pop()          # certainly rejected: do not use the handle later
            return r.choice(NAMES_INVALID)
        return r.choice(NAMES_VALID[:4] if r.random() < 0.7 else NAMES_VALID)

    def anyc(self):
        return self.rng.choice(self.crates)

    def create(self):
        r = self.rng
        v = self.newc()
        others = self.crates[:-1]
        k = r.random()
        nm = hx(self.cname())
        if not others or k < 0.25:
            self.ops.append("mkroot %s %s" % (v, nm))
        elif k < 0.40:
            self.ops.append("mkroot_after %s %s %s" % (v, nm, r.choice(others)))
        elif k < 0.75:
            self.ops.append("mksub %s %s %s" % (v, r.choice(others), nm))
        else:
            self.ops.append("mksub_after %s %s %s %s" % (v, r.choice(others), nm, r.choice(others)))

    def forest_op(self):
        r = self.rng
        if not self.crates:
            v = self.newc()
            self.ops.append("mkroot %s %s" % (v, hx("n%d" % self.nc)))
            return
        if (len(self.crates) < self.max_crates and r.random() < 0.45):
            return self.create()
        k = r.random()
        if k < 0.2:
            self.ops.append("rename %s %s" % (self.anyc(), hx(self.name())))
        elif k < 0.65:
            self.ops.append("setparent %s %s" % (self.anyc(), r.choice(self.crates + ["-", "-"])))
        elif k < 0.85:
            self.ops.append("rmcrate %s" % self.anyc())
        else:
            q = r.choice(["name", "parent", "children", "descendants", "valid", "tracks", "id"])
            self.ops.append("crate.q %s %s" % (self.anyc(), q))

    def mktrack(self):
        self.nt += 1
        v = "t%d" % self.nt
        self.tracks.append(v)
        self.ops.append("v2.mktrack %s %s" % (v, hx("music/%s.mp3" % v)))

    def member_op(self):
        r = self.rng
        if not self.tracks or (len(self.tracks) < self.max_tracks and r.random() < 0.2):
            return self.mktrack()
        if not self.crates:
            return self.create()
        k = r.random()
        if k < 0.38:
            self.ops.append("addtrack %s %s" % (self.anyc(), r.choice(self.tracks)))
        elif k < 0.45:
            # other software adds an entry for a track of ANOTHER database with the same numeric id
            self.ops.append("addforeign %s %s %d" % (self.anyc(), r.choice(self.tracks), r.choice([1, 1, 2])))
        elif k < 0.5:
            self.ops.append("addtrackid %s %d" % (self.anyc(), r.choice([0, -1, 99, 1, 2, 3, 7])))
        elif k < 0.75:
            self.ops.append("rmtrackfrom %s %s" % (self.anyc(), r.choice(self.tracks)))
        elif k < 0.83:
            self.ops.append("cleartracks %s" % self.anyc())
        elif k < 0.93:
            self.ops.append("rmtrack %s" % r.choice(self.tracks))
        else:
            self.ops.append("crate.q %s tracks" % self.anyc())

    def padding(self):
        """create-and-remove padding so that crate ids, track ids and entity-row ids all drift apart"""
        r = self.rng
        for _ in range(r.randrange(1, 4)):
            k = r.random()
            if k < 0.4:
                v = self.newc()
                self.ops.append("mkroot %s %s" % (v, hx("pad%d" % self.nc)))
                self.ops.append("rmcrate %s" % v)
            elif k < 0.7:
                self.mktrack()
                self.ops.append("rmtrack %s" % self.tracks[-1])
            elif self.crates and self.tracks:
                c, t = self.anyc(), r.choice(self.tracks)
                self.ops.append("addtrack %s %s" % (c, t))
                self.ops.append("rmtrackfrom %s %s" % (c, t))


def gen_forest_history(rng, nops, max_crates=12):
    g = Gen(rng, max_crates=max_crates)
    if rng.random() < 0.4:
        # deep chain first
        depth = rng.randrange(3, 8)
        prev = None
        for _ in range(depth):
            v = g.newc()
            g.ops.append(("mkroot %s %s" % (v, hx(g.name(0)))) if prev is None else ("mksub %s %s %s" % (v, prev, hx(g.name(0)))))
            prev = v
    while len(g.ops) < nops:
        g.forest_op()
    return g.ops


def gen_member_history(rng, nops):
    g = Gen(rng, max_crates=6, max_tracks=8)
    g.padding()
    for _ in range(rng.randrange(3, 5)):
        g.create()
    for _ in range(rng.randrange(4, 6)):
        g.mktrack()
        if rng.random() < 0.5:
            g.padding()
    while len(g.ops) < nops:
        k = rng.random()
        if k < 0.72:
            g.member_op()
        elif k < 0.82:
            g.padding()
        else:
            g.forest_op()
    return g.ops


def gen_ordered_history(rng, nops):
    """Sibling lists of 3..6 crates, then inserts after / moves / removals at first, middle and last
    positions; entry lists likewise."""
    g = Gen(rng, max_crates=14, max_tracks=8)
    r = rng
    parents = []
    for _ in range(r.randrange(1, 3)):
        p = g.newc()
        g.ops.append("mkroot %s %s" % (p, hx("P%d" % g.nc)))
        parents.append(p)
    groups = {None: list(parents)}
    for p in parents:
        groups[p] = []
        for _ in range(r.randrange(3, 6)):
            v = g.newc()
            g.ops.append("mksub %s %s %s" % (v, p, hx("k%d" % g.nc)))
            groups[p].append(v)
    for _ in range(r.randrange(3, 7)):
        g.mktrack()

    def pos(lst):
        c = r.random()
        if c < 0.34:
            return lst[0]
        if c < 0.67:
            return lst[-1]
        return lst[len(lst) // 2]
    while len(g.ops) < nops:
        p = r.choice(list(groups.keys()))
        sib = groups[p]
        k = r.random()
        if k < 0.22 and len(g.crates) < g.max_crates:
            v = g.newc()
            if sib and r.random() < 0.8:
                a = pos(sib)
                if p is None:
                    g.ops.append("mkroot_after %s %s %s" % (v, hx("k%d" % g.nc), a))
                else:
                    g.ops.append("mksub_after %s %s %s %s" % (v, p, hx("k%d" % g.nc), a))
                sib.insert(sib.index(a) + 1, v)
            else:
                if p is None:
                    g.ops.append("mkroot %s %s" % (v, hx("k%d" % g.nc)))
                else:
                    g.ops.append("mksub %s %s %s" % (v, p, hx("k%d" % g.nc)))
                sib.append(v)
            groups.setdefault(v, [])
        elif k < 0.45 and sib:
            c = pos(sib)
            q = r.choice([x for x in groups.keys() if x != c])
            g.ops.append("setparent %s %s" % (c, q if q is not None else "-"))
            # (bookkeeping is approximate: a rejected move leaves the lists unchanged on the real side; positions
            #  are only used to pick interesting candidates)
            if q != p:
                sib.remove(c)
                groups[q].append(c)
        elif k < 0.55 and sib:
            c = pos(sib)
            g.ops.append("rename %s %s" % (c, hx("r%d" % len(g.ops))))
        elif k < 0.65 and sib and p is not None:
            c = pos(sib)
            g.ops.append("rmcrate %s" % c)
            sib.remove(c)
            groups.pop(c, None)
        elif k < 0.85 and g.tracks and g.crates:
            c = r.choice(g.crates)
            g.ops.append("addtrack %s %s" % (c, r.choice(g.tracks)))
        elif k < 0.95 and g.tracks and g.crates:
            g.ops.append("rmtrackfrom %s %s" % (r.choice(g.crates), r.choice(g.tracks)))
        elif g.crates:
            g.ops.append(r.choice(["cleartracks %s", "crate.q %s children", "crate.q %s tracks"]) % r.choice(g.crates))
    return g.ops


def gen_table_history(rng, nops, bad_track_ids=False):
    """Table-level playlist_entity_table histories (add_back / remove / clear / get_for_list) on lists 1..3.
    Entries come from three databases (uuid tag 0 = the library's own, 1 and 2 = foreign) with deliberately
    colliding track ids: an entry's identity is (list, database uuid, track id)."""
    ops = ["mkroot c1 %s" % hx("L1"), "mkroot c2 %s" % hx("L2")]
    ents = {1: [], 2: [], 3: []}
    nid = 0
    r = rng
    while len(ops) < nops:
        l = r.choice([1, 1, 2, 3])
        k = r.random()
        if k < 0.5:
            t = r.choice([1, 2, 3, 4, 5, 6, 7, 8, 40]) if not bad_track_ids else r.choice([0, -1, 1, 2, 3])
            u = r.choice([0, 0, 0, 1, 1, 2])
            if ents[l] and r.random() < 0.35:
                # same numeric track id as an entry already in the list, usually from another database
                t = r.choice(ents[l])[1]
            dup = any(x[1] == t and x[2] == u for x in ents[l])
            flag = 1 if r.random() < 0.3 else 0
            ops.append("pe.add %d %d %d %d" % (l, t, u, flag))
            if not dup:
                nid += 1
                ents[l].append((nid, t, u))
        elif k < 0.8 and ents[l]:
            c = r.random()
            e = ents[l][0] if c < 0.34 else ents[l][-1] if c < 0.67 else ents[l][len(ents[l]) // 2]
            ops.append("pe.remove %d %d" % (l, e[0]))
            ents[l].remove(e)
        elif k < 0.85:
            ops.append("pe.remove %d %d" % (l, r.choice([0, 99, nid + 5])))
        elif k < 0.9:
            ops.append("pe.clear %d" % l)
            ents[l] = []
        ops.append("pe.list %d" % l)
    return ops


# ------------------------------------------------------------------ bounded-exhaustive exploration
EX_NAMES = ["a", "b", "", "x;y"]


def explore_alphabet(n, max_crates):
    hs = ["c%d" % i for i in range(1, n + 1)]
    ops = []
    new = "c%d" % (n + 1)
    if n < max_crates:
        for nm in EX_NAMES:
            ops.append("mkroot %s %s" % (new, hx(nm)))
        for h in hs:
            for nm in EX_NAMES:
                ops.append("mksub %s %s %s" % (new, h, hx(nm)))
            for nm in EX_NAMES[:2]:
                ops.append("mkroot_after %s %s %s" % (new, hx(nm), h))
            for a in hs:
                ops.append("mksub_after %s %s %s %s" % (new, h, hx("a"), a))
    for h in hs:
        for nm in EX_NAMES:
            ops.append("rename %s %s" % (h, hx(nm)))
        ops.append("setparent %s -" % h)
        for q in hs:
            ops.append("setparent %s %s" % (h, q))
        ops.append("rmcrate %s" % h)
    return ops


def explore(depth, max_crates):
    """Breadth-first search over distinct MODEL states (identity = raw Playlist rows + counter, which also fixes the
    set of handles c1..c<seq>).  Returns the list of edges (shortest path to the state + one op)."""
    frontier = {"": []}          # state key -> path
    seen = {"": []}
    edges = []
    nseq = {"": 0}
    for d in range(depth):
        cand = []
        for key, path in frontier.items():
            for op in explore_alphabet(nseq[key], max_crates):
                cand.append(path + [op])
        edges += cand
        if d == depth - 1:
            break
        scripts = []
        per = max(1, len(cand) // (NCPU * 2) + 1)
        for i in range(0, len(cand), per):
            lines = [MODE]
            for c in cand[i:i + per]:
                lines.append("v2.create schema_2_18_0 mem")
                lines += c
                lines.append("v2.raw")
            scripts.append(lines)
        outs = runner.run_model(scripts)
        nxt = {}
        j = 0
        for lines, out in zip(scripts, outs):
            for i, l in enumerate(lines):
                if l == "v2.raw":
                    key = out[i]
                    c = cand[j]
                    j += 1
                    if key not in seen:
                        seen[key] = c
                        nxt[key] = c
                        m = re.search(r"seq\((\d+),", key)
                        nseq[key] = int(m.group(1)) if m else 0
        frontier = nxt
    return edges, len(seen)
