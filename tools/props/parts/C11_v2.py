"""C11, schema 2.x part — the stored database stays a well-formed Engine library (crate tables)."""
import random
from common import *
import runner
from props.parts import cratesv2 as cv

LEAN_MODULES = ["Properties.C11V2", "Properties.C09Schema"]
TRANSLATORS = {"v2ddl": cv.translate_ddl}
THEOREMS = ["EngineModel.Properties.C11V2." + t for t in [
    "C11V2_step_preserves",
    "C11V2_inv_wfRaw",
    "C11V2_reachable_wfRaw",
    "C11V2_reachable_structure",
    "C11V2_wfRaw_gives_invariants",
    "C11V2_wellformed_stays_wellformed",
    "C11V2_reachable_wfChains_partial",
    "C11V2_chains_counterexample",
]] + ["EngineModel.Properties.C09.C09_crate_ddl_same_in_all_2x_schemas"]
ASSUMPTIONS = [
    "2.x: C11's per-track derived columns (filename / fileType / origin ids) are outside this part (track work-package); this "
    "part covers the Playlist / PlaylistEntity chains, parent and membership references and the AUTOINCREMENT counters",
]
MANIFEST_TEXT = ("Schema 2.x (crate tables): Lean theorem C11V2_reachable_wfRaw — every state reachable through the modelled crate / membership API satisfies the "
                 "executable predicate wfRaw (sibling and entry chains are single acyclic lists covering all rows, parents and "
                 "memberships refer to existing rows, the parent relation is acyclic, ids within the AUTOINCREMENT counters); the "
                 "same predicate is evaluated on the raw rows of the real database after every step, together with PRAGMA "
                 "integrity_check / foreign_key_check and verify().")
replay = cv.replay

INTEGRITY = "rawq " + cv.hx("PRAGMA integrity_check")
FKCHECK = "rawq " + cv.hx("PRAGMA foreign_key_check")


def tie(ctx):
    rng = random.Random(ctx.seed * 4001 + 11)
    schemas = cv.schemas_for(ctx)
    n = 20 if ctx.tier == "quick" else 150
    scripts = []
    for s in schemas:
        for i in range(n):
            g = [cv.gen_forest_history, cv.gen_member_history, cv.gen_ordered_history][i % 3]
            scripts.append(cv.wrap(s, g(rng, rng.choice([30, 60])), storage="disk" if i % 4 == 0 else "mem"))
    results = cv.run_all(scripts)
    # supporting run-time checks on the real files (not part of the model): SQLite's own checks and verify()
    tail = []
    for s in schemas:
        for i in range(4):
            ops = cv.gen_member_history(rng, 50) + cv.gen_forest_history(rng, 20)[:0]
            lines = cv.wrap(s, ops, obs=False, raw=None, storage="disk" if i % 2 else "mem") + [INTEGRITY, FKCHECK, "db.q verify"]
            tail.append(lines)
    hres = runner.run_harness(tail, watchdog=20)
    extra_viol = []
    for lines, (hout, _) in zip(tail, hres):
        got = hout[-3:]
        want = ["ok (s6f6b)", "ok ()", "ok"]
        if got != want:
            extra_viol.append({"tag": "oracle_C11_v2_pragma", "signature": None,
                               "header": {"kind": "script", "what": "integrity_check / foreign_key_check / verify() = %s" % got},
                               "body": lines + ["impl(last): " + " | ".join(got)]})
    out = cv.finish(ctx, "C11_v2", "C11", results,
                    "2.x: seeded forest / membership / ordered histories on %s (one in four on disk); after EVERY operation the raw "
                    "Playlist / PlaylistEntity / Track rows and AUTOINCREMENT counters read through the C API equal the Model's "
                    "raw state and the Lean predicate wfRaw is evaluated on the real rows; at the end of further histories "
                    "PRAGMA integrity_check, PRAGMA foreign_key_check and verify() are run on the real database"
                    % ", ".join(schemas),
                    [" ; ".join(scripts[0][1:10])[:300]],
                    extra_hist={"schemas": schemas, "scripts": len(scripts), "pragma_scripts": len(tail)})
    out["violations"] += extra_viol[:2]
    out["ok"] = out["ok"] and not extra_viol
    out["evaluations"] += 3 * len(tail)
    return out
