"""C15 (part: adversarial-call search) — No public call has undefined behaviour, whatever its arguments.

Tie / failing-input search: adversarial calls of every public operation on
reachable states, on the sanitizer harness.  The direct oracle is the property
itself: every outcome must be `ok` or `throw <class derived from std::exception>`
— never `ub …` (sanitizer / libstdc++ assertion abort, watchdog, foreign throw).
"""
import random
from common import *
import runner
import gen_lib as G

LEAN_MODULES = []
THEOREMS = []
STATELESS = False
ASSUMPTIONS = []
TRUSTED_EXTRA = []

FIELDS_OPTSTR = ["album", "artist", "comment", "composer", "genre", "publisher", "title"]
FIELDS_OPTINT = ["bitrate", "rating", "track_number", "year"]


def prefix(rng, schema):
    """A small reachable state: crates a/b(sub of a)/c(sub of b)/d(root), tracks t1..t3."""
    L = ["create %s mem" % schema,
         "mkroot a 41", "mksub b a 42", "mksub c b 43", "mkroot d 44",
         "mktrack t1 " + G.snapshot(rng),
         "mktrack t2 " + G.snapshot(rng, minimal=True),
         "mktrack t3 " + G.snapshot(rng),
         "addtrack a t1", "addtrack a t2", "addtrack b t2", "addtrack d t3"]
    L += ["mktrack tx " + G.snapshot(rng, minimal=True), "rmtrack tx"]
    L += ["mkroot x 58", "rmcrate x"]
    return L


def adversarial(rng):
    """One adversarial call (a line).  Handles: crates a b c d (x removed), tracks t1 t2 t3 (tx removed)."""
    t = rng.choice(["t1", "t2", "t3", "t1", "t3", "tx"])
    c = rng.choice(["a", "b", "c", "d", "x"])
    kind = rng.randrange(24)
    i = rng.choice([-1, 0, 1, 7, 8, 9, 2 ** 31 - 1, -2 ** 31])
    if kind == 0:
        return "get %s hot_cue_at %d" % (t, i)
    if kind == 1:
        return "get %s loop_at %d" % (t, i)
    if kind == 2:
        return "set %s hot_cue_at %d %s" % (t, i, G.optcue(rng))
    if kind == 3:
        return "set %s loop_at %d %s" % (t, i, G.optloop(rng))
    if kind == 4:
        n = rng.choice([0, 1, 7, 8, 9, 12])
        return "set %s hot_cues %d %s" % (t, n, " ".join(G.optcue(rng) for _ in range(n)))
    if kind == 5:
        n = rng.choice([0, 1, 7, 8, 9, 12])
        return "set %s loops %d %s" % (t, n, " ".join(G.optloop(rng) for _ in range(n)))
    if kind == 6:
        return "set %s waveform %s" % (t, G.waveform(rng, rng.choice([0, 1, 5, 1024, 3000])))
    if kind == 7:
        v = rng.choice(["none", G.dbits(0.5), G.dbits(0.0), G.dbits(-1.0), G.dbits(1e15), G.dbits(44100.0),
                        G.dbits(209.0), G.dbits(5e-324), G.dbits(-44100.0)])
        return "set %s sample_rate %s" % (t, v)
    if kind == 8:
        v = rng.choice(["none", "0", "1", "44100", str(2 ** 62), str(2 ** 63 - 1), str(2 ** 64 - 1)])
        return "set %s sample_count %s" % (t, v)
    if kind == 9:
        return "set %s beatgrid %s" % (t, G.grid(rng))
    if kind == 10:
        return "set %s %s %s" % (t, rng.choice(FIELDS_OPTSTR), G.ostr(rng.choice([None, b"", G.label(rng, "300"), G.label(rng, "utf8")])))
    if kind == 11:
        return "set %s %s %s" % (t, rng.choice(FIELDS_OPTINT), rng.choice(["none", "0", "-1", "101", str(2 ** 31 - 1), str(-2 ** 31)]))
    if kind == 12:
        return "set %s %s %s" % (t, rng.choice(["main_cue", "average_loudness", "bpm"]),
                                 rng.choice(["none", G.dbits(0.0), G.dbits(-0.0), G.dbits(-1.0), G.dbits(1e15), G.dbits(5e-324)]))
    if kind == 13:
        return "set %s relative_path %s" % (t, G.hexs(rng.choice([b"", b"noext", b".hidden", b"a/b/c.d.e", b"x." + b"y" * 300, b"/"])))
    if kind == 14:
        return "set %s key %s" % (t, rng.choice(["none", "0", "23", "24", "-1", "1000"]))
    if kind == 15:
        return "set %s duration %s" % (t, rng.choice(["none", "0", "-1", "999", str(2 ** 62)]))
    if kind == 16:
        return "set %s last_played_at %s" % (t, rng.choice(["none", "0", "-1000000000", "999999999", str(2 ** 62)]))
    if kind == 17:
        return rng.choice(["snap %s" % t, "get %s waveform" % t, "get %s beatgrid" % t, "get %s hot_cues" % t,
                           "get %s loops" % t, "get %s containing_crates" % t, "get %s copy" % t, "get %s id" % t,
                           "get %s valid" % t, "get %s filename" % t, "get %s file_extension" % t,
                           "get %s relative_path" % t, "get %s duration" % t])
    if kind == 18:
        return rng.choice(["crate.q %s name" % c, "crate.q %s parent" % c, "crate.q %s children" % c,
                           "crate.q %s descendants" % c, "crate.q %s tracks" % c, "crate.q %s copy" % c,
                           "crate.q %s id" % c, "crate.q %s valid" % c, "crate.q %s sub_by_name 42" % c])
    if kind == 19:
        p = rng.choice(["-", "a", "b", "c", "d", "x", c])
        return "setparent %s %s" % (c, p)
    if kind == 20:
        nm = rng.choice([b"", b";", b"a;b", b"B", G.label(rng, "300"), G.label(rng, "utf8")])
        return rng.choice(["rename %s %s" % (c, G.hexs(nm)), "mksub n %s %s" % (c, G.hexs(nm)),
                           "mkroot n %s" % G.hexs(nm), "mksub_after n %s %s %s" % (c, G.hexs(nm or b"q"), rng.choice("abcdx")),
                           "mkroot_after n %s %s" % (G.hexs(nm or b"q"), rng.choice("abcdx"))])
    if kind == 21:
        return rng.choice(["addtrackid %s %d" % (c, rng.choice([0, -1, 999, 2 ** 40])), "addtrack %s %s" % (c, t),
                           "rmtrackfrom %s %s" % (c, t), "cleartracks %s" % c, "rmcrate %s" % c, "rmtrack %s" % t])
    if kind == 22:
        return rng.choice(["db.q crate_by_id %d" % rng.choice([0, -1, 999, 2 ** 62]),
                           "db.q track_by_id %d" % rng.choice([0, -1, 999, 2 ** 62]),
                           "db.q crates_by_name %s" % G.hexs(rng.choice([b"", b"A", b"zz"])),
                           "db.q root_by_name %s" % G.hexs(rng.choice([b"", b"A", b"D"])),
                           "db.q tracks_by_path %s" % G.hexs(rng.choice([b"", b"x"])), "db.q verify", "obs",
                           "db.q crates", "db.q root_crates", "db.q tracks"])
    # snapshots with adversarial content through create / update
    over = {}
    r = rng.randrange(8)
    if r == 0:
        over = {"waveform": G.waveform(rng, 64), "sample_count": "none", "sample_rate": "none"}
    elif r == 1:
        over = {"waveform": G.waveform(rng, 64), "sample_count": "100000", "sample_rate": G.dbits(0.5)}
    elif r == 2:
        n = rng.choice([9, 12])
        over = {"hot_cues": "%d %s" % (n, " ".join(G.optcue(rng, True) for _ in range(n)))}
    elif r == 3:
        n = rng.choice([9, 12])
        over = {"loops": "%d %s" % (n, " ".join(G.optloop(rng, True) for _ in range(n)))}
    elif r == 4:
        over = {"hot_cues": "2 %s %s" % (G.optcue(rng, True, "300"), G.optcue(rng, True, "empty"))}
    elif r == 5:
        over = {"beatgrid": G.grid(rng, rng.choice(["one", "unsorted"])), "sample_count": "44100", "sample_rate": G.dbits(44100.0)}
    elif r == 6:
        over = {"relative_path": rng.choice(["none", "s-", G.ostr(b"noext")])}
    elif r == 7:
        over = {"sample_count": str(2 ** 63), "sample_rate": G.dbits(1e15), "duration": str(2 ** 62), "rating": "1000",
                "beatgrid": G.grid(rng, "two")}
    s = G.snapshot(rng, **over)
    return rng.choice(["mktrack n1 " + s, "update %s %s" % (t, s)])


def run_scripts(scripts):
    """Run each script; when a line crashes, record it and re-run the script
    without that line so that the following calls are still exercised."""
    results = []   # (script, line, outcome)
    pending = list(scripts)
    rounds = 0
    while pending and rounds < 6:
        rounds += 1
        outs = runner.run_harness(pending, watchdog=10, stateless=False)
        nxt = []
        for sc, (o, reps) in zip(pending, outs):
            crashed_at = None
            for k, (l, r) in enumerate(zip(sc, o)):
                if r == "skipped-after-crash":
                    break
                results.append((sc, k, l, r))
                if r.startswith("ub"):
                    crashed_at = k
                    break
            if crashed_at is not None and crashed_at + 1 < len(sc):
                nxt.append(sc[:crashed_at] + sc[crashed_at + 1:])
        # results of re-runs duplicate the prefix lines; dedupe later by (tuple(prefix), line)
        pending = nxt
    return results


def tie(ctx):
    rng = random.Random(ctx.seed * 7919 + 15)
    schemas = G.SCHEMAS if ctx.tier == "thorough" else ["schema_1_6_0", "schema_1_9_1", "schema_1_18_0_os",
                                                         "schema_2_18_0", "schema_2_21_2"]
    nscripts = 40 if ctx.tier == "thorough" else 12
    nadv = 25
    scripts = []
    for s in schemas:
        for _ in range(nscripts):
            pre = prefix(rng, s)
            scripts.append(pre + [adversarial(rng) for _ in range(nadv)])
    res = run_scripts(scripts)
    seen, hist, violations = set(), {}, []
    evals = 0
    ubs = {}
    for sc, k, l, r in res:
        key = (sc[0], l)
        if k < 16 or key in seen:
            continue
        seen.add(key)
        evals += 1
        cls = r.split()[0] + ((" " + r.split()[1]) if r.startswith(("throw", "ub")) and len(r.split()) > 1 else "")
        hist[cls] = hist.get(cls, 0) + 1
        if r.startswith("ub") or r.startswith("missing-output"):
            opk = " ".join(l.split()[:3] if l.split()[0] in ("get", "set", "crate.q", "db.q") else l.split()[:1])
            fam = "v1" if "schema_1" in sc[0] else "v2"
            sig = {"family": fam, "op": opk if l.split()[0] != "set" else " ".join(l.split()[:1] + l.split()[2:3]), "ub": r}
            ubs.setdefault(json.dumps(sig, sort_keys=True), (sig, sc[:k] + [l], r))
    for _, (sig, script, r) in sorted(ubs.items()):
        violations.append({"tag": "ub", "signature": sig,
                           "header": {"kind": "script", "what": "public call ended in undefined behaviour: " + r},
                           "body": script})
    return {"ok": not violations, "evaluations": evals, "distinct_nontrivial": len(seen),
            "rule": "adversarial calls (indices -1..9 and int extremes, 0..12 slots, labels 0..300 bytes, absent optionals, "
                    "waveform without rate, rates in (0,1), doubles to 1e15, nonexistent ids, crates from elsewhere in the "
                    "tree, stale handles) after a prefix building crates a/b/c/d and tracks t1..t3 on the sanitizer harness; "
                    "distinct = distinct (schema, call line)",
            "samples": [scripts[0][-1][:200], scripts[-1][-2][:200]],
            "histograms": hist, "divergences": [], "violations": violations}


import json
