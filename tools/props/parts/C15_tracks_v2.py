"""C15, part tracks 2.x: no getter / setter / create / update / snapshot / remove of a schema-2.x track has
undefined behaviour, whatever its arguments; stale track handles are safe."""
import random
from common import *
import runner
from props.parts import _c15 as K
from props.parts import _tracksv2_gen as G

NS = "EngineModel.Properties.C15TracksV2."
LEAN_MODULES = ["Properties.C15TracksV2"]
THEOREMS = [NS + t for t in [
    "v2t_C15_no_ub", "v2t_C15_invariant", "v2t_C15_empty", "v2t_C15_reachable_no_ub", "v2t_C15_setter_any_row",
    "v2t_C15_slot_any_index", "v2t_C15_write_any_snapshot", "v2t_C15_stale_handle_one_step", "v2t_C15_stale_handle",
    "v2t_C15_stale_handle_reachable", "v2t_C15_duration_overflow_counterexample", "v2t_C15_guarded_step",
    "v2t_C15_guarded_reachable_no_ub", "v2t_C15_sites", "v2t_C15_all_calls_no_ub",
    "v2t_C15_guard_dropped_counterexample"]]
ASSUMPTIONS = [
    "tracks 2.x: the model (EngineModel/TracksV2, tied by C01/C06 and again here) makes these undefined-behaviour "
    "sources explicit: vector index in hot_cue_at / set_hot_cue_at / loop_at / set_loop_at and in the waveform "
    "resampling loop (oob_index), `length * 1000` in duration() / snapshot() (signed_overflow); double -> int64 casts "
    "(bpm, sample rate) are modelled as the range guards the code has after the fix: commits.  Memory safety of "
    "SQLite, sqlite_modern_cpp, libstdc++ and of the blob codecs under these calls is observed by the sanitizers "
    "during the tie, not proved here (the codecs are C05's subject)",
]
MANIFEST_TEXT = ("Tracks 2.x: `step` over every getter, setter (slot accessors at any int index), create / update with "
                 "any snapshot, snapshot, remove, is_valid, handle copy / id never answers `ub` on states satisfying "
                 "the invariant `dbOk`, which holds initially and is kept by every operation (hence on every reachable "
                 "state); stale handles: is_valid = false, id / copy succeed, every other call throws.")
TRUSTED_EXTRA = []
MODE = "c15tv2"

TRACKS = ["ta", "tb", "tx"]
EXTREME_IDX = [-1, 0, 1, 7, 8, 9, 2147483647, -2147483648]


def big_slots(rng, gen_item, tok):
    n = rng.choice([9, 10, 12, 0, 8])
    items = [gen_item(rng) for _ in range(n)]
    return " ".join([str(n)] + [tok(c) for c in items])


def adversarial(rng, tier, uid, live):
    """one adversarial call; `live` = handles not yet removed by the script (mutated)"""
    t = rng.choice(sorted(live) * 4 + TRACKS)
    k = rng.random()
    if k < 0.14:
        return "get %s %s %d" % (t, rng.choice(["hot_cue_at", "loop_at"]), rng.choice(EXTREME_IDX))
    if k < 0.26:
        i = rng.choice(EXTREME_IDX)
        if rng.random() < 0.5:
            return "set %s hot_cue_at %d %s" % (t, i, G.tok_cue(G.gen_cue(rng)))
        return "set %s loop_at %d %s" % (t, i, G.tok_loop(G.gen_loop(rng)))
    if k < 0.33:
        if rng.random() < 0.5:
            return "set %s hot_cues %s" % (t, big_slots(rng, G.gen_cue, G.tok_cue))
        return "set %s loops %s" % (t, big_slots(rng, G.gen_loop, G.tok_loop))
    if k < 0.58:
        f, val = G.gen_setter(rng, tier, uid)
        return "set %s %s %s" % (t, f, val)
    if k < 0.70:
        g = rng.choice(["duration", "waveform", "beatgrid", "hot_cues", "loops", "bpm", "filename", "file_extension",
                        "sample_rate", "sample_count", "rating", "last_played_at", "relative_path", "title"])
        return "get %s %s" % (t, g)
    if k < 0.76:
        return "snap %s" % t
    if k < 0.86:
        s = G.gen_snapshot(rng, tier, uid, valid_bias=0.3)
        if rng.random() < 0.3:
            s["hot_cues"] = [G.gen_cue(rng) for _ in range(rng.choice([9, 12]))]
        if rng.random() < 0.3:
            s["loops"] = [G.gen_loop(rng) for _ in range(rng.choice([9, 12]))]
        if rng.random() < 0.3 and s.get("waveform"):
            s["sample_rate"] = rng.choice([None, 0.5, 1e15, "7ff8000000000000", -44100.0])
        if rng.random() < 0.5:
            return "update %s %s" % (t, G.fmt_snapshot(s))
        return "mktrack tn%d %s" % (uid, G.fmt_snapshot(s))
    if k < 0.90:
        return "get %s %s" % (t, rng.choice(["valid", "id", "copy"]))
    if k < 0.96:
        return rng.choice(K.DB_CONST + ["db.q tracks", "db.q track_by_id %d" % rng.choice([0, -1, 1, 2, 3, 999, 2 ** 40]),
                                        "db.q tracks_by_path " + K.hexs(rng.choice([b"", b"lib/ta1.mp3", b"nope", b"x" * 300])),
                                        "c15.handles - %s" % t, "db.q tracks"])
    v = rng.choice(["ta", "tb", "tx"])
    if v in live and len(live) < 2:
        v = "tx"            # keep one live track; removing a removed track again is a call of its own
    live.discard(v)
    return "rmtrack %s" % v


def gen_script(rng, tier, schema, hid, nadv):
    L = ["#mode " + MODE, "create %s mem" % schema]
    for k, v in enumerate(TRACKS):
        s = G.gen_snapshot(rng, tier, hid * 10 + k, valid_bias=1.0)
        if isinstance(s.get("sample_rate"), str) and s.get("waveform"):
            s["sample_rate"] = 44100.0
        G.storable_waveform(s)
        s["relative_path"] = b"lib/%s%d.mp3" % (v.encode(), hid)
        L.append("mktrack %s %s" % (v, G.fmt_snapshot(s)))
    L += ["rmtrack tx", "get tx valid", "get tx id", "get tx copy"]
    live = {"ta", "tb"}
    for j in range(nadv):
        L.append(adversarial(rng, tier, hid * 1000 + j, live))
    return L


PREFIX = 9


stale_of = K.removed_handles


def opkey(l):
    t = l.split()
    if t[0] in ("get", "set") and len(t) > 2:
        return "%s %s" % (t[0], t[2])
    if t[0] == "db.q":
        return "db.q " + t[1]
    return t[0]


def tie(ctx):
    rng = random.Random(ctx.seed * 9176 + 1502)
    schemas = K.rotate(G.SCHEMAS, ctx.seed, 7 if ctx.tier == "thorough" else 3)
    per = 60 if ctx.tier == "thorough" else 6
    nadv = 80 if ctx.tier == "thorough" else 36
    scripts = []
    hid = 0
    for s in schemas:
        for _ in range(per):
            hid += 1
            scripts.append(gen_script(rng, ctx.tier, s, hid, nadv))
    res = K.run_pair(scripts)
    j = K.judge(res, "tracks_v2", "v2", lambda s: PREFIX, stale_of, opkey, defined_only=K.const_query)
    return {"ok": j["ok"], "evaluations": j["evaluations"],
            "distinct_nontrivial": j["distinct"],
            "rule": "tracks 2.x: scripts of %d adversarial calls (slot accessors at -1..9 and INT_MIN/INT_MAX, 0..12 slots, "
                    "labels 0..300 bytes, every setter with the C01/C06 value classes incl. NaN / inf / 2^63, snapshots with "
                    "absent rate under a waveform, rates in (0,1), update / create / snapshot / remove, is_valid / id / copy) "
                    "over tracks ta, tb and a removed tx, %d schemas, model `step` of Api/C15TracksV2.lean vs sanitizer "
                    "harness; oracle: no `ub` line, stale handle answers; distinct = distinct (schema, call line)"
                    % (nadv, len(schemas)),
            "samples": [scripts[0][PREFIX][:200], scripts[-1][-1][:200]],
            "histograms": j["hist"], "divergences": j["divergences"][:10], "violations": j["violations"][:6]}


def replay(ctx, hdr, body):
    return K.replay([MODE], hdr, body)
