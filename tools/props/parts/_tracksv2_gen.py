"""Generators, text form and helpers shared by the schema-2.x parts of C01 and
C06 (tools/props/parts/C01_v2.py, C06_v2.py).  Snapshot text form = harness
rd_snapshot / wr_snapshot (harness/djv_db.cpp)."""
import struct

SCHEMAS = ["schema_2_18_0", "schema_2_20_1", "schema_2_20_2", "schema_2_20_3", "schema_2_21_0",
           "schema_2_21_1", "schema_2_21_2"]

FIELDS = ["album", "artist", "average_loudness", "beatgrid", "bitrate", "bpm", "comment", "composer", "duration",
          "file_bytes", "genre", "hot_cues", "key", "last_played_at", "loops", "main_cue", "publisher", "rating",
          "relative_path", "sample_count", "sample_rate", "title", "track_number", "waveform", "year"]
STR_FIELDS = ["album", "artist", "comment", "composer", "genre", "publisher", "title"]
INT_FIELDS = ["bitrate", "track_number", "year"]


def dbits(x: float) -> str:
    return "%016x" % struct.unpack(">Q", struct.pack(">d", x))[0]


def hx(b: bytes) -> str:
    return b.hex() if b else "-"


def ostr(s):
    return "none" if s is None else "s" + hx(s)


def tok_f(v):
    """optional double: None | float | 16-hex-digit string"""
    if v is None:
        return "none"
    return v if isinstance(v, str) else dbits(v)


def tok_i(v):
    return "none" if v is None else str(v)


def tok_cue(c):
    if c is None:
        return "none"
    return "some %s %s %d %d %d %d" % (hx(c[0]), tok_f(c[1]), *c[2])


def tok_loop(c):
    if c is None:
        return "none"
    return "some %s %s %s %d %d %d %d" % (hx(c[0]), tok_f(c[1]), tok_f(c[2]), *c[3])


def tok_grid(g):
    return " ".join([str(len(g))] + ["%d %s" % (i, tok_f(o)) for (i, o) in g])


def tok_cues(cs):
    return " ".join([str(len(cs))] + [tok_cue(c) for c in cs])


def tok_loops(ls):
    return " ".join([str(len(ls))] + [tok_loop(c) for c in ls])


def fmt_snapshot(s):
    """s: dict field -> python value (missing = absent/empty)"""
    g = s.get
    fb = g("file_bytes")
    if fb is not None and fb >= 1 << 63:
        fb -= 1 << 64            # the harness parses this token as a signed 64-bit integer
    return " ".join([
        ostr(g("album")), ostr(g("artist")), tok_f(g("average_loudness")), tok_grid(g("beatgrid", [])),
        tok_i(g("bitrate")), tok_f(g("bpm")), ostr(g("comment")), ostr(g("composer")), tok_i(g("duration")),
        tok_i(fb), ostr(g("genre")), tok_cues(g("hot_cues", [])), tok_i(g("key")), tok_i(g("last_played_at")),
        tok_loops(g("loops", [])), tok_f(g("main_cue")), ostr(g("publisher")), tok_i(g("rating")),
        ostr(g("relative_path")), tok_i(g("sample_count")), tok_f(g("sample_rate")), ostr(g("title")),
        tok_i(g("track_number")), hx(g("waveform", b"")), tok_i(g("year"))])


def split_snapshot(text):
    """'<wr_snapshot text>' -> dict field -> substring (as printed)"""
    t = text.split()
    i = 0
    out = {}

    def take(n):
        nonlocal i
        r = t[i:i + n]
        if len(r) != n:
            raise ValueError("short snapshot")
        i += n
        return " ".join(r)

    def counted(item_len):
        nonlocal i
        n = int(t[i])
        start = i
        i += 1
        for _ in range(n):
            if t[i] == "none":
                i += 1
            else:
                i += item_len
        return " ".join(t[start:i])

    for f in FIELDS:
        if f == "beatgrid":
            n = int(t[i])
            out[f] = take(1 + 2 * n)
        elif f == "hot_cues":
            out[f] = counted(7)
        elif f == "loops":
            out[f] = counted(8)
        else:
            out[f] = take(1)
    if i != len(t):
        raise ValueError("long snapshot")
    return out


def to_signed_file_bytes(snap_text):
    """wr_snapshot prints file_bytes unsigned, rd_snapshot reads it signed."""
    t = snap_text.split()
    # file_bytes is the token after duration: locate through split
    parts = split_snapshot(snap_text)
    fb = parts["file_bytes"]
    if fb != "none" and int(fb) >= 1 << 63:
        parts["file_bytes"] = str(int(fb) - (1 << 64))
    return " ".join(parts[f] for f in FIELDS)


# ------------------------------------------------------------------ value classes
EXOTIC_F = ["7ff0000000000000", "fff0000000000000", "7ff8000000000000", "7e37e43c8800759c", "43e0000000000000",
            "c3e0000000000000", "c3e0000000000001", "43dfffffffffffff"]   # +inf -inf nan 1e300 2^63 -2^63 <-2^63 <2^63


def gen_double(rng, kind="any"):
    """classes: ±0, −1, subnormal, 1e15, ordinary (+ rare exotic: inf / nan / huge)"""
    c = rng.random()
    if c < 0.10:
        return 0.0
    if c < 0.18:
        return -0.0
    if c < 0.28:
        return -1.0
    if c < 0.34:
        return "0000000000000001" if rng.random() < 0.5 else "800fffffffffffff"
    if c < 0.42:
        return 1e15 if rng.random() < 0.7 else -1e15
    if c < 0.47:
        return rng.choice(EXOTIC_F)
    if kind == "rate":
        return rng.choice([44100.0, 48000.0, 96000.0, 22050.0, 209.0, 209.99, 210.0, 210.5, 419.9, 420.0, -210.0,
                           -209.5, -44100.0, 0.5, 1.0, rng.uniform(100, 400), rng.uniform(1000, 200000)])
    if kind == "bpm":
        return rng.choice([120.0, 128.5, 174.0, 60.000001, rng.uniform(40, 220), float(rng.randrange(1, 300))])
    return rng.choice([1.0, 0.5, 12345.678, rng.uniform(0, 1e7), -rng.uniform(0, 1e7), float(rng.randrange(0, 10 ** 7)),
                       rng.uniform(-30, 30)])


def gen_ostr(rng):
    c = rng.random()
    if c < 0.2:
        return None
    if c < 0.3:
        return b""
    if c < 0.45:
        return "Ünï-çødé ✓ 日本".encode()
    if c < 0.55:
        return bytes(rng.randrange(1, 256) for _ in range(300))
    if c < 0.62:
        return b"a;b/c.d'e\"f\\g%"
    if c < 0.66:
        return b"nul\x00in\x00side"
    if c < 0.70:
        return b"\xff\xfe\xc0"
    n = rng.randrange(1, 24)
    return bytes(rng.choice(b"abcdefghijklmnopqrstuvwxyzABC XYZ0123456789-_") for _ in range(n))


I32_EDGES = [0, 1, -1, 2147483647, -2147483648, 100, 101, 99, 320, 1999, 2024, 65535]
I64_EDGES = [0, 1, -1, 999, 1000, 1001, -999, -1000, -1001, 1999, 2000, 59999, 60000, 215000,
             9223372036854775807, -9223372036854775808, 9223372036854775000, -9223372036854775000]
U64_EDGES = [0, 1, 2, 209, 210, 1023, 1024, 1025, 44100, 100000, 8820000, (1 << 53) + 1, (1 << 63) - 1, 1 << 63,
             (1 << 64) - 1]
NS_EDGES = [0, 1, -1, 999999999, 1000000000, 1000000001, -999999999, -1000000000, -1000000001,
            1700000000123456789, 1700000000000000000, -1500000000, 9223372036854775807, -9223372036854775808]


def gen_oint(rng, edges, lo, hi):
    c = rng.random()
    if c < 0.2:
        return None
    if c < 0.65:
        return rng.choice(edges)
    return rng.randrange(lo, hi)


def gen_label(rng):
    c = rng.random()
    if c < 0.25:
        return b""
    if c < 0.33:
        return b"x" * 255
    if c < 0.39:
        return b"y" * 256
    if c < 0.43:
        return b"z" * 300
    if c < 0.5:
        return "Çue ✓".encode()
    if c < 0.62:
        # arbitrary bytes: embedded NUL (a C-string copy stops there), 0xff, control characters
        return bytes(rng.choice(b"ab\x00\x00\xff\x01\n;/.Z") for _ in range(rng.randrange(2, 24)))
    return bytes(rng.choice(b"abcdefghij KLMNOP123") for _ in range(rng.randrange(1, 40)))


def gen_color(rng):
    return tuple(rng.choice([0, 255, rng.randrange(256)]) for _ in range(4))


def gen_cue(rng):
    if rng.random() < 0.35:
        return None
    return (gen_label(rng), gen_double(rng), gen_color(rng))


def gen_loop(rng):
    if rng.random() < 0.35:
        return None
    return (gen_label(rng), gen_double(rng), gen_double(rng), gen_color(rng))


def gen_slots(rng, gen_item):
    """0..9 slots; a populated slot at every position over the run"""
    n = rng.choice([0, 0, 1, 2, 3, 5, 7, 8, 8, 8, 9])
    c = rng.random()
    if c < 0.3 and n:
        # exactly one populated slot at a random position
        k = rng.randrange(n)
        item = None
        while item is None:
            item = gen_item(rng)
        return [item if j == k else None for j in range(n)]
    return [gen_item(rng) for _ in range(n)]


def gen_grid(rng):
    k = rng.choice([0, 0, 1, 2, 2, 3, 5, 17, 64])
    c = rng.random()
    if k == 0:
        return []
    if c < 0.6:
        idx = rng.choice([-4, 0, -8, 7])
        off = rng.choice([0.0, -88200.0, 1234.5])
        g = []
        for _ in range(k):
            g.append((idx, off))
            step = rng.choice([1, 4, 4, 16, 64])
            idx += step
            off += step * rng.choice([22050.0, 24000.0, 11025.5])
        return g
    if c < 0.8:   # unsorted / duplicate / extreme indices
        return [(rng.choice([0, 4, -4, 2147483647, -2147483648, rng.randrange(-1000, 1000)]), gen_double(rng))
                for _ in range(k)]
    return [(rng.randrange(-100, 100), gen_double(rng)) for _ in range(k)]


def gen_waveform(rng, tier):
    sizes = [0, 0, 0, 1, 2, 1023, 1024, 1025] + ([5000] if tier == "thorough" or rng.random() < 0.3 else [7])
    n = rng.choice(sizes)
    style = rng.random()
    if style < 0.4:
        body = bytearray()
        for i in range(n):
            body += bytes([(i * 7) % 256, (i * 13 + 1) % 256, (i * 29 + 2) % 256, 255, 255, 255])
        return bytes(body)
    if style < 0.7:
        return bytes(rng.randrange(256) for _ in range(6 * n))      # varied opacity
    return bytes([rng.randrange(256)] * 3 + [rng.choice([0, 127, 255])] * 3) * n


def gen_path(rng, uniq):
    c = rng.random()
    u = ("%d" % uniq).encode()
    if c < 0.05:
        return None
    if c < 0.09:
        return b"noext" + u
    if c < 0.12:
        return b"dir.with.dot/noext" + u
    if c < 0.14:
        return b""
    if c < 0.18:
        return b"trailingdot" + u + b"."
    if c < 0.22:
        return b"." + u
    if c < 0.26:
        return "../müsic/ünï ".encode() + u + ".flac".encode()
    if c < 0.30:
        return b"a/b/c.d/e" + u + b".tar.gz"
    if c < 0.33:
        return b"x" * 300 + u + b".mp3"
    return b"music/track" + u + b"." + rng.choice([b"mp3", b"flac", b"wav", b"m4a", b"MP3"])


def gen_snapshot(rng, tier, uniq, valid_bias=0.0):
    """A snapshot over all 25 fields.  valid_bias: probability of steering away
    from the rejection classes (so that deep fields get exercised)."""
    s = {}
    steer = rng.random() < valid_bias
    for f in STR_FIELDS:
        s[f] = gen_ostr(rng)
    s["average_loudness"] = None if rng.random() < 0.2 else gen_double(rng)
    s["beatgrid"] = gen_grid(rng)
    s["bitrate"] = gen_oint(rng, I32_EDGES, -10 ** 6, 10 ** 6)
    s["bpm"] = None if rng.random() < 0.2 else gen_double(rng, "bpm")
    s["duration"] = gen_oint(rng, I64_EDGES, -10 ** 7, 10 ** 9)
    s["file_bytes"] = gen_oint(rng, U64_EDGES, 0, 10 ** 10)
    s["hot_cues"] = gen_slots(rng, gen_cue)
    s["key"] = gen_oint(rng, [0, 1, 23, 24, -1, 2147483647, -2147483648], 0, 24)
    s["last_played_at"] = gen_oint(rng, NS_EDGES, -10 ** 18, 2 * 10 ** 18)
    s["loops"] = gen_slots(rng, gen_loop)
    s["main_cue"] = None if rng.random() < 0.2 else gen_double(rng)
    s["rating"] = gen_oint(rng, I32_EDGES + [20, 40, 60, 80], -50, 200)
    s["relative_path"] = gen_path(rng, uniq)
    s["sample_count"] = gen_oint(rng, U64_EDGES, 0, 10 ** 9)
    s["sample_rate"] = None if rng.random() < 0.15 else gen_double(rng, "rate")
    s["track_number"] = gen_oint(rng, I32_EDGES, -100, 1000)
    s["waveform"] = gen_waveform(rng, tier)
    s["year"] = gen_oint(rng, I32_EDGES, 1900, 2100)
    if steer:
        if s["relative_path"] is None or b"." not in s["relative_path"].split(b"/")[-1]:
            s["relative_path"] = b"ok/track%d.mp3" % uniq
        s["hot_cues"] = [c if c is None or len(c[0]) <= 255 else (c[0][:255],) + c[1:] for c in s["hot_cues"][:8]]
        s["loops"] = [c if c is None or len(c[0]) <= 255 else (c[0][:255],) + c[1:] for c in s["loops"][:8]]
        if s["waveform"]:
            # a waveform needs a track with samples and a rate of at least 210 Hz (overview size 1024, not 0)
            if not s["sample_count"]:
                s["sample_count"] = rng.choice([100000, 8820000, 1, 209])
            if not rate_has_overview(s["sample_rate"]):
                s["sample_rate"] = rng.choice([44100.0, 48000.0, 210.0, -210.5])
    return s


def rate_has_overview(r):
    """the sample rate truncates to an integer t in the int64 range with |t| >= 210 (quantisation number != 0)"""
    if r is None:
        return False
    if isinstance(r, str):
        r = struct.unpack(">d", bytes.fromhex(r))[0]
    if r != r or r in (float("inf"), float("-inf")):
        return False
    return 210 <= abs(int(r)) < 2 ** 63


def storable_waveform(s):
    """drop the waveform of a snapshot dict unless 2.x can store one for it"""
    if s.get("waveform") and not (s.get("sample_count") and rate_has_overview(s.get("sample_rate"))):
        s["waveform"] = b""
    return s


# ------------------------------------------------------------------ setter values (C06)
SETTERS = ["album", "artist", "average_loudness", "beatgrid", "bitrate", "bpm", "comment", "composer", "duration",
           "genre", "hot_cue_at", "hot_cues", "key", "last_played_at", "loop_at", "loops", "main_cue", "publisher",
           "rating", "relative_path", "sample_count", "sample_rate", "title", "track_number", "waveform", "year"]


def gen_setter(rng, tier, uniq):
    """-> (field, value-text)"""
    f = rng.choice(SETTERS)
    if f in STR_FIELDS:
        return f, ostr(gen_ostr(rng))
    if f in ("average_loudness", "main_cue"):
        return f, tok_f(None if rng.random() < 0.2 else gen_double(rng))
    if f == "bpm":
        return f, tok_f(None if rng.random() < 0.2 else gen_double(rng, "bpm"))
    if f == "sample_rate":
        return f, tok_f(None if rng.random() < 0.15 else gen_double(rng, "rate"))
    if f == "beatgrid":
        return f, tok_grid(gen_grid(rng))
    if f in INT_FIELDS:
        return f, tok_i(gen_oint(rng, I32_EDGES, -1000, 3000))
    if f == "duration":
        return f, tok_i(gen_oint(rng, I64_EDGES, -10 ** 7, 10 ** 9))
    if f == "key":
        return f, tok_i(gen_oint(rng, [0, 1, 23, 24, -1, 2147483647, -2147483648], 0, 24))
    if f == "last_played_at":
        return f, tok_i(gen_oint(rng, NS_EDGES, -10 ** 18, 2 * 10 ** 18))
    if f == "rating":
        return f, tok_i(gen_oint(rng, I32_EDGES + [20, 40, 60, 80], -50, 200))
    if f == "sample_count":
        return f, tok_i(gen_oint(rng, U64_EDGES, 0, 10 ** 9))
    if f == "hot_cue_at":
        i = rng.choice([0, 1, 2, 3, 4, 5, 6, 7, 0, 7, 8, 9, -1, 2147483647, -2147483648])
        return f, "%d %s" % (i, tok_cue(gen_cue(rng)))
    if f == "loop_at":
        i = rng.choice([0, 1, 2, 3, 4, 5, 6, 7, 0, 7, 8, 9, -1, 2147483647, -2147483648])
        return f, "%d %s" % (i, tok_loop(gen_loop(rng)))
    if f == "hot_cues":
        return f, tok_cues(gen_slots(rng, gen_cue))
    if f == "loops":
        return f, tok_loops(gen_slots(rng, gen_loop))
    if f == "relative_path":
        p = gen_path(rng, uniq)
        if p is None:
            p = b"collide/shared.mp3"
        return f, hx(p)
    if f == "waveform":
        return f, hx(gen_waveform(rng, tier))
    raise AssertionError(f)


def same(h, m):
    """equal outcome lines (a `bad-op` is a rejected script line on both sides,
    whatever the wording; lines after a crash did not run)"""
    if h == m or h == "skipped-after-crash":
        return True
    return h.startswith("bad-op") and m.startswith("bad-op")


def run_pair(runner, scripts, mode="tracksv2"):
    """Run stateful scripts on the harness and on the model driver.  Returns a
    list of (lines, impl_outputs, model_outputs); a sanitizer abort ends a
    script on the implementation side (`ub …` then `skipped-after-crash`)."""
    hres = runner.run_harness(scripts, stateless=False)
    mres = runner.run_model([["#mode " + mode] + s for s in scripts])
    out = []
    for s, (ho, _), mo in zip(scripts, hres, mres):
        out.append((s, ho, mo[1:]))
    return out
