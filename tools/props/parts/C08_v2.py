"""C08, schema 2.x part — crate contents are exactly the tracks added and not removed."""
import random
from common import *
import runner
from props.parts import cratesv2 as cv

LEAN_MODULES = ["Properties.C08V2", "Properties.C09Schema"]
TRANSLATORS = {"v2ddl": cv.translate_ddl}
THEOREMS = ["EngineModel.Properties.C08V2." + t for t in [
    "C08V2_step_refines",
    "C08V2_refines",
    "C08V2_invariant",
    "C08V2_tracks_agree",
    "C08V2_frame",
    "C08V2_frame_add_remove",
    "C08V2_add_present_noop",
    "C08V2_remove_absent_noop",
    "C08V2_remove_track_spares_foreign_entries",
    "C08V2_removal_erases",
]] + ["EngineModel.Properties.C09.C09_crate_ddl_same_in_all_2x_schemas"]
ASSUMPTIONS = [
    "2.x: create_track is modelled as allocation of the next AUTOINCREMENT track id (the tie creates tracks from a minimal "
    "valid snapshot); databaseUuid of every PlaylistEntity row is the library's own and membershipReference is 0 (checked on "
    "the raw dump)",
    "2.x: histories = the crate / track API interleaved with table-level additions of entries of OTHER databases (uuid != 0); "
    "table-level removals and own-uuid entries for lists / tracks that do not exist are outside C08",
]
MANIFEST_TEXT = ("Schema 2.x: Lean theorems (Properties/C08V2.lean): for every history of the crate / track API the Spec.Members "
                 "judge never objects and tracks exactly the abstraction of the PlaylistEntity table (contents = added and not "
                 "removed, no duplicates, only live tracks and crates; frame theorem: an operation changes no pair it is not "
                 "about; add of a present entry and remove of an absent one are no-ops; track / crate removal erase), tied "
                 "to the real library on histories that de-synchronise crate ids, track ids and entity-row ids.")
replay = cv.replay


def tie(ctx):
    rng = random.Random(ctx.seed * 5003 + 8)
    schemas = cv.schemas_for(ctx)
    n = 40 if ctx.tier == "quick" else 300
    scripts = []
    for s in schemas:
        for _ in range(n):
            scripts.append(cv.wrap(s, cv.gen_member_history(rng, rng.choice([40, 70]))))
    results = cv.run_all(scripts)
    return cv.finish(ctx, "C08_v2", "C08", results,
                     "2.x: seeded histories on %s interleaving create_track, remove_track, crate creation / removal, add_track "
                     "(also by raw id: 0, -1, unknown), remove_track, clear_tracks over 3-6 crates and 4-8 tracks with "
                     "create-and-remove padding so that crate ids, track ids and PlaylistEntity row ids all differ; contents, "
                     "raw PlaylistEntity columns compared with the Model after every step; Spec.Members oracle on the library's "
                     "own answers" % ", ".join(schemas),
                     [" ; ".join(scripts[0][1:14])[:300]],
                     extra_hist={"schemas": schemas, "scripts": len(scripts)})
