"""C06, schema 1.x part: getters return what setters stored, getter = snapshot field, setters touch only
their own field (of their own track), over setter histories on several tracks."""
import random
from common import *
import runner
from props.parts import _tracksv1_gen as G
from props.parts import _v1bindings as B

NS = "EngineModel.Properties.C06V1."
LEAN_MODULES = ["Properties.C06V1", "Properties.C06V1Accept", B.LEAN_MODULE]
THEOREMS = [NS + t for t in [
    "v1_C06_setter_spec", "v1_C06_get_set", "v1_C06_reject", "v1_C06_never_ub", "v1_C06_frame", "v1_C06_frame_derived",
    "v1_C06_getter_snapshot", "v1_C06_slot_getters_safe", "v1_C06_inv_write", "v1_C06_inv_set", "v1_C06_inv_db",
    "v1_C06_other_track", "v1_C06_db_get_set", "v1_C06_history", "v1_C06_history_getters",
    "v1_C06_history_other_tracks", "v1_C06_absent_track", "v1_C06_remove_track", "v1_C06_table_ok",
    "v1_C06_unique_path", "v1_C06_spec_get_put",
    "v1_C06_spec_frame",
    # acceptance side and the headline clause (Properties/C06V1Accept.lean)
    "v1_C06_accepts_row", "v1_C06_accepts", "v1_C06_refused_throws", "v1_C06_accepts_spec", "v1_C06_clean_db",
    "v1_C06_history_no_ub", "v1_C06_history_decided", "v1_C06_abs_is_snapshot", "v1_C06_value_last_set",
    "v1_C06_value_last_set_spec", "v1_C06_setter_stricter_counterexample", "v1_C06_normField_normFields",
    "v1_C06_accepted_iff_fields", "v1_C06_waveform_entry_points_counterexample"]] + B.THEOREMS_C06   # regenerated bindings
TRANSLATORS = B.TRANSLATORS
ASSUMPTIONS = [
    B.ASSUMPTION,
    "1.x: setters are modelled on the rows of one track (every statement they issue has WHERE id = ?); the only "
    "cross-track coupling is UNIQUE(path) from 1.11.1 on, which is part of the database-level step",
    "1.x: every multi-statement setter (set_bpm, set_duration, set_key, set_last_played_at, set_relative_path, "
    "set_sample_count / _rate, set_waveform) runs inside one sqlite_transaction scope in the current code and is modelled "
    "by its net effect (a throw carries no new state); a failure injected between their statements is C14's subject, a "
    "statement failing by itself (missing PerformanceData row, guard) is observed by the tie: a call that threw must leave "
    "every getter and the snapshot of its track unchanged",
    "1.x: NaN is outside the quantifier (Spec.finiteArg; matters for set_bpm only: SQLite stores a NaN REAL as NULL); "
    "std::ceil enters only through the explicit hypothesis CeilInRange of v1_C06_never_ub",
    "1.x: acceptance (v1_C06_accepts, v1_C06_history_decided, v1_C06_value_last_set_spec) is proved on DbClean databases "
    "(what create_track / update build from NaN-free snapshots and every setter keeps: v1_C06_clean_db) under the "
    "explicit hypothesis FloatLaw of the opaque double arithmetic (ceil keeps |x| < 2^63 inside int64; int -> double is "
    "never NaN and zero only for zero; u64/1024 is never NaN); the hardware instance is sampled against the law on every "
    "run (v1spec.floatlaw, and the driver re-checks Clean / accepts-vs-outcome on every written row)",
    "1.x: the setters are stricter than the setter Spec (offset -1.0 / NaN slots, tracks without PerformanceData row, "
    "NaN loudness / main cue / sample rate): v1_C06_setter_stricter_counterexample; they throw and write nothing",
]
MANIFEST_TEXT = (
    "1.x: 36 theorems (Properties/C06V1.lean, C06V1Accept.lean) over the statement-level Lean model of the 26 getters / "
    "setters of engine_track_impl.cpp.  What a setter does when it returns normally: it refines the Spec lens "
    "(v1_C06_setter_spec: snapshot after = putField of the normalised value, other 24 fields and 7 slots unchanged), "
    "get-after-set = Spec.normField, frame for every ordered pair of independent fields and for filename/extension, getter = "
    "snapshot field, other tracks untouched, removed tracks, primary key / UNIQUE(path) kept.  WHICH calls return normally: "
    "v1_C06_accepts (`accepts d id f v` — track exists, PerformanceData row present for blob setters, slot index 0..7, <= 8 "
    "slots, labels 1..255 bytes, offset neither -1.0 nor NaN, storable grid, no NaN loudness / main cue / rate, path free — "
    "iff dbSet returns ok) on DbClean databases (v1_C06_clean_db) under the explicit FloatLaw; no call of any history is "
    "undefined (v1_C06_history_no_ub, dbRunStrict); the Spec replay decides the whole history in both directions "
    "(v1_C06_history_decided: accepted calls = Spec.callAccepted, final snapshots and analysed flags = Spec.runCalls); the "
    "headline clause v1_C06_value_last_set(_spec): after h1 ++ [set f v on id] ++ h2 with that call accepted and no later "
    "accepted call on f or an overlapping field of id, getter f of id returns normField f v; the two normalisations linked "
    "(v1_C06_normField_normFields) and their only acceptance difference characterised (v1_C06_accepted_iff_fields, "
    "waveform without sample count: v1_C06_waveform_entry_points_counterexample).  Tied by generated histories over 3 "
    "tracks (missing PerformanceData row, default grid != adjusted grid, a track removed mid-history, fixed witness "
    "histories) with is_valid, all getters and snapshots observed after every step; oracles on the real library's own "
    "answers: lens laws, value-last-set over the whole history, a thrown call changes nothing, and the acceptance predicate; "
    "FloatLaw sampled on the hardware doubles.")
TRUSTED_EXTRA = [B.TRUSTED]

GETTERS = ["album", "artist", "average_loudness", "beatgrid", "bitrate", "bpm", "comment", "composer", "duration",
           "genre", "hot_cues", "key", "last_played_at", "loops", "main_cue", "publisher", "rating", "relative_path",
           "sample_count", "sample_rate", "title", "track_number", "waveform", "year"]
DERIVED = ["filename", "file_extension"]
TRACKS = ["a", "b", "c"]


def value_txt(rng, f, tier):
    """-> text of a value for setter f (after `set <t> <f>`)"""
    if f in ("album", "artist", "comment", "composer", "genre", "publisher", "title"):
        return G.ostr(G.g_str(rng))
    if f in ("average_loudness", "bpm", "main_cue"):
        return G.od(G.g_double(rng, nan_ok=rng.random() < 0.03))
    if f == "sample_rate":
        return G.od(G.g_rate(rng, nan_ok=rng.random() < 0.03))
    if f in ("bitrate", "track_number", "year"):
        return G.oi(G.g_i32(rng))
    if f == "key":
        return G.oi(rng.choice([None, 0, 0, 1, 5, 23, 24, -1]))
    if f == "rating":
        return G.oi(G.g_rating(rng))
    if f == "duration":
        return G.oi(G.g_i64(rng, 1000))
    if f == "last_played_at":
        return G.oi(G.g_i64(rng, 10 ** 9))
    if f == "sample_count":
        return G.oi(G.g_count(rng))
    if f == "beatgrid":
        return G.grid_txt(G.g_grid(rng, "quick", valid=rng.random() < 0.6))
    if f == "hot_cues":
        cs = G.g_slots(rng, G.g_cue, valid=rng.random() < 0.6)
        return " ".join([str(len(cs))] + [G.cue_txt(c) for c in cs])
    if f == "loops":
        cs = G.g_slots(rng, G.g_loop, valid=rng.random() < 0.6)
        return " ".join([str(len(cs))] + [G.loop_txt(c) for c in cs])
    if f == "hot_cue_at":
        return "%d %s" % (slot_index(rng), G.cue_txt(G.g_cue(rng, valid=rng.random() < 0.7)))
    if f == "loop_at":
        return "%d %s" % (slot_index(rng), G.loop_txt(G.g_loop(rng, valid=rng.random() < 0.7)))
    if f == "relative_path":
        return G.hexs(rng.choice([G.g_path(rng, rng.randrange(50)), b"same/path.mp3", b"", b"noext", b"a/b/c.d.e"]))
    if f == "waveform":
        return G.hexs(G.g_waveform(rng, "quick" if rng.random() < 0.9 else tier))
    raise KeyError(f)


def slot_index(rng):
    return rng.choice(list(range(8)) * 3 + [8, 9, -1, 2147483647, -2147483648])


SETTERS = GETTERS + ["hot_cue_at", "loop_at"]


def obs_lines(extra_slots):
    out = []
    for t in TRACKS:
        out.append(("get %s valid" % t, (t, "valid")))
        for g in GETTERS + DERIVED:
            out.append(("get %s %s" % (t, g), (t, g)))
        for (kind, i) in extra_slots:
            out.append(("get %s %s %d" % (t, kind, i), (t, "%s %d" % (kind, i))))
        out.append(("snap %s" % t, (t, "snap")))
    return out


ONE_ENTRY = bytes([1, 2, 3, 4, 5, 6])


def witness_scripts(schemas):
    """Fixed histories replaying the registered witnesses on the real library: (W1) set_waveform on a track without
    sample count is accepted and read back although the snapshot path rejects such a snapshot
    (v1_C06_waveform_entry_points_counterexample); (W2) a cue / loop with the reserved offset -1.0, which the snapshot
    path stores as an empty slot, is refused by the slot and list setters (v1_C06_setter_stricter_counterexample);
    (W3) value last set across a long tail of other calls and failing calls."""
    slots = [("hot_cue_at", 0), ("hot_cue_at", 7), ("loop_at", 0), ("loop_at", 7)]
    out = []
    for sch in schemas:
        lines, meta = ["#mode tracksv1", "create %s mem" % sch], [None, None]
        full = G.minimal(b"c/full.mp3")
        full.update(sample_count=8000000, sample_rate=G.dbits(44100.0), title=b"T", rating=40,
                    hot_cues=[{"label": b"a", "off": G.dbits(1000.0), "color": "255 1 2 3"}])
        for t, x in zip(TRACKS, [G.minimal(b"a/min.mp3"), G.minimal(b"b/min.mp3"), full]):
            lines.append("mktrack %s %s" % (t, G.snap_txt(x))); meta.append(("mk", t))
        for (l, m) in obs_lines(slots):
            lines.append(l); meta.append(("obs", 0) + m)
        calls = [
            ("a", "waveform", G.hexs(ONE_ENTRY)),                                           # W1
            ("c", "hot_cue_at", "0 some 61 %s 0 0 0 0" % G.NEG_ONE),                        # W2: refused
            ("c", "hot_cues", "1 some 61 %s 0 0 0 0" % G.NEG_ONE),                          # W2: refused
            ("c", "loop_at", "0 some 61 %s %s 0 0 0 0" % (G.NEG_ONE, G.dbits(5.0))),       # W2: refused
            ("c", "rating", "250"),                                                         # W3: last set = 100
            ("c", "hot_cue_at", "7 some 62 %s 9 8 7 6" % G.dbits(2000.0)),
            ("c", "title", "s41"), ("b", "rating", "7"), ("c", "hot_cue_at", "9 none"),     # other calls, one failing
            ("c", "beatgrid", "1 0 %s" % G.dbits(0.0)),                                     # failing (one marker)
            ("c", "hot_cue_at", "0 none"), ("c", "sample_rate", G.dbits(48000.0)), ("c", "year", "1999"),
        ]
        for k, (t, f, v) in enumerate(calls, 1):
            lines.append("set %s %s %s" % (t, f, v)); meta.append(("set", k, t, f, v))
            for (l, m) in obs_lines(slots):
                lines.append(l); meta.append(("obs", k) + m)
        lines.append("v1.reupdate a"); meta.append(("aux", "reupdate-after-set-waveform"))
        out.append((sch, lines, meta))
    return out


def build(rng, tier, schemas):
    n_scripts = 8 if tier == "quick" else 12
    steps = 60 if tier == "quick" else 150
    scripts = []
    for sch in schemas:
        for _ in range(n_scripts):
            # `+alias` (harness only): two handle objects per track variable, calls alternate between them
            lines, meta = ["#mode tracksv1", "create %s %s%s" % (sch, "disk" if rng.random() < 0.2 else "mem",
                                                                 " +alias" if rng.random() < 0.5 else "")], [None, None]
            inits = [G.g_snapshot(rng, 1, "quick", valid=True), G.minimal(b"b/min.mp3"),
                     G.g_snapshot(rng, 3, "quick", valid=True)]
            for t, x in zip(TRACKS, inits):
                lines.append("mktrack %s %s" % (t, G.snap_txt(x))); meta.append(("mk", t))
            if rng.random() < 0.15:
                lines.append("v1.rmperf b"); meta.append(("rmperf", "b"))
            for t in TRACKS:
                # a grid adjusted in Engine: default grid != adjusted grid (no library call produces this state)
                if rng.random() < 0.4:
                    lines.append("v1.skewgrid %s" % t); meta.append(("skew", t))
            slots = [("hot_cue_at", 0), ("hot_cue_at", 7), ("loop_at", 0), ("loop_at", 7)]
            for (l, m) in obs_lines(slots):
                lines.append(l); meta.append(("obs", 0) + m)
            rm_at = rng.randrange(5, steps) if rng.random() < 0.35 else None    # one track is removed mid-history
            removed = None
            for k in range(1, steps + 1):
                t = rng.choice(TRACKS)
                if k == rm_at:
                    removed = t
                    lines.append("rmtrack %s" % t); meta.append(("rm", k, t))
                    for (l, m) in obs_lines(slots):
                        lines.append(l); meta.append(("obs", k) + m)
                    continue
                if removed is not None and k == rm_at + 1:
                    # update() through the stale handle: must throw, must write nothing
                    x = G.g_snapshot(rng, 7, "quick", valid=rng.random() < 0.8)
                    lines.append("update %s %s" % (removed, G.snap_txt(x))); meta.append(("rm", k, removed))
                    for (l, m) in obs_lines(slots):
                        lines.append(l); meta.append(("obs", k) + m)
                    continue
                f = rng.choice(SETTERS + ["hot_cue_at", "loop_at", "hot_cues", "loops", "main_cue", "sample_rate",
                                          "sample_count", "key", "waveform"])
                v = value_txt(rng, f, tier)
                lines.append("set %s %s %s" % (t, f, v)); meta.append(("set", k, t, f, v))
                sl = list(slots)
                if f in ("hot_cue_at", "loop_at"):
                    i = int(v.split()[0])
                    if (f, i) not in sl:
                        sl.append((f, i))
                    j = rng.choice(range(8))
                    if (f, j) not in sl:
                        sl.append((f, j))
                if rng.random() < 0.1:
                    sl.append((rng.choice(["hot_cue_at", "loop_at"]), rng.choice([8, -1, 100])))
                for (l, m) in obs_lines(sl):
                    lines.append(l); meta.append(("obs", k) + m)
                if rng.random() < 0.2 and t != removed:
                    lines.append("v1.rows %s" % t); meta.append(("rows",))
            scripts.append((sch, lines, meta))
    return scripts


def split_snap(txt):
    """snapshot text -> {getter name: text as the getter prints it}"""
    t = txt.split()
    p = [0]

    def one():
        p[0] += 1
        return t[p[0] - 1]

    def grid():
        n = int(t[p[0]])
        r = t[p[0]:p[0] + 1 + 2 * n]
        p[0] += 1 + 2 * n
        return " ".join(r)

    def slots(width):
        n = int(one())
        r = [str(n)]
        for _ in range(n):
            if t[p[0]] == "none":
                r.append(one())
            else:
                r += t[p[0]:p[0] + width]
                p[0] += width
        return " ".join(r)

    d = {}
    d["album"] = one(); d["artist"] = one(); d["average_loudness"] = one(); d["beatgrid"] = grid()
    d["bitrate"] = one(); d["bpm"] = one(); d["comment"] = one(); d["composer"] = one(); d["duration"] = one()
    d["file_bytes"] = one(); d["genre"] = one(); d["hot_cues"] = slots(7); d["key"] = one()
    d["last_played_at"] = one(); d["loops"] = slots(8); d["main_cue"] = one(); d["publisher"] = one()
    d["rating"] = one(); d["relative_path"] = one(); d["sample_count"] = one(); d["sample_rate"] = one()
    d["title"] = one(); d["track_number"] = one(); d["waveform"] = one(); d["year"] = one()
    assert p[0] == len(t)
    return d


def snap_as_input(txt):
    """snapshot text as printed -> as parsed (file_bytes is printed unsigned but read as a signed decimal)"""
    t = txt.split()
    i = 3 + 1 + 2 * int(t[3]) + 5
    if t[i] != "none" and int(t[i]) >= 2 ** 63:
        t[i] = str(int(t[i]) - 2 ** 64)
    return " ".join(t)


def overlapping(f, g):
    """getter g legitimately changes when setter f is called (same field, a view of it, or derived)"""
    fb = f.split()[0]
    gb = g.split()[0]
    if fb == gb and fb not in ("hot_cue_at", "loop_at"):
        return True
    if fb in ("hot_cue_at", "loop_at") and gb == fb:
        return f == g
    pairs = {("hot_cues", "hot_cue_at"), ("hot_cue_at", "hot_cues"), ("loops", "loop_at"), ("loop_at", "loops"),
             ("relative_path", "filename"), ("relative_path", "file_extension")}
    return (fb, gb) in pairs


def canon(l):
    if l.startswith("bad-op"):
        return "bad-op"
    return G.canon_ub(l)


def tie(ctx):
    rng = random.Random(ctx.seed * 6151 + 606)
    schemas = G.QUICK_SCHEMAS if ctx.tier == "quick" else G.SCHEMAS
    scripts = build(rng, ctx.tier, schemas) + witness_scripts(schemas)
    hres, retried = G.run_harness_robust(runner, [s[1] for s in scripts], watchdog=30)
    mres = runner.run_model([s[1] for s in scripts])
    spec_lines = []
    for (sch, lines, meta) in scripts:
        for m in meta:
            if m and m[0] == "set":
                spec_lines.append("v1spec.normfield %s %s" % (m[3], m[4]))
    sout = [o for outs in runner.run_model(runner.shard(spec_lines, NCPU)) for o in outs]
    sp = iter(sout)
    # the value / row part of the acceptance predicate (Spec.callAccepted), for both values of the is-analysed flag
    acc_lines = []
    law_lines = set()
    for (sch, lines, meta) in scripts:
        for m in meta:
            if m and m[0] == "set":
                acc_lines.append("v1spec.accepts 0 %s %s" % (m[3], m[4]))
                acc_lines.append("v1spec.accepts 1 %s %s" % (m[3], m[4]))
                if m[3] == "bpm" and m[4] != "none":
                    law_lines.add("v1spec.floatlaw %s %d" % (m[4], rng.randrange(2 ** 64)))
                if m[3] == "sample_count" and m[4] != "none":
                    law_lines.add("v1spec.floatlaw %s %s" % (G.dbits(float(rng.randrange(10 ** 6)) + 0.5), m[4]))
    for b in list(G.D_CLASSES.values()) + [G.NAN, G.dbits(9223372036854774784.0), G.dbits(-9223372036854774784.0)]:
        for n in (0, 1, 1023, 1024, 2 ** 53 + 1, 2 ** 63, 2 ** 64 - 1):
            law_lines.add("v1spec.floatlaw %s %d" % (b, n))
    law_lines = sorted(law_lines)
    aout = [o for outs in runner.run_model(runner.shard(acc_lines, NCPU)) for o in outs]
    ap = iter(aout)
    lout = [o for outs in runner.run_model(runner.shard(law_lines, NCPU)) for o in outs]

    divergences, violations = [], []
    hist = {"steps": 0, "set_ok": 0, "set_throw": {}, "spec_reject": 0, "setter_stricter_than_spec": {},
            "by_field": {}, "slot_indices": {}, "getter_eq_snapshot_checks": 0, "frame_checks": 0,
            "other_track_checks": 0, "nan_values": 0, "perf_row_missing_scripts": 0, "watchdog_retries": retried}
    distinct = set()
    evals = 0
    put_lines, put_meta = [], []
    hist["float_law_samples"] = len(law_lines)
    hist["acceptance_predicate_checks"] = 0
    hist["last_set_checks"] = 0
    hist["last_set_survived_steps_max"] = 0
    for l, o in zip(law_lines, lout):
        if o != "ok 1":
            divergences.append({"input": l, "impl": "hardware doubles of the model driver", "model": "FloatLaw violated: " + o})
    for (sch, lines, meta), (hout, hrep), mout in zip(scripts, hres, mres):
        for i, l in enumerate(lines):
            evals += 1
            if canon(hout[i]) != canon(mout[i]) and not hout[i].startswith("skipped-after-crash"):
                divergences.append({"input": "%s | line %d | %s" % (sch, i, l[:300]), "impl": hout[i][:400],
                                    "model": mout[i][:400]})
        if any(m and m[0] == "rmperf" for m in meta):
            hist["perf_row_missing_scripts"] += 1
        hist["skewed_grid_tracks"] = hist.get("skewed_grid_tracks", 0) + sum(1 for m in meta if m and m[0] == "skew")
        # observations per step on the real library's answers
        obs = {}
        sets = {}
        rms = {}
        for i, m in enumerate(meta):
            if not m:
                continue
            if m[0] == "obs":
                obs.setdefault(m[1], {})[(m[2], m[3])] = hout[i]
            elif m[0] == "set":
                sets[m[1]] = (i, m[2], m[3], m[4], hout[i])
            elif m[0] == "rm":
                rms[m[1]] = (i, m[2], hout[i])

        def viol(k, what, extra=()):
            i = sets[k][0]
            body = [l for l, m in zip(lines[:i + 1], meta[:i + 1]) if not (m and m[0] in ("obs", "rows"))]
            violations.append({"tag": "oracle", "signature": None,
                               "header": {"kind": "history", "part": "C06_v1", "what": what},
                               "body": body + ["note: " + e for e in extra]})

        removed_at = {}
        for k, (_, t, _) in sorted(rms.items()):
            removed_at.setdefault(t, k)
        noperf = {m[1] for m in meta if m and m[0] == "rmperf"}
        tainted = {m[1] for i, m in enumerate(meta) if m and m[0] == "mk" and G.NAN in lines[i]}
        unique_path = G.SCHEMAS.index(sch) >= G.UNIQUE_PATH_FROM
        specs_by_k = {}
        for k, (i, t, res) in rms.items():
            # remove_track: the track is gone, every other track is observed exactly as before
            hist["removals"] = hist.get("removals", 0) + 1
            before, after = obs.get(k - 1, {}), obs.get(k, {})
            body = [l for l, m in zip(lines[:i + 1], meta[:i + 1]) if not (m and m[0] in ("obs", "rows"))]
            bad = None
            upd = lines[i].startswith("update ")
            if upd and not res.startswith("throw"):
                bad = "update() through the handle of a removed track did not throw (%s)" % res[:40]
            elif not upd and res != "ok":
                bad = "remove_track failed (%s)" % res
            elif after.get((t, "valid")) != "ok 0" or not after.get((t, "snap"), "").startswith("throw"):
                bad = "a removed track is still valid / still has a snapshot"
            else:
                for (tt, g), val in after.items():
                    if tt != t and (tt, g) in before and before[(tt, g)] != val:
                        bad = "%s of one track changed %s of another track" % ("update" if upd else "remove_track", g)
                        break
            if bad:
                violations.append({"tag": "oracle", "signature": None,
                                   "header": {"kind": "history", "part": "C06_v1", "what": bad + " on " + sch},
                                   "body": body})
        for k in sorted(sets):
            i, t, f, v, res = sets[k]
            spec = next(sp)
            acc = {"0": next(ap), "1": next(ap)}
            specs_by_k[k] = (spec, G.NAN in v)
            hist["steps"] += 1
            # the acceptance predicate (Spec.callAccepted of v1_C06_history_decided) judged on the real library's own
            # answers: the track is valid, the guard of the setter holds, no other track holds the path
            if t not in tainted and not (res.startswith("skipped") or res.startswith("missing") or res.startswith("ub")):
                bef = obs.get(k - 1, {})
                if (t, "valid") in bef:
                    valid = bef[(t, "valid")] == "ok 1"
                    clash = (f == "relative_path" and unique_path and
                             any(tt != t and bef.get((tt, "valid")) == "ok 1" and
                                 bef.get((tt, "relative_path")) == "ok " + v for tt in TRACKS))
                    want_ok = valid and acc["0" if t in noperf else "1"] == "ok 1" and not clash
                    hist["acceptance_predicate_checks"] += 1
                    if want_ok != (res == "ok"):
                        divergences.append({"input": "%s | line %d | %s" % (sch, i, lines[i][:300]), "impl": res[:200],
                                            "model": "acceptance predicate (Spec.callAccepted): %s [valid=%s guard=%s clash=%s]"
                                                     % ("ok" if want_ok else "throw", valid,
                                                        acc["0" if t in noperf else "1"], clash)})
            if t in removed_at and removed_at[t] < k:
                # handle of a removed track: the call must throw (and, checked below like any other call,
                # leave every other track alone)
                hist["calls_on_removed_track"] = hist.get("calls_on_removed_track", 0) + 1
                if res == "ok":
                    viol(k, "setter %s on a removed track returned normally on %s" % (f, sch))
                    continue
            hist["by_field"][f] = hist["by_field"].get(f, 0) + 1
            if res.startswith("skipped") or res.startswith("missing"):
                continue
            fkey = f if f not in ("hot_cue_at", "loop_at") else "%s %s" % (f, v.split()[0])
            if f in ("hot_cue_at", "loop_at"):
                hist["slot_indices"][v.split()[0]] = hist["slot_indices"].get(v.split()[0], 0) + 1
            before, after = obs.get(k - 1, {}), obs.get(k, {})
            if res.startswith("ub"):
                viol(k, "setter %s is undefined behaviour (%s) on %s" % (f, res, sch))
                continue
            nan = G.NAN in v
            if nan:
                hist["nan_values"] += 1
            if res == "ok":
                hist["set_ok"] += 1
                if spec == "ok reject" and not nan:
                    hist["spec_reject"] += 1
                    viol(k, "setter %s accepted a value it must reject on %s" % (f, sch), ["set %s %s %s" % (t, f, v[:200])])
                    continue
                if spec.startswith("ok ") and not nan and (t, fkey) in after:
                    got = after[(t, fkey)]
                    if got != spec:
                        viol(k, "getter %s does not return the value last set (normalised) on %s" % (f, sch),
                             ["get %s %s" % (t, fkey), "want: " + spec[:400], "got:  " + got[:400]])
                        continue
                    distinct.add((f, spec))
                # the whole lens on the implementation's own snapshots: snapshot after = putField (snapshot before)
                sb, sa = before.get((t, "snap"), ""), after.get((t, "snap"), "")
                if spec.startswith("ok ") and not nan and sb.startswith("ok ") and sa.startswith("ok "):
                    put_lines.append("v1spec.putfield %s %s %s" % (f, v, snap_as_input(sb[3:])))
                    put_meta.append((sa, sch, f, t, lines, meta, i))
            else:
                c = res.split()[1] if len(res.split()) > 1 else res
                hist["set_throw"][c] = hist["set_throw"].get(c, 0) + 1
                if spec == "ok reject":
                    hist["spec_reject"] += 1
                elif not nan:
                    key = "%s:%s" % (f, c)
                    hist["setter_stricter_than_spec"][key] = hist["setter_stricter_than_spec"].get(key, 0) + 1
            # frame on the same track, other tracks untouched
            for (tt, g), val in after.items():
                if (tt, g) not in before:
                    continue
                if tt != t:
                    hist["other_track_checks"] += 1
                    if before[(tt, g)] != val:
                        viol(k, "setter %s on one track changed %s of another track on %s" % (f, g, sch),
                             ["get/snap %s %s" % (tt, g), "before: " + before[(tt, g)][:300], "after:  " + val[:300]])
                        break
                elif res == "ok" and g != "snap" and not overlapping(fkey, g):
                    hist["frame_checks"] += 1
                    if before[(tt, g)] != val:
                        viol(k, "setter %s changed the value of %s on %s" % (f, g, sch),
                             ["get %s %s" % (tt, g), "before: " + before[(tt, g)][:300], "after:  " + val[:300]])
                        break
                elif res.startswith("throw"):
                    # a call that threw has set nothing: every getter (its own included) and the snapshot of the
                    # track still answer what they answered before
                    hist["threw_unchanged_checks"] = hist.get("threw_unchanged_checks", 0) + 1
                    if before[(tt, g)] != val:
                        viol(k, "setter %s threw (%s) but changed %s of its track on %s"
                             % (f, res.split()[1] if len(res.split()) > 1 else "?", g, sch),
                             ["get/snap %s %s" % (tt, g), "before: " + before[(tt, g)][:300], "after:  " + val[:300]])
                        break
        # "each getter returns the value last set for its field" over the whole history (v1_C06_value_last_set):
        # the normalised value of the last accepted call on (track, field) must be what the getter answers after
        # EVERY later step, until an accepted call on the same or an overlapping field of that track (or its removal)
        last = {}
        for k in sorted(set(sets) | set(rms)):
            line_i = sets[k][0] if k in sets else rms[k][0]
            if k in rms and not lines[rms[k][0]].startswith("update "):
                for key in [key for key in last if key[0] == rms[k][1]]:
                    del last[key]
            if k in sets and k in specs_by_k:
                _, t, f, v, res = sets[k]
                fkey = f if f not in ("hot_cue_at", "loop_at") else "%s %s" % (f, v.split()[0])
                if res == "ok":
                    for key in [key for key in last if key[0] == t and overlapping(fkey, key[1])]:
                        del last[key]
                    spec, nan = specs_by_k[k]
                    if spec.startswith("ok ") and spec != "ok reject" and not nan:
                        last[(t, fkey)] = (spec, k)
            o = obs.get(k, {})
            for (t, g), (want, k0) in list(last.items()):
                got = o.get((t, g))
                if got is None or k0 == k:
                    continue
                hist["last_set_checks"] += 1
                hist["last_set_survived_steps_max"] = max(hist["last_set_survived_steps_max"], k - k0)
                if got != want:
                    body = [l for l, m in zip(lines[:line_i + 1], meta[:line_i + 1]) if not (m and m[0] in ("obs", "rows"))]
                    violations.append({"tag": "oracle", "signature": None,
                                       "header": {"kind": "history", "part": "C06_v1",
                                                  "what": "getter %s no longer returns the value last set for its field "
                                                          "(set at step %d, lost at step %d) on %s" % (g, k0, k, sch)},
                                       "body": body + ["note: get %s %s" % (t, g), "note: want: " + want[:400],
                                                       "note: got:  " + got[:400]]})
                    del last[(t, g)]
        # getter = snapshot field after every step
        for k, o in obs.items():
            for t in TRACKS:
                sn = o.get((t, "snap"), "")
                if not sn.startswith("ok "):
                    continue
                try:
                    d = split_snap(sn[3:])
                except Exception:
                    continue
                for g in GETTERS:
                    got = o.get((t, g))
                    if got is None or not got.startswith("ok"):
                        continue
                    want = d[g]
                    if g == "relative_path":
                        want = want[1:] if want != "none" else "-"
                    hist["getter_eq_snapshot_checks"] += 1
                    if got != "ok " + want:
                        kk = k if k in sets else max([s for s in sets if s <= k] or [min(sets)])
                        viol(kk, "getter %s and snapshot().%s disagree on %s" % (g, g, sch),
                             ["get %s %s" % (t, g), "snap %s" % t, "getter:   " + got[:300], "snapshot: " + want[:300]])
                        break
    # second Spec pass: the lens applied to the snapshot the real library returned before the call
    hist["snapshot_lens_checks"] = len(put_lines)
    pout = [o for outs in runner.run_model(runner.shard(put_lines, NCPU)) for o in outs] if put_lines else []
    for want, (sa, sch, f, t, lines, meta, i) in zip(pout, put_meta):
        if want != sa:
            body = [l for l, m in zip(lines[:i + 1], meta[:i + 1]) if not (m and m[0] in ("obs", "rows"))]
            violations.append({"tag": "oracle", "signature": None,
                               "header": {"kind": "history", "part": "C06_v1",
                                          "what": "snapshot() after setter %s is not the snapshot before with that field "
                                                  "replaced by the normalised value on %s" % (f, sch)},
                               "body": body + ["note: snap " + t, "note: want: " + want[:600], "note: got:  " + sa[:600]]})
    crashes = [r for (_, reps) in hres for r in reps]
    return {
        "ok": not divergences and not violations,
        "evaluations": evals,
        "distinct_nontrivial": len(distinct),
        "rule": "1.x: setter histories over 3 tracks (one fully analysed, one minimal, one random; in some scripts the "
                "PerformanceData row of one track is deleted first, and the default beat grid of some tracks is made different from the adjusted one, as Engine does), every setter incl. slot setters at indices 0..7 and "
                "out of range, values from the C01 classes; after every step all 26 getters, slot getters, filename / "
                "extension and snapshot() of all three tracks; model vs implementation line by line; lens laws "
                "(get-after-set = Spec.normField, frame, other tracks, getter = snapshot field, snapshot after = "
                "Spec.putField of the snapshot before) on the implementation's answers; non-trivial = distinct (setter, normalised value) pairs confirmed by the getter",
        "samples": [scripts[0][1][2][:300]] + [l[:200] for l in scripts[0][1] if l.startswith("set ")][:3],
        "histograms": hist,
        "divergences": divergences[:20],
        "violations": violations[:6],
        "extra": {"sanitizer_reports": [r["stderr"][-400:] for r in crashes[:3]]},
    }
