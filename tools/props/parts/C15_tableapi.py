"""C15, part schema-2.x table API (track_table, playlist_table, playlist_entity_table): no operation has
undefined behaviour or fails to terminate, whatever its arguments — proved for track_table and (with the
recorded missing-tail exception of get_for_list) playlist_entity_table, REFUTED for playlist_table: a parent
cycle is creatable through the API, after which the schema's recursive views never finish.

To take part in the C15 check add "C15_tableapi" to the part list in tools/props/C15.py (one line)."""
import os, random
from common import *
import runner
from props import _tableapi as T

NS = "EngineModel.Properties.C15TableApi."
LEAN_MODULES = ["Properties.C15TableApi"]
THEOREMS = [NS + t for t in [
    "C15_tableapi_track_no_ub", "C15_tableapi_entity_no_ub", "C15_tableapi_get_for_list_counterexample",
    "C15_tableapi_parent_cycle_counterexample", "C15_tableapi_self_parent_counterexample"]]
ASSUMPTIONS = [
    "table API 2.x: the Model of Table/{Track,Lists}.lean (property C18; statements regenerated from the source, DDL "
    "triggers and recursive views hand-translated and validated by raw-row equality) with `ub signed_overflow` for "
    "to_time_point / parse_ft, `ub nontermination` for the recursive views PlaylistAllParent / PlaylistAllChildren over a "
    "parent cycle, `ub oob_read` for the end() dereference of get_for_list; track_table is proved ub-free on every "
    "reachable state for all arguments; playlist_table is NOT (counterexample theorems, recorded finding "
    "tableapi-playlist-parent-cycle-nontermination); playlist_table::get with a last-edit time in the first second of "
    "the time-point range is C18's recorded finding playlist-last-edit-floor-overflow",
]
MANIFEST_TEXT = ("Table API 2.x: track_table has no `ub` outcome for any arguments on any reachable state (all seven "
                 "schemas); playlist_entity_table likewise except get_for_list without a tail (C09's finding); for "
                 "playlist_table the claim is refuted by counterexample theorems (parent cycle -> non-termination), a "
                 "recorded finding replayed on the real library on every run.")
TRUSTED_EXTRA = []
STATELESS = False

KNOWN_SIG = {"family": "v2-table-api", "call": "playlist_table::add / update / remove",
             "effect": "never returns once the Playlist table contains a parent cycle (recursive views PlaylistAllParent / PlaylistAllChildren)"}


def corpus():
    d = os.path.join(VERIF, "corpus", "C15")
    out = []
    for f in sorted(os.listdir(d)) if os.path.isdir(d) else []:
        if f.startswith("tableapi_") and f.endswith(".txt"):
            out.append((f, [l for l in open(os.path.join(d, f)).read().split("\n") if l.strip()]))
    return out


def has_cycle(raw_line):
    """Does the raw Playlist dump (independent reader) contain a parent cycle?"""
    rows = T.parse_raw(raw_line)
    parent = {r["id"]: r["parentListId"] for r in rows}
    for i in parent:
        seen, cur = set(), i
        while cur in parent and cur not in seen:
            seen.add(cur)
            cur = parent[cur]
        if cur in seen:
            return True
    return False


def adversarial(rng, schema):
    """Adversarial table-API calls on a small state that never contains a parent cycle and never stores a
    last-edit time in the first second of the range (the two recorded findings have their own witnesses)."""
    L = ["#mode tableapi", "tt.create " + schema, "tt.uuid " + "6c6962", "tt.clock 1700000000", "inf.setcpi 1",
         "tpl.add 0 41 0 0 0 0 0", "tpl.add 0 42 1 1 0 0 0", "tpl.add 0 43 0 0 0 1000000000 1",
         "tpe.add 0 1 1 61 0 0 0", "tpe.add 0 1 2 61 0 0 0", "tpe.add 0 2 1 62 0 0 0"]
    g = T.G(rng, {})
    ids = [0, -1, 1, 2, 3, 4, 999, 2 ** 63 - 1, -2 ** 63]
    fields = [f for f, _ in T.TRACK_FIELDS if f != "id"]
    for _ in range(30):
        c = rng.random()
        if c < 0.15:
            row = g.track_row(rng.choice([0, 0, 0, 1, -1]))
            L.append("tt.add " + T.fmt_row(T.TRACK_FIELDS, row))
        elif c < 0.25:
            row = g.track_row(rng.choice(ids))
            L.append("tt.update " + T.fmt_row(T.TRACK_FIELDS, row))
        elif c < 0.40:
            f = rng.choice(fields)
            L.append("tt.setc %s %d %s" % (f, rng.choice(ids), T.tok(T.TRACK_ACC_TY[f], g.val(T.TRACK_ACC_TY[f]))))
        elif c < 0.55:
            L.append("tt.getc %s %d" % (rng.choice(fields), rng.choice(ids)))
        elif c < 0.62:
            L.append("tt.get %d" % rng.choice(ids))
        elif c < 0.68:
            L.append(rng.choice(["tt.remove %d", "tt.exists %d"]) % rng.choice(ids))
        elif c < 0.78:
            L.append("tpe.%s %d %d" % (rng.choice(["get", "remove"]), rng.choice(ids), rng.choice(ids)))
        elif c < 0.84:
            L.append("tpe.get3 %d %d %s" % (rng.choice(ids), rng.choice(ids), rng.choice(["61", "62", "-", "00"])))
        elif c < 0.90:
            # entities with positive track ids only: the missing-tail state is C09's recorded finding
            L.append("tpe.add 0 %d %d %s %d %d %d" % (rng.choice(ids), rng.choice([1, 2, 3, 2 ** 62]), rng.choice(["61", "62", "-"]),
                                                     rng.choice(ids), rng.choice(ids), rng.randrange(2)))
        elif c < 0.95:
            L.append("tpe.%s %d" % (rng.choice(["list", "tracks", "clear"]), rng.choice(ids)))
        else:
            L.append("tpl.%s %d" % (rng.choice(["get", "exists", "remove"]), rng.choice([0, -1, 3, 999, 2 ** 63 - 1])))
    return L


def tie(ctx):
    rng = random.Random(ctx.seed * 7919 + 15018)
    hist = {"outcomes": {}}
    wit = corpus()
    schemas = list(T.SCHEMAS) if ctx.tier == "thorough" else [T.SCHEMAS[ctx.seed % len(T.SCHEMAS)], T.SCHEMAS[-1]]
    n_adv = 6 if ctx.tier == "quick" else 40
    scripts = [w[1] for w in wit] + [adversarial(rng, s) for s in schemas for _ in range(n_adv)]
    results = T.run_pair(scripts, watchdog=8)
    divergences, violations, n = [], [], 0
    known_seen = False
    for idx, (lines, ho, mo) in enumerate(results):
        for k, (l, h, m) in enumerate(zip(lines, ho, mo)):
            n += 1
            cmd = l.split()[0]
            if not cmd.startswith("#"):
                cls = " ".join(h.split()[:2]) if h.startswith(("throw", "ub")) else h.split()[0]
                hist["outcomes"][cmd + " -> " + cls] = hist["outcomes"].get(cmd + " -> " + cls, 0) + 1
            if not T.same(h, m):
                divergences.append({"input": l[:400], "impl": h[:400], "model": m[:400], "script": lines[1]})
                break
            if h.startswith("ub "):
                # the direct oracle of C15: no call may end in ub.  The parent-cycle hang is recorded.
                raws = [H for L_, H in zip(lines[:k], ho[:k]) if L_ == "tpl.raw" and H.startswith("ok ")]
                cyc = (cmd in ("tpl.add", "tpl.update", "tpl.remove") and h == "ub nontermination" and
                       (idx < len(wit) or (raws and has_cycle(raws[-1]))))
                sig = KNOWN_SIG if cyc else {"family": "v2-table-api", "call": cmd, "outcome": h}
                if cyc and known_seen:
                    break
                known_seen = known_seen or cyc
                violations.append({"tag": "tableapi-ub", "signature": sig,
                                   "header": {"kind": "script", "what": "%s ends in '%s'" % (l[:120], h)},
                                   "body": lines[:k + 1] + ["oracle: the call above ended in '%s'" % h]})
                break
    hist["scripts"] = len(scripts)
    hist["witnesses"] = [w[0] for w in wit]
    return {"ok": not divergences and not [v for v in violations if v["signature"] != KNOWN_SIG],
            "evaluations": n, "distinct_nontrivial": len(set(l for s in scripts[len(wit):] for l in s[11:])),
            "rule": "table-API 2.x: the recorded parent-cycle witnesses (corpus/C15/tableapi_*.txt) and adversarial "
                    "track_table / playlist_entity_table / playlist_table calls (ids 0, -1, nonexistent, int64 edges; rows "
                    "with every optional present / absent, time-point and integer edges, unencodable blobs) on %s; model "
                    "and sanitizer harness must agree on every outcome class and no call may end in ub; non-trivial = "
                    "distinct adversarial lines" % ", ".join(schemas),
            "samples": [" ; ".join(x[:100] for x in scripts[-1][11:15])] if scripts else [],
            "histograms": hist, "divergences": divergences[:10], "violations": violations[:8]}


def replay(ctx, hdr, body):
    script = [l for l in body if not l.startswith("oracle")]
    if not script or script[0] != "#mode tableapi":
        return None
    (lines, ho, mo), = T.run_pair([script])
    out, ok = [], True
    for l, h, m in zip(lines, ho, mo):
        out.append("%s\n   impl:  %s\n   model: %s" % (l[:200], h[:200], m[:200]))
        if h.startswith("ub ") or not T.same(h, m):
            ok = False
    return ok, "\n".join(out)
