"""C10, whole-library part for schema 1.x (composite-v1): reload of the composite state through its two files."""
from props.parts import _lib1

NS = "EngineModel.Properties.C10Lib1."
LEAN_MODULES = ["Properties.C10Lib1"]
THEOREMS = [NS + t for t in [
    "C10_lib1_reload",
    "C10_lib1_reload_after_every_history",
    "C10_lib1_observe_after_reload",
    "C10_lib1_reload_at_every_prefix",
    "C10_lib1_reload_needs_invariant",
]]
ASSUMPTIONS = [
    "1.x composite: `reload` = store the state into the two files (m.db / p.db split as in the creators), re-detect the "
    "schema from the version stamp (Pure.Detect.specDetect + the 1.18.0 marker), look each PerformanceData row up by id; "
    "durability of committed bytes is SQLite's (Spec/Txn.lean, Properties/C10.lean) and is sampled by close + load on disk",
]
TRUSTED_EXTRA = []
MANIFEST_TEXT = ("Schema 1.x on the whole-library model: reload is the identity after every history and reports the "
                 "created schema (C10_lib1_reload_after_every_history, from LibInv: primary key of Track, PerformanceData "
                 "ids mirror Track ids), so every observation is the same after reopening, at every prefix.")


def tie(ctx):
    plan = [("mixed", 10, 6), ("members", 10, 2)] if ctx.tier == "quick" else [("mixed", 24, 16), ("members", 20, 8)]
    r = _lib1.run_part(ctx, "C10", plan, ("reopen",), disk=True, reopen=0.5, track_ops=0.4)
    r["rule"] = ("interleaved histories on DISK libraries of %s; after half of the calls: full observation + raw dump of all "
                 "tables, `reopen` (every handle released, load_database, handles re-obtained by id), observation + dump "
                 "again — the listings, every live object's answers and all raw rows must be equal and the load must report "
                 "the created schema (direct oracle); the Lean side applies `Lib.V1.reload`" % ", ".join(sorted(r["histograms"]["schemas"])))
    return r


def replay(ctx, hdr, body):
    if hdr.get("oracle", "").startswith("lib1.reopen"):
        return _lib1.replay(ctx, hdr, body)
    return None
