"""C08, schema-1.x half: crate contents are exactly the tracks added and not removed."""
from props.parts import _cratesv1

LEAN_MODULES = ["Properties.C08V1"]
THEOREMS = ["EngineModel.Properties.C08V1." + t for t in [
    "C08_refines",
    "C08_refines_from_wellformed",
    "C08_frame_from_wellformed",
    "C08_contents_wellformed",
    "C08_frame",
    "C08_add_track",
    "C08_add_present_is_noop",
    "C08_remove_track",
    "C08_clear_tracks",
    "C08_track_removal_erases_memberships",
    "C08_crate_removal_erases_memberships",
]]
ASSUMPTIONS = [
    "1.x: SqliteSemantics for CrateTrackList (a table up to 1.7.1; from 1.9.1 a view over ListTrackList INNER JOIN List "
    "with an INSTEAD OF delete trigger: rows of a crate that no longer exists are invisible and cannot be deleted through "
    "it), for the Track id allocation (rowid rule / AUTOINCREMENT + trigger_after_delete_Track from 1.17.0) and for "
    "transactions; hand-translated in lean/EngineModel/Api/CratesV1.lean, validated by raw-row equality (view AND stored "
    "ListTrackList rows) after every step",
    "1.x: create_track is modelled as far as Track.id / path-IS-NOT-NULL go (the tie creates tracks from a minimal valid "
    "snapshot); everything else of a track is the tracks work-package's model",
]
TRUSTED_EXTRA = []
MANIFEST_TEXT = ("Schema 1.x: refinement of Spec.Members by the CrateTrackList model for every history of crate, "
                 "membership and track operations (C08_refines: tracks() / containing_crates() / tracks() of the database "
                 "equal the Spec's relation, converse and live tracks; no duplicates, only live tracks and valid crates), "
                 "frame theorem (an operation changes only the pairs it is about), add idempotent, remove of an absent "
                 "track changes nothing, clear empties, track removal and crate (sub-tree) removal erase the memberships; "
                 "tied to the real library on histories that de-synchronise crate ids, track ids and membership rows, "
                 "with a Spec.Members oracle on the library's own answers.")


def tie(ctx):
    return _cratesv1.part_result(ctx, "C08")


def replay(ctx, hdr, body):
    return _cratesv1.replay(ctx, hdr, body)
