"""C15, part sites: the inventory of undefined-behaviour sites of the library's own track / crate / database code
and the guards that protect them, re-extracted from clang's typed AST of the working tree on every run
(tools/tr_c15guards.py).

* TRANSLATORS: the guard conditions the wrapper models (lean/EngineModel/Api/Guarded*.lean) test before every
  dereference / index / cast / division are regenerated into lean/EngineModel/Gen/C15Guards.lean, and the extents
  arithmetic of track_utils.hpp into Gen/TrackUtilsGen.lean — the theorems "guarded model = model, never ub" are then
  re-checked by `lake build` against the code as it is.  A guard that is weakened, dropped or rewritten beyond the
  translator's fragment is emitted as `false` (= no guard): the proofs no longer go through and the driver predicts the
  `ub` the sanitizer sees.
* tie: the inventory is compared with the confirmed one (tools/props/parts/c15_sites.json).  A NEW site, or a site whose
  expression or dominating conditions changed and whose conditions are not all among the translated ones (where the proof
  decides), has no confirmed model counterpart: the check fails closed (a divergence "site inventory").  A site that only
  disappeared is reported in the evidence.  Re-confirm with `python3 tools/tr_c15guards.py --confirm` after reading the
  change and, where it matters, extending the wrapper models.
"""
import subprocess, sys
from common import *
import tr_c15guards as T

THEOREMS = []
LEAN_MODULES = []
ASSUMPTIONS = [
    "C15 site inventory: tools/tr_c15guards.py lists, from clang-14's typed AST of v1/engine_{track,crate,database}_impl.cpp, "
    "v2/{track,crate,database}_impl.cpp, v2/playlist_table.cpp, v2/playlist_entity_table.cpp, v2/convert_*.hpp and "
    "track_utils.hpp, every optional / iterator dereference, vector index, integer division, double->integer conversion, "
    "signed 32/64-bit arithmetic, shift, raw-pointer dereference, front()/back() and non-range loop, with its dominating "
    "conditions; sites inside libstdc++ / sqlite_modern_cpp templates (e.g. std::chrono conversions) and in other "
    "translation units (track_table.cpp, engine_storage.cpp, the blob codecs of C05) are outside this inventory",
    "C15 guard translator: conditions are matched by function, statement kind and the set of declared atoms (an atom is a "
    "C++ sub-expression named in TABLE, e.g. `quick_cues.quick_cues.size()`, `*sample_rate >= 1`); integer casts are "
    "translated with their modular meaning; a floating comparison is an atom whose Lean value is the bit-exact F64 "
    "comparison of the track models",
]
MANIFEST_TEXT = ("Every index / optional dereference / integer division / double->int conversion site of the track, crate "
                 "and database implementation files is inventoried from the typed AST on each run; the guards of the "
                 "modelled sites are regenerated into Lean and the wrapper-model theorems re-proved against them; an "
                 "unconfirmed site makes the check fail closed.")
TRUSTED_EXTRA = ["tools/tr_c15guards.py (clang-14 JSON AST -> site inventory and Lean guard conditions)"]


def _guards():
    return T.regenerate()


def _trackutils():
    r = subprocess.run([sys.executable, os.path.join(VERIF, "tools", "tr_trackutils.py")],
                       stdout=subprocess.PIPE, stderr=subprocess.PIPE, text=True)
    return (r.stdout.strip() or r.stderr.strip()[-200:])


TRANSLATORS = {"C15 guards (engine v1/v2 *.cpp, convert_*.hpp)": _guards, "track_utils.hpp": _trackutils}


def tie(ctx):
    d = T.diff()
    sites, conds, sptr = T.scan_all()
    hist, cover = {}, {}
    for s in sites:
        hist[s["kind"]] = hist.get(s["kind"], 0) + 1
        st = T.classify(s)[0]
        cover[st] = cover.get(st, 0) + 1
    divergences = []
    for s in d["added"]:
        divergences.append({"input": "site inventory: NEW site %s:%d %s" % (s["file"], s["line"], s["id"]),
                            "impl": "%s  guards: %s" % (s["expr"], "; ".join(s["guards"]) or "none"),
                            "model": "no confirmed entry (tools/props/parts/c15_sites.json)"})
    for c in d["changed"]:
        divergences.append({"input": "site inventory: CHANGED site %s:%d %s" % (c["now"]["file"], c["now"]["line"], c["id"]),
                            "impl": "%s  guards: %s" % (c["now"]["expr"], "; ".join(c["now"]["guards"]) or "none"),
                            "model": "confirmed: %s  guards: %s" % (c["was"]["expr"], "; ".join(c["was"]["guards"]) or "none")})
    return {"ok": not divergences, "evaluations": len(sites),
            "distinct_nontrivial": len([s for s in sites if s["kind"] not in ("range-for", "map-index")]),
            "rule": "sites = optional / iterator dereferences, vector indexings, integer divisions, double->int conversions, "
                    "signed arithmetic, shifts, pointer dereferences, front()/back(), non-range loops of the 14 inventoried "
                    "files, from the typed AST of the working tree; each compared (function, kind, operand type, ordinal; "
                    "expression and dominating conditions) with the confirmed inventory; distinct = sites that are not a "
                    "range-for dereference or an inserting map index",
            "samples": ["%s:%d %s %s" % (s["file"], s["line"], s["kind"], s["expr"][:80]) for s in sites[:3]],
            "histograms": {"kind": hist, "covered_by": cover, "removed_sites": len(d["removed"]),
                           "rechecked_by_proof": len(d["rechecked_by_proof"]),
                           "shared_ptr_derefs": d["shared_ptr_derefs"]},
            "divergences": divergences[:12], "violations": []}
