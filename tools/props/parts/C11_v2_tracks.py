"""C11, schema 2.x, track part — the derived per-track columns (file name, file
type, origin ids) agree with the track's path and the database uuid after every
prefix of every history of track calls, refused calls included."""
import random
from common import *
import runner
from props.parts import _tracksv2_gen as G

NS = "EngineModel.Properties.C11V2Tracks."
LEAN_MODULES = ["Properties.C11V2Tracks"]
THEOREMS = [NS + t for t in [
    "C11V2T_reachable_wf", "C11V2T_reachable_rows", "C11V2T_step_preserves", "C11V2T_from_any_wellformed",
    "C11V2T_failed_call_unchanged",
    "C11V2T_setter_atomic", "C11V2T_unscoped_counterexample", "C11V2T_spec_meaning"]]
ASSUMPTIONS = [
    "2.x tracks (C11): SqliteSemantics for the Track table — a failing statement has no effect (ON CONFLICT ABORT), "
    "BEGIN/COMMIT/ROLLBACK as a snapshot of the table, UNIQUE(path) and UNIQUE(originDatabaseUuid, originTrackId) "
    "checked against every other row, AUTOINCREMENT ids above the counter, the fix_origin triggers as nested updates; "
    "path / originDatabaseUuid never NULL (bound from std::string); validated by comparing the raw rows of all tracks "
    "with the Model's after every step on all seven versions",
    "2.x tracks (C11): memberships (PlaylistEntity) and the ChangeLog table are outside this part: its histories "
    "contain no crate operation (the crate tables are C11_v2's part), remove_track is the DELETE on Track",
]
MANIFEST_TEXT = ("Schema 2.x (Track table, derived columns): the Track table is modelled at statement level (UNIQUE(path), "
                 "UNIQUE(origin), fix_origin triggers, every public track call as its sequence of SELECT/UPDATE/INSERT/"
                 "DELETE statements inside the transaction scope the C++ has); theorem: in EVERY reachable state — after "
                 "any history of create / update / each of the 26 setters / remove with arbitrary, colliding paths, "
                 "whatever each call answered — filename and fileType agree with path, originDatabaseUuid / "
                 "originTrackId with the database uuid / the row id, ids and paths are keys (C11V2T_reachable_wf / "
                 "_rows); a call that does not return normally leaves the table untouched and every setter is atomic "
                 "(proved of the statement sequences, with the unscoped variant as counterexample).  Tie: histories "
                 "with deliberately colliding paths on all seven 2.x versions, raw rows of all tracks after every "
                 "step (also after throwing calls) equal to the Model's, and the executable Spec predicate tracksWf "
                 "evaluated by the Lean driver on the real raw rows.")
TRUSTED_EXTRA = []
MODE = "t2db"

# a small pool, so that create / update / set_relative_path collide all the time
POOL = [b"m/a.mp3", b"m/b.flac", b"m/c.wav", b"m/a.mp3", b"d.e/f.ogg", b"x.tar.gz", b"m/b.flac", b"M/A.MP3",
        "ü/ñ.m4a".encode(), b"m/a.mp3 ", b"/a.mp3"]
ODD = [b"m/c", b"d.e/f", b".hidden", b"trailing.", b"a/b/", b"", b"noext", b"a//b..c", b"."]   # no / odd extension
VARS = ["ta", "tb", "tc", "td"]
OBS = "t2.tracks"


def _snap(rng, tier, uniq, path):
    # small snapshots (readable replays): the other 24 fields are C01's subject
    if rng.random() < 0.15:
        s = G.gen_snapshot(rng, tier, uniq, valid_bias=1.0)
        s["waveform"], s["beatgrid"] = b"", []
        for f in G.STR_FIELDS:
            if s.get(f) and len(s[f]) > 40:
                s[f] = s[f][:40]
    else:
        s = {"title": b"t%d" % uniq, "rating": rng.choice([None, 40, 100]), "year": rng.choice([None, 1999])}
        if rng.random() < 0.3:
            s["hot_cues"] = [None, (b"c", 1000.0, (255, 1, 2, 3))]
    s["relative_path"] = path
    return G.fmt_snapshot(s)


def gen_history(rng, tier, schema, hid):
    """-> (lines, steps) ; steps = (index of the call line, kind)"""
    L = ["#mode " + MODE, "create %s %s" % (schema, "disk" if rng.random() < 0.15 else "mem"), OBS]
    steps = []
    live = []
    n = 30 if tier == "quick" else 70
    uniq = hid * 1000

    def call(line, kind):
        steps.append((len(L), kind))
        L.append(line)
        L.append(OBS)

    for k, v in enumerate(VARS[:3]):
        call("mktrack %s %s" % (v, _snap(rng, tier, uniq + k, POOL[k] if rng.random() < 0.8 else rng.choice(POOL))), "create")
        live.append(v)
    fresh = 0
    for j in range(n):
        c = rng.random()
        v = rng.choice(VARS[:3] + live + ["td"])
        if c < 0.38:
            p = rng.choice(POOL) if rng.random() < 0.75 else rng.choice(ODD)
            call("set %s relative_path %s" % (v, G.hx(p)), "set_relative_path")
        elif c < 0.52:
            f, val = G.gen_setter(rng, tier, uniq + 100 + j)
            if f in ("waveform", "beatgrid"):
                f, val = "title", G.ostr(b"t%d" % j)
            call("set %s %s %s" % (v, f, val), "set_" + f)
        elif c < 0.70:
            p = rng.choice(POOL) if rng.random() < 0.8 else rng.choice(ODD)
            call("update %s %s" % (v, _snap(rng, tier, uniq + 200 + j, p)), "update")
        elif c < 0.85:
            fresh += 1
            w = rng.choice(VARS)
            p = rng.choice(POOL) if rng.random() < 0.7 else (b"new/%d.mp3" % fresh if rng.random() < 0.7 else rng.choice(ODD))
            call("mktrack %s %s" % (w, _snap(rng, tier, uniq + 300 + j, p)), "create")
        else:
            call("rmtrack %s" % v, "remove")
        if rng.random() < 0.2:
            L.append("snap %s" % rng.choice(VARS[:3]))
            L.append("get %s valid" % rng.choice(VARS[:3]))
    return L, steps


def canon(line):
    """replace the database's own (random) uuid by the token the model prints"""
    t = line.split()
    if len(t) > 1 and t[0] == "ok" and t[1].startswith("uuid="):
        u = t[1][5:]
        return " ".join(["ok", "uuid=UUID"] + [("UUID" if x == u else x) for x in t[2:]])
    return line


def judge(scripts_steps, hres, mres, viol_cap=8):
    divergences, violations = [], []
    hist = {"calls": {}, "outcome": {}, "refused_by_unique": 0, "rows_seen": {}, "wf_evaluated": 0, "throw_unchanged": 0}
    wf_lines, wf_ref = [], []
    distinct = set()
    for si, ((lines, steps), (ho, _), mo) in enumerate(zip(scripts_steps, hres, mres)):
        for l, h, m in zip(lines, ho, mo):
            hc = canon(h)
            if not G.same(hc, m):
                divergences.append({"input": l[:300], "impl": hc[:500], "model": m[:500], "script": lines[1]})
                break
        prev = None
        for i, l in enumerate(lines):
            if l != OBS or i >= len(ho) or not ho[i].startswith("ok uuid="):
                continue
            wf_lines.append("t2.wf " + ho[i][3:])
            wf_ref.append((si, i))
            nrows = ho[i].count("|")
            hist["rows_seen"][str(nrows)] = hist["rows_seen"].get(str(nrows), 0) + 1
        for (k, kind) in steps:
            if k + 1 >= len(ho) or ho[k] == "skipped-after-crash":
                break
            res = ho[k]
            hist["calls"][kind] = hist["calls"].get(kind, 0) + 1
            cls = res.split()[0] + ("" if res.startswith("ok") else " " + " ".join(res.split()[1:2]))
            hist["outcome"][cls] = hist["outcome"].get(cls, 0) + 1
            if res.startswith("throw sqlite_error"):
                hist["refused_by_unique"] += 1
            if res.startswith("ub "):
                if len(violations) < viol_cap:
                    violations.append({"tag": "v2t-ub", "signature": {"part": "v2-tracks", "kind": "ub"},
                                       "header": {"kind": "script", "what": "%s has undefined behaviour (%s)" % (kind, res)},
                                       "body": lines[:k + 1] + ["impl: " + res]})
                break
            # a call that throws must leave the raw rows as they were (supporting check; C14's subject)
            before = ho[k - 1] if lines[k - 1] == OBS else None
            after = ho[k + 1] if lines[k + 1] == OBS else None
            if res.startswith("throw") and before and after:
                hist["throw_unchanged"] += 1
                if before != after and len(violations) < viol_cap:
                    violations.append({"tag": "v2t-partial", "signature": {"part": "v2-tracks", "kind": "partial", "op": kind},
                                       "header": {"kind": "script",
                                                  "what": "%s threw (%s) but the stored Track rows changed" % (kind, res)},
                                       "body": lines[:k + 2] + ["impl(before): " + before[:1500], "impl(after):  " + after[:1500]]})
            if res.startswith("ok"):
                distinct.add((kind, lines[k].split(" ", 2)[-1][:80]))
    # the direct oracle: the executable Spec predicate on the implementation's own raw rows
    wf_out = [o for outs in runner.run_model(runner.shard(wf_lines, NCPU)) for o in outs] if wf_lines else []
    seen_scripts = set()
    for (si, i), o in zip(wf_ref, wf_out):
        hist["wf_evaluated"] += 1
        if o == "ok":
            continue
        if si in seen_scripts:
            continue
        seen_scripts.add(si)
        lines = scripts_steps[si][0]
        ho = hres[si][0]
        if len([v for v in violations if v["tag"] == "v2t-wf"]) < viol_cap:
            violations.append({"tag": "v2t-wf", "signature": {"part": "v2-tracks", "kind": "derived-columns", "what": o.split()[1] if len(o.split()) > 1 else o},
                               "header": {"kind": "script",
                                          "what": "stored Track rows are not well-formed after `%s` (%s): %s"
                                                  % (lines[i - 1][:80], ho[i - 1][:40], o)},
                               "body": lines[:i + 1] + ["impl(rows): " + ho[i][:2000], "spec: " + o]})
    violations.sort(key=lambda v: 0 if v["tag"] == "v2t-wf" else 1)
    return divergences, violations, hist, len(distinct), len(wf_lines)


def tie(ctx):
    rng = random.Random(ctx.seed * 7919 + 1102)
    per_schema = 8 if ctx.tier == "quick" else 60
    hs = []
    hid = 0
    for sch in G.SCHEMAS:
        for _ in range(per_schema):
            hid += 1
            hs.append(gen_history(rng, ctx.tier, sch, hid))
    scripts = [h[0] for h in hs]
    hres = runner.run_harness(scripts, stateless=False, watchdog=30)
    mres = runner.run_model(scripts)
    divergences, violations, hist, distinct, nwf = judge(hs, hres, mres)
    hist["schemas"] = G.SCHEMAS
    hist["scripts"] = len(scripts)
    return {
        "ok": not divergences and not violations,
        "evaluations": sum(len(s) for s in scripts) + nwf,
        "distinct_nontrivial": distinct,
        "rule": "2.x tracks: seeded histories of create / update / set_relative_path / other setters / remove over four "
                "handles (removed ones included) on all seven 2.x versions, paths drawn from a pool of 11 (so that "
                "create, update and set_relative_path are refused by UNIQUE(path) all the time) plus paths without or with "
                "odd extensions; after EVERY call (also after throwing ones) the id / path / filename / fileType / "
                "originDatabaseUuid / originTrackId of every Track row, Information.uuid and the AUTOINCREMENT counter are "
                "read through the C API and compared with the Model's table; oracle on the real rows: the Lean predicate "
                "Spec.tracksWf (t2.wf), and a throwing call must leave the rows unchanged. non-trivial = distinct accepted "
                "(call, arguments)",
        "samples": [scripts[0][3][:200], scripts[-1][-2][:200]],
        "histograms": hist,
        "divergences": divergences[:10],
        "violations": violations[:6],
    }


def replay(ctx, hdr, body):
    import re
    lines = [l for l in body if not re.match(r"^[A-Za-z_()0-9 ]{1,20}: ", l)]
    if not lines or lines[0] != "#mode " + MODE:
        return None
    hout, _ = runner.run_harness_script(lines, stateless=False, watchdog=30)
    mout = runner.run_model_script(lines)
    steps = [(i, l.split()[0]) for i, l in enumerate(lines) if l.split()[0] in ("mktrack", "update", "set", "rmtrack")]
    div, viol, _, _, _ = judge([(lines, steps)], [(hout, None)], [mout])
    txt = "\n".join("%s\n   impl:  %s\n   model: %s%s" % (l[:200], canon(h)[:400], m[:400], "" if G.same(canon(h), m) else "   <-- differ")
                    for l, h, m in zip(lines[-6:], hout[-6:], mout[-6:]))
    txt += "\n" + "\n".join("ORACLE: " + v["header"]["what"] for v in viol)
    return (not div and not viol), txt
