"""C16, whole-library part for schema 1.x (composite-v1): every observer Call leaves Lib1 unchanged — by proof over the
composite step; on the real library the dump of all tables and the bookkeeping tables are compared around observers."""
from props.parts import _lib1

NS = "EngineModel.Properties.C16Lib1."
LEAN_MODULES = ["Properties.C16Lib1"]
THEOREMS = [NS + t for t in [
    "C16_lib1_observer_unchanged",
    "C16_lib1_observer_raw_unchanged",
    "C16_lib1_repeat",
    "C16_lib1_frame",
    "C16_lib1_answer_from_state",
    "C16_lib1_mutator_changes",
]]
ASSUMPTIONS = [
    "1.x composite: the 24 observing constructors of Lib.V1.Call (getters, snapshot(), listings, lookups, verify(), uuid(), "
    "version_name(), directory(), is_valid(), containing_crates()) go through the same `step` as the mutators; loading is "
    "`reload` (C10_lib1); database_exists / the schema-2.x table API are outside this part (C16's own tie)",
]
TRUSTED_EXTRA = []
MANIFEST_TEXT = ("Schema 1.x on the whole-library model: every observing call of database / crate / track returns the "
                 "state it was given, for ANY state and argument (C16_lib1_observer_unchanged), repeated observation answers "
                 "the same, observers can be dropped from any history (C16_lib1_frame).")


def tie(ctx):
    plan = [("mixed", 12, 8), ("members", 12, 3)] if ctx.tier == "quick" else [("mixed", 30, 20), ("members", 24, 10)]
    r = _lib1.run_part(ctx, "C16", plan, ("observe",), observers=0.6, disk_share=0.3, track_ops=0.35)
    r["rule"] = ("interleaved histories on %s; after most calls a block of 1-4 random observers (every db.q / crate.q / "
                 "track getter / snapshot / is_valid / containing_crates, on live and removed handles) applied twice between "
                 "two raw dumps of ALL tables + row counts of ChangeLog / Pack: dump and counts must be equal and both "
                 "applications answer the same (direct oracle on the library's own outputs); model <-> library on every line"
                 % ", ".join(sorted(r["histograms"]["schemas"])))
    return r


def replay(ctx, hdr, body):
    if hdr.get("oracle", "").startswith("lib1.observe"):
        return _lib1.replay(ctx, hdr, body)
    return None
