"""C10, whole-library 2.x part (composite-v2) — everything observed before closing is observed after reopening, on the
composite model of all 2.x tables."""
import random
from common import *
import runner
from props.parts import _lib2 as L
from props.parts import _tracksv2_gen as TG

NS = "EngineModel.Properties.C10Lib2."
LEAN_MODULES = ["Properties.C10Lib2"]
THEOREMS = [NS + t for t in [
    "C10Lib2_remove_track_settles", "C10Lib2_remove_track_durable", "C10Lib2_remove_track_fault_leaves_nothing",
    "C10Lib2_reload_every_prefix", "C10Lib2_reload_observes", "C10Lib2_open_transaction_is_lost"]]
ASSUMPTIONS = [
    "2.x composite (C10): durability is SQLite's (what a connection committed is what the next one reads: Conn.reopen); "
    "handles hold (library, table accessors, id) only — v2/track_impl.hpp, v2/crate_impl.hpp — so a handle is its id; "
    "sampled by closing and loading real on-disk libraries after every call of interleaved histories",
]
MANIFEST_TEXT = ("Schema 2.x, whole library (composite model Lib/V2.lean): the one call that writes three tables, "
                 "database::remove_track, is modelled as its statement program under C14's fault model: it settles under every "
                 "fault plan (C10Lib2_remove_track_settles), makes exactly the composite step's result durable when nothing fails "
                 "(_durable) and nothing when any statement fails (_fault_leaves_nothing); with every call settled, closing and "
                 "loading after EVERY call shows, at every prefix, the observation of the one-session run — every observer of "
                 "database / crate / track on every crate and track (C10Lib2_reload_every_prefix, _reload_observes); an open "
                 "transaction would be lost (_open_transaction_is_lost).")
TRUSTED_EXTRA = []


def obs_block(g):
    b = ["v2.obs " + " ".join(L.PROBES), "db.q uuid", "db.q version_name"]
    for t in g.tracks:
        b += ["snap %s" % t, "get %s valid" % t]
    for c in g.crates:
        b += ["crate.q %s valid" % c, "crate.q %s tracks" % c]
    b += ["lib2.raw", "lib2.rows"]
    return b


def build(rng, tier, schema, hid, nops, reopen_each):
    g = L.Gen(rng, tier, hid, max_crates=6, max_tracks=6)
    for _ in range(2):
        g.mktrack(fresh_only=True)
    for _ in range(2):
        v = g.newc()
        g.ops.append("mkroot %s %s" % (v, L.hx("n%d" % g.nc)))
    while len(g.ops) < nops:
        k = rng.random()
        if k < 0.45:
            g.member_op()
        elif k < 0.8:
            g.track_op()
        else:
            g.forest_op()
    lines = [L.MODE, "create %s disk" % schema]
    marks = []
    for op in g.ops:
        lines.append(op)
        if op.startswith(("crate.q", "db.q")):
            continue
        if reopen_each:
            blk = obs_block(g)
            marks.append((len(lines), len(blk)))
            lines += blk + ["reopen"] + blk
    blk = obs_block(g)
    marks.append((len(lines), len(blk)))
    lines += blk + ["reopen"] + blk
    return lines, marks, g.ops


def unbound_ok(a, b):
    """a handle of a removed object answers before closing (is_valid false / exception) and is unbound after (bad-op)"""
    return a == b or b.startswith("bad-op")


def tie(ctx):
    rng = random.Random(ctx.seed * 32452843 + 10)
    schemas = L.schemas_for(ctx)
    n = 2 if ctx.tier == "quick" else 20
    scripts, allmarks = [], []
    hid = 1300
    for s in schemas:
        for _ in range(n):
            hid += 1
            st = rng.getstate()
            la, ma, _ = build(rng, ctx.tier, s, hid, 24, True)       # stream A: close + load after every call
            rng.setstate(st)
            lb, mb, _ = build(rng, ctx.tier, s, hid, 24, False)      # stream B: the same history in one session
            scripts += [la, lb]
            allmarks += [ma, mb]
    hres = runner.run_harness(scripts, watchdog=60, stateless=False)
    mres = runner.run_model(scripts)
    divergences, violations = [], []
    ev, states, reloads = 0, set(), 0
    finals = {}
    for si, (lines, marks, (ho, _), mo) in enumerate(zip(scripts, allmarks, hres, mres)):
        for i, (l, h, m) in enumerate(zip(lines, ho, mo)):
            if l.startswith("#"):
                continue
            ev += 1
            if not L.same(h, m):
                divergences.append({"input": " ; ".join(x for x in lines[1:i + 1] if x.split()[0] in L.MUTATORS or x == "reopen")[-1200:] + " ; " + l,
                                    "impl": h[:500], "model": m[:500], "schema": L.schema_of(lines)})
                break
        for (start, nb) in marks:
            if start + 2 * nb + 1 > len(ho):
                continue
            pre, ro, post = ho[start:start + nb], ho[start + nb], ho[start + nb + 1:start + 2 * nb + 1]
            if any(x.startswith(("ub ", "skipped")) for x in pre + [ro] + post):
                continue
            reloads += 1
            states.add(pre[-2])
            what = None
            if not ro.startswith("ok " + L.schema_of(lines)):
                what = "close + load_database fails or reports another schema: %s" % ro[:100]
            else:
                for j in range(nb):
                    l = lines[start + j]
                    a, b = pre[j], post[j]
                    if l.startswith("v2.obs"):
                        # handles of removed crates are listed before closing and gone after: compare without h=[…]
                        a, b = a.split(" h=[")[0], b.split(" h=[")[0]
                    if not unbound_ok(a, b):
                        what = "`%s` answers differently after closing and loading again: %s / %s" % (l[:50], a[:120], b[:120])
                        break
            if what:
                violations.append({"tag": "C10_lib2_reload", "signature": None,
                                   "header": {"kind": "script", "what": what, "part": "C10_lib2", "schema": L.schema_of(lines)},
                                   "body": lines[:start + 2 * nb + 1]})
                break
        # final observation of stream A (pair index even) vs stream B (odd)
        if marks and marks[-1][0] + marks[-1][1] <= len(ho):
            s0, nb = marks[-1]
            # the observation through the DATABASE (not through handle variables, which stream A has re-obtained)
            finals[si] = [h.split(" h=[")[0] for l, h in zip(lines[s0:s0 + nb], ho[s0:s0 + nb])
                          if l.startswith(("v2.obs", "lib2.raw", "lib2.rows", "db.q version_name"))]
    for k in range(0, len(scripts), 2):
        if k in finals and k + 1 in finals:
            fa, fb = finals[k], finals[k + 1]
            # uuid differs between the two libraries: only masked lines are compared
            if [x for x in fa] != [x for x in fb] and not violations:
                j = next((j for j in range(min(len(fa), len(fb))) if fa[j] != fb[j]), None)
                if j is not None:
                    violations.append({"tag": "C10_lib2_session", "signature": None,
                                       "header": {"kind": "script", "part": "C10_lib2", "schema": L.schema_of(scripts[k]),
                                                  "what": "the history run with close + load after every call ends in another observation than "
                                                          "the same history in one session: %s / %s" % (fa[j][:120], fb[j][:120])},
                                       "body": scripts[k]})
    hist = {"close_and_load_comparisons": reloads, "schemas": schemas, "scripts": len(scripts)}
    return {"ok": not divergences and not violations, "evaluations": ev, "distinct_nontrivial": len(states),
            "rule": "2.x whole library, on disk, on %s: interleaved track / crate / membership histories; stream A closes the "
                    "library (all handles destroyed) and loads it again after EVERY call, stream B runs the same history in one "
                    "session; around every reload the full crate observation, snapshot() and is_valid of every track handle, "
                    "tracks() of every crate handle, uuid, version name, the dump of all tables and every column of every Track row "
                    "must be equal before and after (direct oracle; handles of removed objects are simply gone), A and B must end "
                    "in the same observation, and every line is compared with the composite Model (reopen = Session.reload); "
                    "non-trivial = distinct dumps at which a reload was compared" % ", ".join(schemas),
            "samples": [" ; ".join(x for x in scripts[0][1:60] if x.split()[0] in L.MUTATORS)[:300]], "histograms": hist,
            "divergences": divergences[:10], "violations": violations[:5]}


def replay(ctx, hdr, body):
    if hdr.get("part") != "C10_lib2":
        return None
    lines = [l for l in body if not l.startswith(("impl(", "model(", "# "))]
    ho, _ = runner.run_harness_script(lines, watchdog=60)
    mo = runner.run_model_script(lines)
    ok = all(L.same(h, m) for h, m in zip(ho, mo))
    return ok, "\n".join("%s\n   impl:  %s\n   model: %s" % (l[:200], h[:300], m[:300]) for l, h, m in zip(lines, ho, mo)) + "\nrecorded verdict: %s" % hdr.get("what", "")
