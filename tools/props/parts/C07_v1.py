"""C07, schema-1.x half: all crate queries describe one well-formed forest."""
from props.parts import _cratesv1

LEAN_MODULES = []
THEOREMS = []
ASSUMPTIONS = []
TRUSTED_EXTRA = []
MANIFEST_TEXT = ""


def tie(ctx):
    return _cratesv1.part_result(ctx, "C07")


def replay(ctx, hdr, body):
    return _cratesv1.replay(ctx, hdr, body)
