"""C07, schema-1.x half: all crate queries describe one well-formed forest."""
from props.parts import _cratesv1

LEAN_MODULES = ["Properties.C07V1"]
THEOREMS = ["EngineModel.Properties.C07V1." + t for t in [
    "C07_invariant_after_every_history",
    "C07_no_undefined_behaviour",
    "C07_step_simulates_spec",
    "C07_refines",
    "C07_queries_agree_with_spec",
    "C07_forest_wellformed",
    "C07_children_descendants_roots_from_parent",
    "C07_invalid_name_rejected_without_effect",
    "C07_failed_call_changes_nothing",
    "C07_cycle_reparent_rejected",
    "C07_new_id_is_fresh",
    "C07_live_crate_stays_live",
    "C07_remove_kills_subtree",
    "C07_queries_return_only_live_crates",
    "C07_removed_never_returned_partial",
    "C07_removed_never_returned_counterexample",
    "C07_step_from_wellformed",
    "C07_refines_from_wellformed",
    "C07_queries_agree_on_wellformed",
]]
ASSUMPTIONS = [
    "1.x: SqliteSemantics — hand translation of the statements of engine_crate_impl.cpp / engine_database_impl.cpp on "
    "Crate / CrateParentList / CrateHierarchy / CrateTrackList (tables up to 1.7.1, views over List* with INSTEAD OF "
    "triggers from 1.9.1), of rowid / MAX(id)+1 / AUTOINCREMENT id allocation and of sqlite_transaction roll-back into "
    "list operations (lean/EngineModel/Api/CratesV1.lean); foreign_keys and recursive_triggers are OFF as in the "
    "library; validated by call-result, observation and raw-table equality after every step of the explored and "
    "generated histories on the eleven 1.x versions",
    "1.x: crate names are byte strings without NUL (the title is bound as a C string)",
]
TRUSTED_EXTRA = []
MANIFEST_TEXT = ("Schema 1.x: for every history of crate operations (create root / sub-crate, rename, re-parent to any "
                 "crate or none, remove; removed handles, unknown ids and invalid names included) from the empty library, "
                 "on every 1.x version: the invariant Inv (parent list functional / total / live, hierarchy = strict "
                 "transitive closure, paths = names from the root) holds after every prefix, no call has undefined "
                 "behaviour, the outcome class of every call is the one Spec.Forest allows and absForest commutes with "
                 "it (C07_refines), and every structural query of the Model equals the query of Spec.Forest on the "
                 "abstract forest; corollaries: invalid names rejected without effect, failing calls change nothing, "
                 "cycle-creating re-parenting rejected, new ids fresh, live crates keep their ids, removed sub-trees are "
                 "never returned along any continuation in which no creation reports the id again (_partial; the full "
                 "'never again' is false of the 1.x code, which re-issues MAX(id)+1 ids: _counterexample proved, recorded "
                 "finding v1-removed-crate-id-reissued); the step / history / query theorems also hold from ANY raw "
                 "state that passes the executable WfRaw (a loaded library), not only from the empty one. "
                 "Tied to the real library by breadth-first exploration of all distinct model states with <= 4 crate "
                 "handles plus random deep histories, with a Spec.Forest oracle on the library's own answers.")


def tie(ctx):
    return _cratesv1.part_result(ctx, "C07")


def replay(ctx, hdr, body):
    return _cratesv1.replay(ctx, hdr, body)
