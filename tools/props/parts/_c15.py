"""Shared machinery of the four model-backed parts of C15
(tools/props/parts/C15_{tracks,crates}_{v1,v2}.py).

One stateful script = `#mode <c15 mode>` + a prefix that builds a reachable
state (with stale handles) + adversarial calls.  It runs on the sanitizer
harness (real library) and on the Lean driver (the `step` dispatchers the C15
theorems are about).

* direct oracle (the property itself, on the implementation's own answers):
  no line may end in `ub …` / `missing-output` — sanitizer or libstdc++
  assertion abort, watchdog expiry, foreign throw;  `is_valid` of a stale
  handle must answer 0 and `id` / `copy` of it must answer its id;
* tie: the model's outcome for every line must be the implementation's
  (`ok <text>` compared literally; `throw` compared as a class: which exception
  is thrown is not part of C15; `ub` must match — the model never answers `ub`
  on these scripts, by the theorems).
"""
import re
from common import *
import runner


def hexs(b):
    if isinstance(b, str):
        b = b.encode()
    return b.hex() if b else "-"


def rotate(all_items, seed, k):
    """k items of the list, rotating with the seed, always incl. the first and the last."""
    if k >= len(all_items):
        return list(all_items)
    mid = all_items[1:-1]
    pick = [mid[(seed * 3 + i * 2) % len(mid)] for i in range(max(0, k - 2))]
    out = [all_items[0]] + [p for i, p in enumerate(pick) if p not in pick[:i]] + [all_items[-1]]
    return out


def cls(line):
    """outcome class of a result line"""
    if line.startswith("ok"):
        return "ok"
    if line.startswith("throw"):
        return "throw"
    if line.startswith("ub"):
        return "ub"
    if line.startswith("bad-op"):
        return "bad-op"
    return line.split()[0] if line else "empty"


def canon(line, loose_ids=False):
    """what is compared between model and implementation"""
    if line.startswith("throw"):
        return "throw"
    if line.startswith("bad-op"):
        return "bad-op"
    if line.startswith("ub"):
        return "ub"
    if loose_ids:
        line = re.sub(r"^ok id=-?\d+$", "ok id", line)
    return line


def const_query(l, stale=None):
    """calls with no model content (uuid / version_name / directory / verify, handle copy-assign-move-destroy,
    crate::db): compared as defined-vs-undefined only"""
    t = l.split()
    return (t[0] == "db.q" and len(t) > 1 and t[1] in ("uuid", "version_name", "directory", "verify")) or \
        t[0] in ("c15.handles", "c15.crate_db")


DB_CONST = ["db.q uuid", "db.q version_name", "db.q directory", "db.q verify"]


def moved_subtree_probe(mk):
    """a crate moved together with its sub-tree, then re-parented under its own (moved) grandchild: must be refused;
    a library that accepts it has a parent cycle (1.x: unbounded update_path recursion, 2.x: the recursive view)"""
    return ["mkroot zp1 7a7031", "mksub zp2 zp1 7a7032", "mksub zp3 zp2 7a7033", "mkroot zp4 7a7034",
            "setparent zp2 zp4", "setparent zp4 zp3", "rename zp4 7a7035", "crate.q zp4 descendants",
            "crate.q zp3 children",
            # a non-last crate moved into a parent without children, then that parent's children are listed
            # (2.x: the new sibling list must have a tail, or sort_ids dereferences end())
            "mkroot zq1 7a7131", "mkroot zq2 7a7132", "mksub zq3 zq1 7a7133", "mksub zq4 zq1 7a7134",
            "setparent zq3 zq2", "crate.q zq2 children", "crate.q zq1 children", "db.q root_crates"]


def failed_call_probe():
    """calls that FAIL half-way (a name already taken under the target parent: the UNIQUE constraint refuses the last
    statement of the move / rename), followed by the ordered queries of every sibling list involved: a multi-statement
    re-linking that is not rolled back leaves a sibling list without a tail, and the next children() / root_crates()
    dereferences end().  First / only / last sibling, into a sub-crate list and into the root list."""
    return ["mkroot zr1 7a7231", "mkroot zr2 7a7232", "mksub zr3 zr1 58", "mksub zr4 zr2 58", "mksub zr7 zr2 59",
            "setparent zr3 zr2", "crate.q zr1 children", "crate.q zr2 children", "db.q root_crates",
            "mkroot zr5 5a", "mksub zr6 zr1 5a", "setparent zr6 -", "db.q root_crates", "crate.q zr1 children",
            "rename zr6 58", "crate.q zr1 children", "crate.q zr1 descendants",
            "mksub zr8 zr2 5a", "setparent zr5 zr2", "db.q root_crates", "crate.q zr2 children", "db.q crates",
            "mksub zr9 zr1 59", "setparent zr7 zr1", "crate.q zr2 children", "crate.q zr1 children",
            "crate.q zr3 parent", "crate.q zr7 parent", "db.q crates_by_name 58"]


def run_pair(scripts, watchdog=15):
    hres = runner.run_harness(scripts, watchdog=watchdog, stateless=False)
    mres = runner.run_model(scripts)
    return [(s, h[0], m, h[1]) for s, h, m in zip(scripts, hres, mres)]


def judge(results, part, family, prefix_len, stale_of, opkey, loose_ids=False, defined_only=lambda l, stale: False):
    """stale_of(script, impl_outputs, upto) -> set of handle names that are stale before line `upto`
    opkey(line) -> short name of the call for histograms / signatures
    defined_only(line, stale) -> compare this line only as defined-vs-ub (ok and throw merged)"""
    divergences, violations = [], []
    hist = {"outcome": {}, "op": {}, "stale_calls": 0, "throw_class": {}}
    seen = set()
    evals = 0
    ubs = {}
    for script, ho, mo, reports in results:
        stale = set()
        done_div = False
        for k, (l, h, m) in enumerate(zip(script, ho, mo)):
            if l.startswith("#") or h == "skipped-after-crash":
                continue
            stale = stale_of(script, ho, k)
            evals += 1
            if k >= prefix_len(script):
                c = cls(h)
                hist["outcome"][c] = hist["outcome"].get(c, 0) + 1
                op = opkey(l)
                hist["op"][op] = hist["op"].get(op, 0) + 1
                if c == "throw":
                    t = h.split()[1] if len(h.split()) > 1 else "?"
                    hist["throw_class"][t] = hist["throw_class"].get(t, 0) + 1
                if any(v in l.split()[1:3] for v in stale):
                    hist["stale_calls"] += 1
                seen.add((script[1], l))
            # ---- direct oracle
            if h.startswith("ub") or h.startswith("missing-output"):
                sig = {"family": family, "part": part, "op": opkey(l), "ub": h}
                key = json.dumps(sig, sort_keys=True)
                if key not in ubs:
                    rep = next((r for r in reports if r.get("line") == l), None)
                    ubs[key] = {"tag": "ub_" + part, "signature": sig,
                                "header": {"kind": "script", "part": part,
                                           "what": "public call ended in undefined behaviour: %s   call: %s" % (h, l[:160])},
                                "body": script[:k + 1] + ["impl(last): " + h, "model(last): " + m] +
                                        (["stderr: " + x for x in rep["stderr"].split("\n")[-12:]] if rep else [])}
                break
            toks = l.split()
            if len(toks) >= 3 and toks[0] in ("get", "crate.q") and toks[1] in stale:
                bad = None
                sig = {"family": family, "part": part, "op": opkey(l), "stale": toks[2]}
                if toks[2] == "valid" and h.startswith("ok") and h != "ok 0":
                    bad = "is_valid() of a handle to a removed object answered %s" % h
                    if reissued(script, ho, k, toks[1]):
                        kind = "crate" if toks[0] == "crate.q" else "track"
                        bad += " (its id was given to a %s created after the removal)" % kind
                        sig = {"family": family, "kind": kind,
                               "effect": "is_valid() of a stale handle is true again once its id is reissued"}
                if toks[2] in ("id", "copy") and not h.startswith("ok"):
                    bad = "%s of a handle to a removed object did not complete: %s" % (toks[2], h)
                if bad:
                    ubs.setdefault(json.dumps(sig, sort_keys=True),
                                   {"tag": "stale_" + part, "signature": sig,
                                    "header": {"kind": "script", "part": part, "what": bad},
                                    "body": script[:k + 1] + ["impl(last): " + h]})
            # ---- tie
            if not done_div:
                if defined_only(l, stale):
                    same = (cls(h) in ("ok", "throw")) == (cls(m) in ("ok", "throw")) and cls(m) != "ub"
                else:
                    same = canon(h, loose_ids) == canon(m, loose_ids)
                if not same:
                    divergences.append({"input": " ; ".join(script[max(1, k - 6):k + 1])[-1200:], "script": script[1],
                                        "impl": h[:400], "model": m[:400]})
                    done_div = True
    violations = [shrink_ub(v, results, prefix_len) for _, v in sorted(ubs.items())][:8]
    # violations that carry the signature shape of a recorded finding are classified by check.py (KNOWN-FINDING)
    unknown = [v for v in violations if "effect" not in v["signature"]]
    return {"divergences": divergences, "violations": violations, "hist": hist, "evaluations": evals,
            "distinct": len(seen), "ok": not divergences and not unknown}


def shrink_ub(v, results, prefix_len):
    """A `ub` replay as short as it gets: prefix + the failing call (kept only if it still fails), else
    prefix + the calls on the same handle + the failing call, else the recorded script."""
    if not v.get("tag", "").startswith("ub_"):
        return v
    body = [l for l in v["body"] if not l.startswith(("impl(", "stderr: "))]
    tail = [l for l in v["body"] if l.startswith(("impl(", "stderr: "))]
    if len(body) < 3:
        return v
    n = prefix_len(body)
    pre, calls, last = body[:n], body[n:-1], body[-1]
    if len(body) <= n + 1:
        return v
    toks = last.split()
    handle = toks[1] if len(toks) > 1 else None
    cands = [pre + [last], pre + [l for l in calls if handle and handle in l.split()[1:3]] + [last]]
    for cand in cands:
        try:
            out, _ = runner.run_harness_script(cand, watchdog=15, stateless=False)
        except Exception:
            continue
        if out and (out[-1].startswith("ub") or out[-1].startswith("missing-output")) and \
                all(not o.startswith("ub") for o in out[:-1]):
            w = dict(v)
            w["body"] = cand + ["impl(last): " + out[-1]] + [t for t in tail if t.startswith("stderr: ")]
            return w
    return v


CREATORS = ("mkroot", "mksub", "mkroot_after", "mksub_after", "mktrack", "v1.mktrack", "v2.mktrack")
REMOVERS = ("rmcrate", "rmtrack")


def reissued(script, ho, k, var):
    """was the id of handle `var` (removed before line k) handed out again by a creation after the removal?"""
    hid, removed_at = None, None
    for i in range(k):
        t = script[i].split()
        if not t:
            continue
        if t[0] in CREATORS and len(t) > 1 and t[1] == var and ho[i].startswith("ok id="):
            hid, removed_at = ho[i][6:], None
        elif t[0] in REMOVERS and len(t) > 1 and t[1] == var and ho[i].startswith("ok"):
            removed_at = i
    if hid is None or removed_at is None:
        return False
    for i in range(removed_at + 1, k):
        t = script[i].split()
        if t and t[0] in CREATORS and ho[i] == "ok id=" + hid:
            return True
    return False


def removed_handles(script, ho, upto):
    """handles whose removal (rmcrate / rmtrack) succeeded on the implementation before line `upto`"""
    st = set()
    for l, h in zip(script[:upto], ho[:upto]):
        t = l.split()
        if t and t[0] in REMOVERS and len(t) > 1 and h.startswith("ok"):
            st.add(t[1])
    return st


def replay(mode_names, hdr, body, loose_ids=False):
    """replay of a script recorded by one of the parts (first line `#mode c15…`)"""
    lines = [l for l in body if not l.startswith(("impl(", "model(", "stderr: "))]
    if not lines or not lines[0].startswith("#mode ") or lines[0].split()[1] not in mode_names:
        return None
    (script, ho, mo, _), = run_pair([lines])
    ok = True
    text = []
    for l, h, m in zip(script, ho, mo):
        flag = ""
        if h.startswith("ub") or h.startswith("missing-output"):
            flag = "   <-- undefined behaviour on the implementation"
            ok = False
        elif canon(h, loose_ids) != canon(m, loose_ids) and not (cls(h) in ("ok", "throw") and cls(m) in ("ok", "throw")):
            flag = "   <-- model differs"
            ok = False
        text.append("%s\n   impl:  %s\n   model: %s%s" % (l[:300], h[:600], m[:600], flag))
    text.append("recorded verdict: %s" % hdr.get("what", "(none)"))
    return ok, "\n".join(text)


import json
