"""C11, schema-1.x half: the stored database stays a well-formed Engine library."""
from props.parts import _cratesv1

LEAN_MODULES = ["Properties.C11V1"]
THEOREMS = ["EngineModel.Properties.C11V1." + t for t in [
    "C11_reachable_wellformed",
    "C11_no_failing_conjunct",
    "C11_encodings_agree",
    "C11_wfRaw_iff_invariant",
    "C11_membership_rows_wellformed",
    "C11_wfRaw_rejects_known_damage",
    "C11_step_preserves_wellformedness",
    "C11_foreign_key_check_clean",
    "C11_foreign_key_check_clean_reachable",
    "C11_track_derived_columns_after_every_history",
    "C11_track_derived_columns_step",
    "C11_path_parts_agree_with_spec",
]]
ASSUMPTIONS = [
    "1.x: the raw dump is taken through the C API on the library's own connection (sqlite3 handle captured by the "
    "sqlite3_open_v2 wrapper; no library code on the read path) — in-memory libraries cannot be opened by a second "
    "connection; one history in four runs on a real file",
    "1.x: the derived-column history theorems are about the tracks work-package's multi-track model (TracksV1.Db: "
    "dbCreate / dbUpdate / dbSet / dbRemove), which that package's checks (C01 / C06, 1.x part) tie to the code; the crate "
    "model and the track model are two models of disjoint tables of the same file, composed at the level of the property "
    "(no operation of one writes a table of the other, except remove_track, present in both); this part adds a direct "
    "check of Track.filename and the extension MetaData row against Track.path on the real rows, judged with the "
    "independent Spec (Spec/PathParts.lean), after histories that call set_relative_path and setters on removed tracks",
    "TIE-ONLY clauses of C11 (no theorem): 'PRAGMA integrity_check is clean' (SQLite's b-tree / index consistency is not "
    "modelled), 'verify() passes' (the schema validators are C17's subject), 'every stored performance blob decodes' "
    "(C02/C03, codecs), and foreign_key_check for the tables outside the crate model (MetaData, MetaDataInteger, "
    "Track.idAlbumArt, PerformanceData) — all four are run on the real files after and inside generated histories. "
    "Proved: foreign_key_check for CrateParentList / CrateHierarchy / CrateTrackList (C11_foreign_key_check_clean)",
]
TRUSTED_EXTRA = []
MANIFEST_TEXT = ("Schema 1.x: every state reachable through the modelled crate / membership / track API satisfies the "
                 "executable predicate WfRaw (path strings, CrateParentList and CrateHierarchy describe the same forest; "
                 "ids are keys; names valid; no row of a missing crate or track; memberships duplicate-free) — "
                 "C11_reachable_wellformed, with the agreement of the three encodings spelled out in C11_encodings_agree, "
                 "WfRaw <-> Inv for any raw state, preservation from any well-formed state, foreign_key_check clean for the "
                 "three crate tables, and WfRaw shown to reject the raw states the pre-fix code produced; per-track derived "
                 "columns: after every history of create_track / update / all single-field setters (set_relative_path "
                 "among them) / remove_track of the tracks model, filename and the extension row are the file-name part "
                 "and extension of the path as defined by an independent Spec (longest '/'-free resp. '.'-free suffix).  "
                 "The same WfRaw is evaluated by the Lean driver on the raw rows of the real database after every step; "
                 "TIE-ONLY: PRAGMA integrity_check, foreign_key_check of the other tables, verify(), blob decoding, and "
                 "the filename / extension check on the real rows.")


def tie(ctx):
    return _cratesv1.part_result(ctx, "C11")


def replay(ctx, hdr, body):
    return _cratesv1.replay(ctx, hdr, body)
