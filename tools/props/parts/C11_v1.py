"""C11, schema-1.x half: the stored database stays a well-formed Engine library."""
from props.parts import _cratesv1

LEAN_MODULES = ["Properties.C11V1"]
THEOREMS = ["EngineModel.Properties.C11V1." + t for t in [
    "C11_reachable_wellformed",
    "C11_no_failing_conjunct",
    "C11_encodings_agree",
    "C11_wfRaw_iff_invariant",
    "C11_membership_rows_wellformed",
    "C11_wfRaw_rejects_known_damage",
    "C11_track_derived_columns",
]]
ASSUMPTIONS = [
    "1.x: the raw dump is taken through the C API on the library's own connection (sqlite3 handle captured by the "
    "sqlite3_open_v2 wrapper; no library code on the read path) — in-memory libraries cannot be opened by a second "
    "connection; one history in four runs on a real file",
    "1.x: C11_track_derived_columns is a theorem about the tracks work-package's model of create_track / update "
    "(TracksV1.writeSnap), which its own checks (C01 / C06, 1.x part) tie to the code; this part adds a direct check of "
    "Track.filename and the extension MetaData row against Track.path on the real rows",
    "1.x: PRAGMA integrity_check / foreign_key_check and verify() are supporting run-time checks on the real database, not "
    "theorems; 'every stored performance blob decodes' is covered by C02/C03 (codecs), not here",
]
TRUSTED_EXTRA = []
MANIFEST_TEXT = ("Schema 1.x: every state reachable through the modelled crate / membership / track API satisfies the "
                 "executable predicate WfRaw (path strings, CrateParentList and CrateHierarchy describe the same forest; "
                 "ids are keys; names valid; no row of a missing crate or track; memberships duplicate-free) — "
                 "C11_reachable_wellformed, with the agreement of the three encodings spelled out in C11_encodings_agree, "
                 "and WfRaw shown to reject the raw states the pre-fix code produced; per-track derived columns: filename "
                 "/ extension agree with the path after every create_track / update of the tracks model.  The same WfRaw "
                 "is evaluated by the Lean driver on the raw rows of the real database after every step, together with "
                 "PRAGMA integrity_check / foreign_key_check, verify() and a filename / extension check on the real rows.")


def tie(ctx):
    return _cratesv1.part_result(ctx, "C11")


def replay(ctx, hdr, body):
    return _cratesv1.replay(ctx, hdr, body)
