"""C06, schema 2.x part: after any sequence of setter calls each getter returns
the value last set (normalised), getter = snapshot field, no setter changes any
other field of that or any other track."""
import random
from common import *
import runner
from props.parts import _tracksv2_gen as G
from props.parts import _convertv2 as CV

LEAN_MODULES = ["Properties.C06V2", CV.LEAN_MODULE]
THEOREMS = ["EngineModel.Properties.C06V2." + t for t in [
    "v2_C06_setter_spec", "v2_C06_written_rows", "v2_C06_getter_snapshot", "v2_C06_slot_getters_safe",
    "v2_C06_get_set", "v2_C06_frame", "v2_C06_other_track", "v2_C06_step", "v2_C06_history",
    "v2_C06_obs_is_snapshot", "v2_C06_dbok_empty", "v2_C06_dbok_create",
    "v2_C06_model_get_set_frame", "v2_C06_model_slot_frame", "v2_C06_model_derived", "v2_C06_eight_slots",
    "v2_C06_history_getters", "v2_C06_value_last_set", "v2_C06_statement_level", "v2_C06_dbok_update",
    "v2_C06_removed_track", "v2_C06_norm_is_C01_norm"]] + CV.THEOREMS_C06
TRANSLATORS = CV.TRANSLATORS
ASSUMPTIONS = [
    "2.x: the lens theorems are stated on Db.set (whole effect or nothing); v2_C06_statement_level proves that the "
    "statement sequences of track_impl.cpp (EngineModel/TracksV2/Table.lean: SELECT / UPDATE in the C++ order, transaction "
    "scopes, UNIQUE(path) failures) project onto it; injected I/O faults at arbitrary statements are C14's subject",
    "2.x: rows the setters start from are rows the library stored (cue/loop labels fit the one-byte prefix, length "
    "column readable) - theorem hypothesis DbOk, proved for every table built by create_track; foreign rows are "
    "covered by v2_C06_setter_spec's explicit hypotheses only",
    CV.ASSUMPTION,
]
MANIFEST_TEXT = ("Schema 2.x: every setter of track_impl is proved to be the lens the Spec describes (named field = "
                 "normalised value, the other 24 snapshot fields and all other tracks unchanged, throws exactly where "
                 "the Spec rejects, never ub), getters = snapshot fields, lifted by induction to arbitrary setter "
                 "histories over any number of tracks; get∘set, frame (incl. per-slot and the derived filename / extension), "
                 "history_getters and 'the value last set' are also stated on the Model's own applySetter / getters; the "
                 "statement sequences of track_impl.cpp project onto the lens model (v2_C06_statement_level); removed tracks "
                 "stay removed and refuse every call; tied by generated histories over 3 tracks (every setter, slot "
                 "setters at -1..9) with all getters, snapshot() of all tracks and the raw row after each step, and "
                 "the lens Spec evaluated on the real library's previous answers.")
MANIFEST_TEXT = MANIFEST_TEXT + " " + CV.MANIFEST_SENTENCE
TRUSTED_EXTRA = [CV.TRUSTED]

GETTERS = ["album", "artist", "average_loudness", "beatgrid", "bitrate", "bpm", "comment", "composer", "duration",
           "genre", "hot_cues", "key", "last_played_at", "loops", "main_cue", "publisher", "rating", "relative_path",
           "sample_count", "sample_rate", "title", "track_number", "waveform", "year"]
SLOTS = [0, 1, 2, 3, 4, 5, 6, 7, 8, -1]
VARS = ["ta", "tb", "tc"]


def split_items(text, item_len):
    t = text.split()
    n = int(t[0])
    i = 1
    out = []
    for _ in range(n):
        if t[i] == "none":
            out.append("none")
            i += 1
        else:
            out.append(" ".join(t[i:i + item_len]))
            i += item_len
    return out


def observe_lines(v, full):
    L = ["snap " + v]
    if full:
        L += ["get %s %s" % (v, g) for g in GETTERS]
        L += ["get %s filename" % v, "get %s file_extension" % v]
        L += ["get %s hot_cue_at %d" % (v, i) for i in SLOTS]
        L += ["get %s loop_at %d" % (v, i) for i in SLOTS]
        L += ["t2.row " + v]
    return L


def gen_history(rng, tier, schema, hid):
    # `+alias` (harness only): two handle objects per track variable, calls alternate between them
    L = ["create %s %s%s" % (schema, "disk" if rng.random() < 0.1 else "mem", " +alias" if rng.random() < 0.5 else "")]
    for k, v in enumerate(VARS):
        s = G.gen_snapshot(rng, tier, hid * 10 + k, valid_bias=1.0)
        if isinstance(s.get("sample_rate"), str) and s.get("waveform"):
            s["sample_rate"] = 44100.0
        G.storable_waveform(s)
        s["relative_path"] = b"lib/%s%d.mp3" % (v.encode(), hid)
        L.append("mktrack %s %s" % (v, G.fmt_snapshot(s)))
    # in half of the histories the stored default grid / default main cue of some tracks differ from the adjusted
    # ones (Engine does that; no library call does): getters and snapshot() read the adjusted ones and must agree
    if rng.random() < 0.5:
        for v in VARS:
            if rng.random() < 0.7:
                L.append("t2.skew " + v)
    steps = []   # (index of the set line, var, field, valuetext)
    n = 14 if tier == "quick" else 40
    for v in VARS:
        L += observe_lines(v, True)
    for j in range(n):
        v = rng.choice(VARS)
        f, val = G.gen_setter(rng, tier, hid * 1000 + j)
        if f == "relative_path" and rng.random() < 0.25:
            other = rng.choice([w for w in VARS if w != v])
            val = G.hx(b"lib/%s%d.mp3" % (other.encode(), hid))      # a path another track (probably) has
        steps.append((len(L), v, f, val))
        L.append("set %s %s %s" % (v, f, val))
        other = VARS[(VARS.index(v) + 1 + j % 2) % 3]
        for w in VARS:
            L += observe_lines(w, w == v or w == other)
    return L, steps


def check_getters(lines, ho, k, v, viol):
    """lines[k] == 'snap v' followed by the getter block: getter = snapshot field"""
    snap = ho[k]
    if not snap.startswith("ok "):
        return 0
    try:
        f = G.split_snapshot(snap[3:])
    except ValueError:
        return 0
    n = 0
    j = k + 1
    body = lambda j: lines[:j + 1] + ["impl(snap): " + snap[:2000], "impl(getter): " + ho[j][:2000]]
    for g in GETTERS:
        exp = "ok " + (f[g] if g != "relative_path" else f[g][1:])
        if ho[j] != exp:
            viol("getter", "getter %s disagrees with the snapshot field" % g, body(j), g)
        j += 1
        n += 1
    path = bytes.fromhex(f["relative_path"][1:]) if f["relative_path"] not in ("none", "s-") else b""
    name = path.split(b"/")[-1]
    ext = name.rsplit(b".", 1)[1] if b"." in name else b""
    if ho[j] != "ok " + G.hx(name):
        viol("derived", "filename() is not the last component of relative_path()", body(j), "filename")
    if ho[j + 1] != "ok " + G.hx(ext):
        viol("derived", "file_extension() is not the extension of relative_path()", body(j + 1), "file_extension")
    j += 2
    cues = split_items(f["hot_cues"], 7)
    loops = split_items(f["loops"], 8)
    for items, what in ((cues, "hot_cue_at"), (loops, "loop_at")):
        for i in SLOTS:
            exp = ("ok " + items[i]) if 0 <= i < len(items) else "throw out_of_range"
            if ho[j] != exp:
                viol("slot-getter", "%s(%d) is not slot %d of the list getter / does not throw out_of_range" % (what, i, i),
                     body(j), what)
            j += 1
            n += 1
    return n


def judge(hs, results):
    """hs: [(lines, steps)], results: [(lines, impl, model)] -> divergences, violations, hist, distinct, n_spec"""
    divergences, violations = [], []
    hist = {"setter": {}, "outcome": {"ok": 0, "throw": 0, "ub": 0}, "throw_class": {}, "slot_index": {},
            "clash_expected": 0, "steps": 0, "getter_checks": 0}
    distinct = set()

    def viol(kind, what, body, field=None):
        sig = {"part": "v2", "kind": kind}
        if field:
            sig["field"] = field
        if len(violations) < 40:
            violations.append({"tag": "v2-" + kind, "signature": sig, "header": {"kind": "script", "what": what},
                               "body": body})

    spec_lines, spec_ref = [], []
    for hi, ((lines, steps), (_, ho, mo)) in enumerate(zip(hs, results)):
        for l, h, m in zip(lines, ho, mo):
            if not G.same(h, m):
                divergences.append({"input": l[:300], "impl": h[:400], "model": m[:400], "script": lines[0]})
                break
        if any(not ho[i].startswith("ok") for i in range(1, 4)):
            continue
        # current real snapshots
        cur = {}
        pos = 4 + sum(1 for l in lines[4:8] if l.startswith("t2.skew "))
        for v in VARS:
            cur[v] = ho[pos]
            hist["getter_checks"] += check_getters(lines, ho, pos, v, viol)
            pos += len(observe_lines(v, True))
        for (k, v, f, val) in steps:
            res = ho[k]
            if res == "skipped-after-crash":
                break
            hist["steps"] += 1
            hist["setter"][f] = hist["setter"].get(f, 0) + 1
            if f in ("hot_cue_at", "loop_at"):
                hist["slot_index"][val.split()[0]] = hist["slot_index"].get(val.split()[0], 0) + 1
            # where are the snaps after this step?
            j = k + 1
            new = {}
            blocks = {}
            for w in VARS:
                new[w] = ho[j]
                blocks[w] = j
                full = lines[j + 1].startswith("get %s " % w) if j + 1 < len(lines) else False
                j += len(observe_lines(w, full))
            script_to_here = lines[:j]
            if res.startswith("ub "):
                hist["outcome"]["ub"] += 1
                viol("ub", "setter %s has undefined behaviour (%s)" % (f, res), script_to_here[-60:] + ["impl: " + res], f)
                break
            hist["outcome"]["ok" if res.startswith("ok") else "throw"] += 1
            if res.startswith("throw"):
                c = res.split()[1]
                hist["throw_class"][c] = hist["throw_class"].get(c, 0) + 1
            # other tracks untouched
            for w in VARS:
                if w != v and new[w] != cur[w]:
                    viol("other-track", "set_%s on one track changed the snapshot of another track" % f,
                         [lines[0]] + [lines[1 + VARS.index(x)] for x in VARS] + [lines[k], "before: " + cur[w][:1500],
                                                                              "after:  " + new[w][:1500]], f)
            # expectation for this track from the lens Spec on the real previous snapshot
            clash = False
            if f == "relative_path":
                for w in VARS:
                    if w != v and cur[w].startswith("ok "):
                        try:
                            if G.split_snapshot(cur[w][3:])["relative_path"] == "s" + val:
                                clash = True
                        except ValueError:
                            pass
            if clash:
                hist["clash_expected"] += 1
                if not res.startswith("throw") or new[v] != cur[v]:
                    viol("path-clash", "set_relative_path to a path another track has was not refused cleanly (%s)" % res,
                         script_to_here + ["before: " + cur[v][:1500], "after:  " + new[v][:1500]], f)
            elif cur[v].startswith("ok "):
                spec_lines.append("t2.spec.set %s %s %s" % (G.to_signed_file_bytes(cur[v][3:]), f, val))
                spec_ref.append((hi, k, v, f, res, cur[v], new[v], j))
            # getter = snapshot field on the observed tracks
            for w in VARS:
                if blocks[w] + 1 < len(lines) and lines[blocks[w] + 1].startswith("get %s " % w):
                    hist["getter_checks"] += check_getters(lines, ho, blocks[w], w, viol)
            cur = new
            if res.startswith("ok"):
                distinct.add((f, val[:64]))
    spec_out = [o for outs in runner.run_model(runner.shard(spec_lines, NCPU)) for o in outs] if spec_lines else []
    for (hi, k, v, f, res, before, after, j), sp in zip(spec_ref, spec_out):
        lines = hs[hi][0]
        # the whole script up to the observations after the call: a complete replay
        body = lines[:j] + ["call: " + lines[k][:300], "impl(set): " + res, "impl(before): " + before[:2500],
                            "impl(after):  " + after[:2500], "spec(after):  " + sp[:2500]]
        if sp == "reject":
            if not res.startswith("throw"):
                viol("not-rejected", "set_%s accepted a value / index the library must reject (%s)" % (f, res), body, f)
            elif after != before:
                viol("partial", "a rejected set_%s changed the track" % f, body, f)
        elif sp.startswith("ok "):
            if not res.startswith("ok"):
                viol("rejected-valid", "set_%s rejected a valid call (%s)" % (f, res), body, f)
            elif after != sp:
                try:
                    a, b = G.split_snapshot(after[3:]), G.split_snapshot(sp[3:])
                    bad = [g for g in G.FIELDS if a[g] != b[g]]
                except ValueError:
                    bad = ["?"]
                own = f.replace("hot_cue_at", "hot_cues").replace("loop_at", "loops")
                if bad == [own]:
                    viol("get-set", "after set_%s the field does not hold the (normalised) value set" % f, body, f)
                else:
                    viol("frame", "set_%s changed other field(s): %s" % (f, ",".join(x for x in bad if x != own)), body, f)
        else:
            divergences.append({"input": "t2.spec.set … %s" % f, "impl": "", "model": sp[:300]})
    return divergences, violations, hist, len(distinct), len(spec_lines)


def tie(ctx):
    rng = random.Random(ctx.seed * 6151 + 606)
    per_schema = 4 if ctx.tier == "quick" else 60
    hs = []
    hid = 0
    for sch in G.SCHEMAS:
        for _ in range(per_schema):
            hid += 1
            hs.append(gen_history(rng, ctx.tier, sch, hid))
    scripts = [h[0] for h in hs]
    results = G.run_pair(runner, scripts)
    divergences, violations, hist, ndistinct, nspec = judge(hs, results)
    n_lines = sum(len(s) for s in scripts) + nspec
    return {
        "ok": not divergences and not violations,
        "evaluations": n_lines,
        "distinct_nontrivial": ndistinct,
        "rule": "2.x: seeded setter histories over 3 tracks created from generated snapshots (every one of the 26 setters, "
                "slot setters at indices 0..9, −1, ±2^31; values from the C01 generators; 25% of set_relative_path calls aim "
                "at another track's path) on 7 schemas; after every call: snapshot() of all 3 tracks, all 24 getters + "
                "filename/file_extension + hot_cue_at/loop_at at 0..8,−1 + the decoded raw row of two tracks, vs the Model; "
                "oracle on the real answers: Spec.applySetter(previous real snapshot) = new real snapshot (or rejected ⇒ "
                "throw and unchanged), other tracks unchanged, getter = snapshot field. non-trivial = distinct accepted "
                "(setter, value)",
        "samples": [scripts[0][4][:200] if scripts else "", scripts[-1][-1][:200] if scripts else ""],
        "histograms": hist,
        "divergences": divergences[:20],
        "violations": violations[:8],
    }


def replay(ctx, hdr, body):
    """re-run a recorded 2.x setter history on the library built from the working tree and on the model,
    and judge it again with the oracle of this part"""
    import re
    lines = [l for l in body if not re.match(r"^[A-Za-z_()0-9 ]{1,20}: ", l)]
    if len(lines) < 5 or not lines[0].startswith("create schema_2_") or not lines[1].startswith("mktrack ta "):
        return None
    steps = []
    for i, l in enumerate(lines):
        t = l.split(" ", 3)
        if t[0] == "set" and len(t) >= 3:
            steps.append((i, t[1], t[2], t[3] if len(t) > 3 else ""))
    res = G.run_pair(runner, [lines])
    div, viol, _, _, _ = judge([(lines, steps)], res)
    _, ho, mo = res[0]
    tail = "\n".join("%s\n   impl:  %s\n   model: %s%s" % (l[:200], h[:300], m[:300], "" if G.same(h, m) else "   <-- differ")
                     for l, h, m in list(zip(lines, ho, mo))[-4:])
    txt = "%d setter calls re-run on the working tree; %d model/implementation differences\n%s\n%s" % (
        len(steps), len(div), tail, "\n".join("ORACLE: " + v["header"]["what"] for v in viol))
    return (not div and not viol), txt
