"""C01, schema 2.x part: a snapshot written by create_track / update reads back
as `Spec.normalize` says, the read-back is a fixed point, and a snapshot is
either kept or rejected with an exception."""
import random, re
from common import *
import runner
from props.parts import _tracksv2_gen as G
from props.parts import _convertv2 as CV

LEAN_MODULES = ["Properties.C01V2", CV.LEAN_MODULE]
THEOREMS = ["EngineModel.Properties.C01V2." + t for t in [
    "v2_C01_roundtrip", "v2_C01_reject", "v2_C01_total", "v2_C01_fixed_point", "v2_C01_second_write",
    "v2_C01_representable", "v2_C01_db_create", "v2_C01_db_update", "v2_C01_db_reject",
    "v2_C01_table_create", "v2_C01_table_update", "v2_C01_table_second_write",
    "v2_C01_schema_create", "v2_C01_schema_update", "v2_C01_schema_matters"]] + CV.THEOREMS_C01
TRANSLATORS = CV.TRANSLATORS
ASSUMPTIONS = [
    "2.x: the Track table is modelled as a store of track_row values (tablePut: whole-second time stamps, SQL REAL "
    "for bpmAnalyzed, one-byte label prefix of the cue/loop blobs, UNIQUE(path)); the table layer itself is C18's "
    "subject and the blob codecs C02-C05's; both are observed here through the raw row (t2.row) on every case",
    "2.x: std::vector sizes are below 2^53 (w.size() * (2i+1) does not wrap)",
    "2.x: (double) of a 64-bit integer and the division producing samples-per-point are abstract in the theorems "
    "(their results never reach a snapshot) and hardware floats in the driver",
    CV.ASSUMPTION,
]
MANIFEST_TEXT = ("Schema 2.x: for all seven versions and every snapshot, writeSnap/tablePut/readSnap (mirror of "
                 "snapshot_to_row, the row store and snapshot()) returns exactly Spec.normalize, rejects exactly the "
                 "snapshots normalize rejects (never ub), normalize is idempotent and the identity on representable "
                 "fields; total table-level statements (create / update incl. the UNIQUE(path) collision, the absent track, "
                 "the second write on the same track) on the statement-level Track table; for each of the seven versions "
                 "tablePut is proved equal to get∘add / get∘update of C18's table model instantiated with the column lists "
                 "regenerated from track_table.cpp; tied by differential replay of generated snapshots (snap + raw Track row + rewrite of the "
                 "read-back) with the Spec evaluated on the real library's answers.")
MANIFEST_TEXT = MANIFEST_TEXT + " " + CV.MANIFEST_SENTENCE
TRUSTED_EXTRA = [CV.TRUSTED]


def _case_script(c):
    L = ["create %s %s" % (c["schema"], c["store"])]
    if c["kind"] == "update":
        L.append("mktrack t0 " + G.fmt_snapshot(c["prior"]))
        L.append("update t0 " + c["x"])
    elif c["kind"] == "collide":
        L.append("mktrack t1 " + G.fmt_snapshot(c["prior"]))
        L.append("mktrack t0 " + c["x"])
        L.append("snap t1")
    else:
        L.append("mktrack t0 " + c["x"])
    c["write_line"] = {"update": 2, "collide": 2, "create": 1}[c["kind"]]
    if c.get("skew"):
        L.append("t2.skew t0")      # default grid / main cue made different from the adjusted ones: snapshot() must not notice
    L.append("snap t0")
    L.append("t2.row t0")
    return L


def _prior(rng, tier, uniq):
    p = G.gen_snapshot(rng, tier, uniq, valid_bias=1.0)
    # keep the prior acceptable whatever the generator drew
    G.storable_waveform(p)
    if isinstance(p.get("sample_rate"), str):
        p["sample_rate"] = 44100.0
    return p


def gen_cases(rng, tier):
    cases = []
    per_schema = 36 if tier == "quick" else 1200
    uniq = 0
    for sch in G.SCHEMAS:
        for k in range(per_schema):
            uniq += 1
            x = G.gen_snapshot(rng, tier, uniq, valid_bias=0.7)
            c = rng.random()
            kind = "create" if c < 0.5 else ("update" if c < 0.93 else "collide")
            case = {"schema": sch, "store": "disk" if rng.random() < 0.15 else "mem", "kind": kind,
                    "x": G.fmt_snapshot(x), "xd": x, "skew": rng.random() < 0.3}
            if kind == "update":
                case["prior"] = _prior(rng, tier, uniq + 10 ** 6)
            if kind == "collide":
                case["prior"] = _prior(rng, tier, uniq + 10 ** 6)
                if x.get("relative_path") is not None:
                    case["prior"]["relative_path"] = x["relative_path"]
                    if b"." not in x["relative_path"].split(b"/")[-1]:
                        case["kind"] = "create"
                        case.pop("prior")
                else:
                    case["kind"] = "create"
                    case.pop("prior")
            cases.append(case)
    # hand-written witnesses of the repaired defects and boundary classes
    hand = [
        {"bpm": "7e37e43c8800759c"}, {"bpm": -0.0}, {"bpm": "7ff8000000000000"},
        {"waveform": bytes(range(12))}, {"waveform": bytes(range(12)), "sample_count": 100000},
        {"waveform": bytes(range(12)), "sample_count": 100000, "sample_rate": "7e37e43c8800759c"},
        {"waveform": bytes(range(12)), "sample_count": 100000, "sample_rate": -44100.0},
        {"waveform": bytes(range(12)), "sample_count": 100000, "sample_rate": 209.99},
        {"waveform": bytes(range(12)), "sample_count": 0, "sample_rate": 44100.0},
        {"hot_cues": [None] * 9}, {"loops": [None] * 9},
        {"hot_cues": [(b"x" * 256, 1.0, (1, 2, 3, 4))]}, {"loops": [(b"x" * 256, 1.0, 2.0, (1, 2, 3, 4))]},
        {"hot_cues": [(b"x" * 255, -1.0, (1, 2, 3, 4))] + [None] * 6 + [(b"last", 0.0, (9, 9, 9, 9))]},
        {"duration": 999}, {"duration": -999}, {"duration": 1000}, {"rating": 0}, {"rating": -5}, {"rating": 101},
        {"key": 0}, {"sample_count": 0}, {"main_cue": -0.0}, {"last_played_at": -1}, {"file_bytes": (1 << 64) - 1},
        {"relative_path": None}, {"relative_path": b"noext"}, {"relative_path": b"a.b/noext"},
        {"beatgrid": [(0, 0.0)]}, {"beatgrid": [(8, 100.0), (0, 50.0)]},
    ]
    # a large, poorly compressible beat grid (its zlib stream needs several output buffers on the final flush)
    idx, off, big = 0, 0.0, []
    for _ in range(2500):
        big.append((idx, off))
        idx += rng.choice([1, 2, 4, 8])
        off += rng.uniform(1000.0, 50000.0)
    hand.append({"beatgrid": big})
    for i, h in enumerate(hand):
        x = {"relative_path": b"hand/%d.mp3" % i}
        x.update(h)
        for sch in (G.SCHEMAS if tier == "thorough" else [G.SCHEMAS[i % 7], G.SCHEMAS[(i + 3) % 7]]):
            cases.append({"schema": sch, "store": "mem", "kind": "create", "x": G.fmt_snapshot(x), "xd": x})
    return cases


def _run(scripts):
    """-> list of (lines, impl, model) per script; scripts are independent"""
    return G.run_pair(runner, scripts)


def _batch(cases, mk):
    """Several cases per process.  A sanitizer abort ends a process: the cases
    after it are re-run in a new one."""
    results = [None] * len(cases)
    pending = list(range(len(cases)))
    per = max(1, (len(pending) + NCPU * 2 - 1) // (NCPU * 2))
    rounds = 0
    while pending and rounds < 50:
        rounds += 1
        groups = [pending[i:i + per] for i in range(0, len(pending), per)]
        scripts, spans = [], []
        for g in groups:
            L, sp = [], []
            for ci in g:
                s = mk(cases[ci])
                sp.append((ci, len(L), len(L) + len(s)))
                L += s
            scripts.append(L)
            spans.append(sp)
        nxt = []
        for (lines, ho, mo), sp in zip(_run(scripts), spans):
            for (ci, a, b) in sp:
                h = ho[a:b]
                if "skipped-after-crash" in h and not any(x.startswith("ub ") for x in h):
                    nxt.append(ci)      # never started: a previous case crashed the process
                    continue
                results[ci] = (lines[a:b], h, mo[a:b])
        pending = nxt
        per = max(1, per // 2)
    return results


def tie(ctx):
    rng = random.Random(ctx.seed * 7919 + 101)
    cases = gen_cases(rng, ctx.tier)
    res1 = _batch(cases, _case_script)
    divergences, violations = [], []
    hist = {"create": 0, "update": 0, "collide": 0, "accepted": 0, "rejected": 0, "ub": 0,
            "reject_class": {}, "schema": {}, "second_write": 0, "fields_changed_by_normalize": {}}
    distinct = set()

    def viol(kind, what, body, field=None):
        sig = {"part": "v2", "kind": kind}
        if field:
            sig["field"] = field
        violations.append({"tag": "v2-" + kind, "signature": sig,
                           "header": {"kind": "script", "what": what}, "body": body})

    # the Spec on the inputs (the oracle runs in the model driver, on no model state)
    spec_lines = ["t2.spec.norm %s %s" % (c["schema"], c["x"]) for c in cases]
    spec_out = [o for outs in runner.run_model(runner.shard(spec_lines, NCPU)) for o in outs]

    second = []
    for ci, (c, r) in enumerate(zip(cases, res1)):
        if r is None:
            divergences.append({"input": "case %d never ran" % ci, "impl": "", "model": ""})
            continue
        lines, ho, mo = r
        hist[c["kind"]] += 1
        hist["schema"][c["schema"]] = hist["schema"].get(c["schema"], 0) + 1
        for l, h, m in zip(lines, ho, mo):
            if not G.same(h, m):
                divergences.append({"input": l[:400], "impl": h[:400], "model": m[:400], "script": lines[0]})
                break
        w = ho[c["write_line"]]
        snap = ho[-2]
        spec = spec_out[ci]
        body = lines + ["impl(write): " + w, "impl(snap): " + snap[:3000], "spec: " + spec[:3000]]
        if w.startswith("ub "):
            hist["ub"] += 1
            viol("ub", "the write has undefined behaviour (%s): a snapshot must survive or be rejected with an exception" % w,
                 body)
            continue
        collide = c["kind"] == "collide"
        if spec == "reject" or collide:
            if not w.startswith("throw "):
                viol("not-rejected", "a snapshot the library must reject was accepted (%s)" % w, body)
            else:
                hist["rejected"] += 1
                k = w.split()[1]
                hist["reject_class"][k] = hist["reject_class"].get(k, 0) + 1
            if c["kind"] == "update" and ho[-2].startswith("ok"):
                pass
            continue
        if not spec.startswith("ok "):
            divergences.append({"input": spec_lines[ci][:300], "impl": "", "model": spec})
            continue
        if not w.startswith("ok"):
            viol("rejected-valid", "a snapshot the library must accept was rejected (%s)" % w, body)
            continue
        hist["accepted"] += 1
        if snap != spec:
            try:
                a, b = G.split_snapshot(snap[3:]), G.split_snapshot(spec[3:])
                bad = [f for f in G.FIELDS if a[f] != b[f]]
            except ValueError:
                bad = ["?"]
            viol("roundtrip", "read-back snapshot differs from the normalised input in field(s) %s" % ",".join(bad),
                 body, field=bad[0] if bad else None)
            continue
        try:
            xin, yout = G.split_snapshot(c["x"]), G.split_snapshot(snap[3:])
            for f in G.FIELDS:
                if xin[f] != yout[f]:
                    hist["fields_changed_by_normalize"][f] = hist["fields_changed_by_normalize"].get(f, 0) + 1
        except ValueError:
            pass
        distinct.add((c["schema"], c["x"]))
        second.append(ci)

    # fixed point on the real code: write the read-back snapshot to the same track again
    def second_script(ci):
        c = cases[ci]
        y = G.to_signed_file_bytes(res1[ci][1][-2][3:])
        return _case_script(c) + ["update t0 " + y, "snap t0", "t2.row t0"]
    if ctx.tier == "quick":
        second = second[::2]
    res2 = _batch(second, second_script)
    for ci, r in zip(second, res2):
        if r is None:
            continue
        lines, ho, mo = r
        hist["second_write"] += 1
        for l, h, m in zip(lines, ho, mo):
            if not G.same(h, m):
                divergences.append({"input": l[:400], "impl": h[:400], "model": m[:400], "script": lines[0]})
                break
        y = res1[ci][1][-2]
        body = lines + ["impl(update): " + ho[-3], "impl(first snap):  " + y[:3000], "impl(second snap): " + ho[-2][:3000]]
        if not ho[-3].startswith("ok"):
            viol("fixed-point", "writing the read-back snapshot again was not accepted (%s)" % ho[-3], body)
        elif ho[-2] != y:
            viol("fixed-point", "the read-back snapshot is not a fixed point of write/read", body)
    # the conversions regenerated from convert_*.hpp, executed against the real convert:: functions
    cvs = CV.gen_stream(ctx)
    divergences += cvs["divergences"]
    hist["regenerated_convert_vs_impl"] = cvs["hist"]
    n_lines = sum(len(r[0]) for r in res1 if r) + sum(len(r[0]) for r in res2 if r) + len(spec_lines) + cvs["lines"]
    return {
        "ok": not divergences and not violations,
        "evaluations": n_lines,
        "distinct_nontrivial": len(distinct),
        "rule": "2.x: seeded snapshots over all 25 fields (strings none/empty/multi-byte/300 bytes/NUL/invalid UTF-8; "
                "ints at range edges; doubles from {±0, −1, subnormal, ±1e15, ordinary, rare inf/NaN/|x|≥2^63}; 0..9 cue and "
                "loop slots incl. one populated slot at each position, labels 0..300 bytes; grids of 0,1,2,… markers incl. "
                "unsorted / extreme indices; waveforms of 0,1,2,1023,1024,1025,5000 entries with varied opacity; sample "
                "count/rate absent with a waveform present) × {create_track, update over a prior snapshot, create with a "
                "path already taken} × 7 schemas, mem and disk; per case: write outcome, snapshot(), decoded raw Track row "
                "vs Model; Spec.normalize on the input vs the real snapshot; rewrite of the real read-back snapshot. "
                "non-trivial = distinct accepted (schema, snapshot); + cv.*: every regenerated convert::read / write function "
                "on boundary and random arguments (ints at the clamp / overflow edges, doubles around ±2^63, NaN, ±inf, ±0, "
                "0..11 cue / loop slots) against the real function, answers compared as text",
        "samples": [res1[0][0][1][:300] if res1 and res1[0] else "", res1[-1][0][-3][:300] if res1 and res1[-1] else ""],
        "histograms": hist,
        "divergences": divergences[:20],
        "violations": violations[:8],
    }


def replay(ctx, hdr, body):
    """re-run a recorded 2.x snapshot case on the library built from the working tree and on the model, and
    judge it again: write outcome and snapshot() against Spec.normalize of the written snapshot, then the
    second write (fixed point) if the script has one"""
    import re
    lines = [l for l in body if not re.match(r"^[A-Za-z_()0-9 ]{1,20}: ", l)]
    if len(lines) < 3 or not lines[0].startswith("create schema_2_"):
        return None
    writes = [i for i, l in enumerate(lines) if l.startswith("mktrack t0 ") or l.startswith("update t0 ")]
    if not writes:
        return None
    (_, ho, mo) = G.run_pair(runner, [lines])[0]
    diffs = [(l, h, m) for l, h, m in zip(lines, ho, mo) if not G.same(h, m)]
    verdict = []
    schema = lines[0].split()[1]
    # the case's own write is the last write before the first `snap t0`
    first_snap = next((i for i, l in enumerate(lines) if l == "snap t0"), None)
    w = max([i for i in writes if first_snap is None or i < first_snap], default=writes[0])
    x = lines[w].split(" ", 2)[2]
    spec = runner.run_model_script(["t2.spec.norm %s %s" % (schema, x)])[0]
    collide = any(l.startswith("mktrack t1 ") for l in lines[:w])
    if ho[w].startswith("ub "):
        verdict.append("the write has undefined behaviour (%s)" % ho[w])
    elif spec == "reject" or collide:
        if not ho[w].startswith("throw "):
            verdict.append("a snapshot the library must reject was accepted (%s)" % ho[w])
    elif not ho[w].startswith("ok"):
        verdict.append("a snapshot the library must accept was rejected (%s)" % ho[w])
    elif first_snap is not None and ho[first_snap] != spec:
        verdict.append("read-back snapshot differs from the normalised input")
    snaps = [i for i, l in enumerate(lines) if l == "snap t0"]
    if len(snaps) >= 2 and ho[snaps[0]].startswith("ok ") and not verdict:
        if not ho[snaps[1] - 1].startswith("ok") and not lines[snaps[1] - 1].startswith("t2."):
            verdict.append("writing the read-back snapshot again was not accepted (%s)" % ho[snaps[1] - 1])
        elif ho[snaps[1]] != ho[snaps[0]]:
            verdict.append("the read-back snapshot is not a fixed point of write/read")
    txt = "\n".join("%s\n   impl:  %s\n   model: %s%s" % (l[:200], h[:400], m[:400], "" if G.same(h, m) else "   <-- differ")
                    for l, h, m in zip(lines, ho, mo))
    txt += "\nspec: " + spec[:400] + "\n" + "\n".join("ORACLE: " + v for v in verdict)
    return (not diffs and not verdict), txt
